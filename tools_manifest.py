#!/usr/bin/env python3
"""Regenerates MANIFEST.json from the table below (kept in one place so it stays valid)."""
import json
props = [json.loads(l) for l in open('/verif/properties.jsonl')]
CHECKS = {}
def chk(pid, level, text, note, technique, design_ref, thorough=True):
    CHECKS[pid] = {
        "property_id": pid,
        "quick_cmd": f"./check {pid} quick",
        **({"thorough_cmd": f"./check {pid} thorough"} if thorough else {}),
        "evidence_file": f"/verif/evidence/{pid}.json",
        "replay_cmd_template": f"./check {pid} quick --replay {{path}}",
        "engine": "vcore",
        "level_claimed": {"category": level, "text": text, "design_ref": design_ref},
        "level_note": note,
        "technique": technique,
    }

chk("C17", "exploration",
    "Generated op sequences (alloc inline/heap/static/temp, module references, add/pop unmarked, mark, sweep with work units around the table length) run against the real Heap while a cursor-free shadow model and the cfg(samlang_verif) invariant walker watch; the same driver runs under Miri for the unsafe aliasing. Held = no live string reclaimed, no injectivity/read-back/Ord/Hash inconsistency and no UB report on the sequences executed.",
    "Trusts the shadow model's must-be-live rule and catch_unwind liveness probing; Miri covers only the short sequences it executes; sequences are sampled, not enumerated.",
    "runtime monitoring: shadow-model oracle + invariant hook over generated op histories; Miri UB interpreter", "DESIGN.md §4 C17")

chk("C05", "exploration",
    "Subprocess workers push generated hostile inputs (random bytes, UTF-8 and token soups, truncations, token/range mutations of every tests/*.sam and std/*.sam, multi-module sets with broken cross imports, nesting ladders) through parse, the token-yield oracle, formatting at two widths, type checking, text/IDE/terminal diagnostic rendering and whole-program compilation, every stage under catch_unwind; the driver owns watchdog, crash attribution and delta-debugging. Held = no panic/abort/stack overflow on in-bounds input, no confirmed hang, and no module without syntax error whose tree fails to account for every identifier/literal token.",
    "Inputs are sampled; 'reasonably sized' for stack overflow is fixed as <= 8 KiB and nesting <= 256; the independent tokenizer is trusted on inputs without syntax errors (calibrated on the corpus); hangs are decided by a 100x re-run budget.",
    "runtime monitoring: crash/hang monitor over generated inputs in subprocess workers + token-yield oracle", "DESIGN.md §4 C05")

chk("C08", "exploration",
    "Every (outer construct, operand position, inner construct, with/without parentheses) triple, random nestings, generated declaration modules, every corpus file, valid corpus mutants and the LSP format route are formatted at widths {1,20,40,80,100,200}; the output must parse and its canonical syntax tree (locations and comments stripped, imports as a sorted set) must equal the input's. A failing case is localised to the deepest expression whose own print->reparse round trip fails and to the responsible operand.",
    "Trusts the canonical dump (astwalk::canon) and the repository's parser as the reader of both texts; inputs with syntax errors are outside the property; 5 deliberate regroupings of same-operator chains are pinned by a golden test and listed as known findings.",
    "runtime monitoring: round-trip oracle (format -> reparse -> canonical tree equality) over generated and corpus inputs", "DESIGN.md §4 C08")
chk("C10", "exploration",
    "Generated histories of update/create/rename_module/remove over 2-6 interdependent modules (valid, ill-typed and unparsable contents, cycles, missing imports, interface/implementer pairs) are applied to one incremental ServerState; after every step the rendered diagnostics of every module are compared with those of a freshly constructed ServerState on the same file contents. First differing step = violation, minimised by dropping earlier operations.",
    "The fresh server is the reference model; per-module diagnostics are compared as sorted lists and bullet lists inside a message as sets (their order follows hashing, which is C12's subject); histories are sampled.",
    "runtime monitoring: differential oracle against an executable reference model after every step of generated histories", "DESIGN.md §4 C10")

chk("C11", "exploration",
    "Generated edit histories (identifiers longer than 15 bytes in every identifier position, so that names live in the GC-managed heap) interleaved with every request kind (diagnostics rendering, hover, completion, signature help, definition, references, rename, code actions, format, folding ranges) at token boundaries and out-of-range positions of touched, untouched, just-removed and just-renamed modules, each request under catch_unwind in subprocess workers; the heap invariant hook runs after every operation; bulk histories with > 10 000 heap strings make the incremental sweeper run in slices. Held = no panic, abort, hang or heap-invariant failure on the histories executed.",
    "Histories and positions are sampled; the real CLI's JSON-RPC layer is not driven (requests go to the services API the CLI forwards to).",
    "runtime monitoring: panic/abort monitor over generated request histories in subprocess workers + heap invariant hook", "DESIGN.md §4 C11")

chk("C01", "translation_validation",
    "tests.AllTests, seeded well-typed-by-construction multi-module programs (enum layouts, generics, closures, patterns, loops, Vec/Str builtins, std) and run-time operator tables are executed by the reference interpreter over the checked AST and, after the real compile_sources, by the validating WasmGC interpreter on the emitted bytes; printed lines and ending must agree. Disagreements are delta-debugged and signed by symptom + structural cause tags.",
    "Trusts the reference interpreter (written from the spec, calibrated on tests/snapshot.txt) and the purpose-built WasmGC interpreter (no stock engine in the sandbox can run the module; host imports mirror loader.js); runs with implementation-defined behaviour are excluded; programs are sampled from the generator's grammar.",
    "runtime monitoring: differential oracle (reference interpreter vs emitted wasm) over generated programs", "DESIGN.md §4 C01")
chk("C03", "exploration",
    "Every checker-accepted program (generated programs incl. nasty strings, accepted token/range mutants of the sample programs run through their run() entry, tests.AllTests, operator tables) must compile without panic, produce wasm that validates (wasmparser, all features) and TypeScript that tokenises and parses (node), and must not end in an engine-level fault (CastFailure, NullReference, IndirectCallTypeMismatch, out-of-bounds, unreachable outside the Vec helpers), a no-arm-matched fallback, or a JS TypeError/ReferenceError/SyntaxError.",
    "Outcome classification trusts wasmparser's validator, the WasmGC interpreter's trap taxonomy and node; TS runs after type erasure (eraser refusals are inconclusive); programs are sampled.",
    "runtime monitoring: outcome classifier over compile / validate / instantiate / run of accepted programs", "DESIGN.md §4 C03")
chk("C04", "translation_validation",
    "The emitted TypeScript (type-erased, run by the real node in batched vm contexts) and the emitted wasm (WasmGC interpreter) of generated programs, run-time operator tables over hostile operand pools (all sign combinations of / and %, comparisons, Vec<int>/Vec<Str> round trips, string equality, toInt/fromInt) and tests.AllTests must print the same lines and end the same way. Two golden-test-pinned differences are attributed by intervention (patching the emitted JS) and listed as known findings.",
    "Trusts the eraser (strict: refuses unknown shapes), node 20 and the WasmGC interpreter; runs the reference interpreter flags as implementation-defined are excluded; engine faults on one side are C03's subject.",
    "runtime monitoring: differential oracle (emitted TS under node vs emitted wasm) with cause attribution by intervention", "DESIGN.md §4 C04")
chk("C07", "exploration",
    "Generated type declarations (nullary / mixed / recursive / mutually nested / generic enums, struct classes, tuples) with generated pattern matrices for match, if-let and destructuring let are checked by the real front end; its verdict, counterexample (parsed back) and irrefutability flag are compared with a brute-force oracle that enumerates all values up to pattern depth + 1 and matches them with an independent matcher; accepted matches are executed on all values by the reference interpreter (and a sample through compiled wasm).",
    "Trusts the value enumerator (cut at depth + 1 with shallowest inhabitants) and the 30-line matcher; bounded to <= 5 variants, <= 3 payloads, nesting <= 3, <= 2000 values per scrutinee.",
    "runtime monitoring: brute-force value-enumeration oracle over generated (type, pattern matrix) pairs", "DESIGN.md §4 C07")
chk("C14", "exploration",
    "Every location of the parsed tree of corpus files, generated declaration modules and generator programs under a layout randomiser (tabs, CRLF, blank lines, very long lines, multi-line and multi-byte comments before names, multi-byte strings) is checked against the text: inside the document, start <= end, enclosed by the parent, siblings disjoint, names slice exactly their spelling; the same for diagnostics, definition, references and folding ranges.",
    "Columns are byte offsets; the tree shape is astwalk's; `this` references are exempt from the spelling rule (the server answers with the class).",
    "runtime monitoring: structural location invariants checked on generated layouts", "DESIGN.md §4 C14")
chk("C16", "exploration",
    "For generated documents (0-4 existing imports in any order, with/without `;`, duplicates, comments, CRLF; unresolved class used in expression and/or annotation position; 1-3 exporting modules; cold start or after an edit history) every auto-import quick fix and every completion item's additional edits are applied by an independent text-edit applier; the result must keep ranges inside the document and disjoint, parse without new syntax errors, add exactly the named import, no longer report the class as unresolved and leave all declarations unchanged.",
    "Trusts the applier and the canonical tree; layouts are sampled.",
    "runtime monitoring: apply-and-recheck oracle over generated import layouts", "DESIGN.md §4 C16")
chk("C18", "exploration",
    "Generated driver programs perform random operation sequences (every public member of std Map, Set and List; small and wide key ranges) and print canonical renderings plus an in-language AVL shape check after every step; a Rust BTreeMap/BTreeSet/Vec model predicts every line. Executed by the reference interpreter and, for a sample, by compiled wasm and TypeScript.",
    "Trusts the Rust model and the driver's rendering; keys stay within |k| < 2^30 where Int.compare cannot overflow; sequences are sampled.",
    "runtime monitoring: reference-model oracle over generated operation histories", "DESIGN.md §4 C18")

chk("C02", "translation_validation",
    "tests.AllTests and loop-centred generator programs are lowered to MIR by the real compiler; the MIR interpreter (wasm integer semantics) runs the unoptimized MIR and the MIR after each of the 32 configurations of optimize_sources, after each per-function pass alone and after inlining alone (hook); printed lines, ending and a step bound (200x + 2e6) are compared. A failing loop configuration is attributed to a loop sub-pass by disabling it (hook).",
    "Trusts the MIR interpreter (calibrated on tests/snapshot.txt before and after optimization); `x + 0` on a non-int is treated as the IR's move idiom; programs are sampled.",
    "runtime monitoring: differential oracle (MIR interpreter before vs after each optimization configuration and pass)", "DESIGN.md §4 C02")
chk("C06", "fault_enumeration",
    "Fault operators that make a program statically incorrect by the language definition alone (string operand of arithmetic/comparison, int operand of && || ! ::, non-bool if condition, one argument too many/few, unresolved variable/class/member/module/import member, int literal outside 32 bits, deleted match arm, deleted or mistyped interface member, and cross-module templates for private access, violated bounds, wrong type-argument counts) are spliced at parser-reported locations into accepted generator programs and the repository's samples; every mutant must get >= 1 diagnostic located in the edited module and compile_sources must return no code.",
    "Soundness of each operator rests on the language definition; splice locations come from the repository's parser (judged by C14); sites are sampled (3 / 6 per operator and base program).",
    "runtime monitoring: single-fault injection with a 'rejected and not compiled' oracle", "DESIGN.md §4 C06")
chk("C09", "exploration",
    "A seed-independent catalogue (one line / block / doc comment in every gap between two tokens of corpus files, generated declaration modules and expression triples; quick runs one residue class of seven) plus random multi-comment insertions are formatted at the product's width 100: the second formatting must equal the first, and the word sequence of all comments (independent tokenizer, lexer-style normalisation; multiset inside the import section) must be preserved. A lost or reordered comment is attributed to its slot (innermost syntax node : previous token class | next token class).",
    "Width 100 only (the width of `format` and the language server). The 223 slot signatures in which the pinned parser/printer pair loses, reorders or destabilises a comment were harvested from thorough runs and are listed as known findings; a loss in any other slot is a violation.",
    "runtime monitoring: idempotence and comment-conservation oracles over systematic comment insertion", "DESIGN.md §4 C09")

chk("C12", "exploration",
    "The same sources (tests.AllTests, 5-module generator programs, rejected variants with many diagnostics) are compiled by the real compile_sources in many fresh processes (fresh hash seeds), with RAYON_NUM_THREADS in {1,2,3,8,16}, a different insertion order of the source map and different amounts of unrelated string interning; verdict, rendered diagnostics and the traces of the emitted wasm (WasmGC interpreter) and TypeScript (node) must be identical across processes. The number of distinct emitted texts per program is measured to show that order dependence was exercised.",
    "Hash-map orders and schedules are sampled, not enumerated; behaviour is compared through the harness's executors.",
    "runtime monitoring: N-version comparison of fresh processes over hash seeds, thread counts and enumeration orders", "DESIGN.md §4 C12")

chk("C13", "exploration",
    "Metamorphic rewrites (alpha-renaming with sites from an independent scope resolver, permutation of declarations and members, wrapping an expression in ( ) or { }, inserting the inferred type as let / lambda-parameter annotation, inserting inferred type arguments) are applied to accepted generator programs, rejected variants and the repository's samples; the checker's verdict must not flip and, for accepted programs, the reference interpreter's trace must not change.",
    "Each rewrite is meaning preserving by the language definition; inferred types are only spliced when all named classes are visible; sites are sampled.",
    "runtime monitoring: metamorphic relation oracle over generated rewrites", "DESIGN.md §4 C13")
chk("C15", "exploration",
    "For random local bindings of generator programs and sample programs an independent scope resolver gives the defining occurrence(s) and all uses; go-to-definition and find-references are queried at every occurrence (two positions each) and must return exactly those; rename through a random occurrence to a fresh name must parse, keep the diagnostics, keep the occurrence count and the reference-interpreter trace, and renaming back must restore the formatted original.",
    "Trusts the independent resolver (written from the spec's scoping rules); bindings are sampled.",
    "runtime monitoring: ground-truth oracle (independent scope resolver) + metamorphic rename round trip", "DESIGN.md §4 C15")

# what was added to each check after the first registration (see DESIGN.md §4 and §8)
ADDED = {
 "C01": " Also run: the reproducers under findings/ as a fixed regression workload, a counted-loop family aimed at the loop optimizer, operator tables with literal operands, and string-literal tables enumerating every sequence of up to three 'atoms' (escapes, quote, backslash, backtick, $, {, letters that follow a backslash, non-ASCII). When a node >= 22 is installed (this image has one under ~/.nvm) every emitted module is additionally run by V8 with the emitted loader; the property is judged with both engines and a disagreement between them is reported as inconclusive.",
 "C02": " One third of the programs come from a counted-loop family (every guard operator in both operand orders, strides of both signs up to 10^9, bounds and start values near the 32-bit limits, derived induction variables unused / let-bound / passed directly); a failing loop configuration is attributed by interventions through hooks (one loop sub-pass off; guard operator of the eliminated induction variable corrected) and by whether the delta-debugged program wraps around 32 bits.",
 "C03": " The emitted module is also run by V8 when a node >= 22 is installed; every fourth generated program is in addition compiled with a second entry point whose code calls the first entry's main (no panic, valid module, no engine fault in either entry).",
 "C04": " The emitted TypeScript is also run unmodified with --experimental-strip-types and the wasm by V8 when a node >= 22 is installed; a fault or untokenisable output on one back end only counts as a disagreement; string-literal atom tables and literal operator tables are part of the workload.",
 "C05": " Also: width ladders around the parser's size limits (tuples, arguments, parameters, fields, variants, type arguments, patterns of 0..300 elements) and modules full of binding constructs with ill-formed patterns (arity, duplicate / unknown fields). A drive is stopped after 6 (quick) / 24 stalled inputs; the first three are re-run alone.",
 "C06": " Further fault operators: or-pattern alternatives that bind an extra in-scope name or a different name; complete pattern matrices (tuple / struct in any field order / variant payload over 2-3 small enums) with each single arm removed and as refutable let; one ill-formed pattern (extra / missing sub-pattern, duplicate or unknown field, tuple arity) in a module of binding constructs; a local used outside its scope (kept only when an independent scope resolver finds no binding); a type argument violating the bound of any type parameter of a generic zoo; a match arm / if branch replaced by a value of a brand-new class (skipped when the sibling only panics).",
 "C08": " Also: all depth-3 nestings (outer, middle, inner, both parenthesisation flags: about 800 000), random fully parenthesised operator trees of depth 2-5, and every string literal of up to three atoms. The signature of a same-operator regrouping names the other operators on the operand's left spine, so that the pinned value-preserving case cannot mask a value-changing one.",
 "C10": " Document shapes include a construct zoo (every syntactic construct once).",
 "C11": " Documents include a construct zoo in which every syntactic construct occurs once with identifiers longer than 15 bytes that often have a single occurrence (unused binders, names only in patterns).",
 "C12": " Rejected programs include a diagnostic zoo (messages assembled from sets / maps: several equally good counterexamples, binder sets of or-patterns, missing members, cyclic definitions); some carry a module that does not parse next to modules with checker errors; accepted programs include an order zoo (closures capturing this plus 1-5 variables, members through an interface) and programs with two entry points, one reachable from the other; a compiler crash in some processes only is a violation.",
 "C13": " A ninth rewrite moves a class into a new module (imports adjusted in every importer); a fifth of the bases are binder-zoo modules whose every binding is renamed in turn, a tenth are generic-zoo modules (bounds in every shape, branches typed from earlier branches, lambda arguments of inferred calls) with generator-known equivalent spellings; every expression of a zoo module is wrapped in parentheses and in a block.",
 "C14": " A share of the texts are binder-zoo modules (every binder form in every binding construct, partially annotated lambdas).",
 "C15": " A quarter of the modules are binder-zoo modules (shorthand / renamed fields inside or-pattern alternatives, names reused in disjoint scopes, partially annotated lambdas).",
 "C16": " Layouts include the next item on the import's line, a multi-line comment starting there, no final newline, CRLF, imports over several lines and the exporting module already imported for another class; a completion item for the unresolved class is checked even when it carries no edit.",
 "C17": " With the hook compiled in the model also follows the statement literally: a slot marked since the sweeper last passed over it (slot id and cursor read through the hook) must survive the pass, and the cursor after each call is checked.",
}
for pid, extra in ADDED.items():
    CHECKS[pid]["level_claimed"]["text"] += extra

NA_REASON = "check under construction in this round (machinery not yet registered)"
m = {
 "version": 1,
 "setup_cmd": "cd /verif/harness && RUSTFLAGS='--cfg samlang_verif' cargo build --release --offline",
 "hooks": {
   "guard": "--cfg samlang_verif",
   "enable": "RUSTFLAGS='--cfg samlang_verif' cargo build --release --offline (the harness path-depends on /repo/crates/*, so /repo's working tree is rebuilt with hooks on)",
   "baseline_off_cmd": "cd /repo && cargo test --workspace --no-fail-fast --offline",
   "source_commits": ["ef9c61d", "74255b3", "c496234", "45682cc"],
   "add_only": True,
 },
 "engines": [
   {"name": "vcore", "path": "/verif/harness", "serves_properties": sorted(CHECKS), "kind_free_text": "Rust harness: generators, reference/MIR/WasmGC interpreters, TS eraser + node, shadow models, subprocess worker pool, evidence writer"},
 ],
 "checks": [CHECKS[k] for k in sorted(CHECKS)],
 "not_applicable": [{"property_id": p["id"], "reason": NA_REASON} for p in props if p["id"] not in CHECKS],
 "notes": "Exit codes: 0 held / only known findings, 1 VIOLATION, 3 harness problem (no verdict). Known findings: /verif/known_findings.json.",
}
json.dump(m, open('/verif/MANIFEST.json', 'w'), indent=1)
print("checks:", sorted(CHECKS))
