#!/usr/bin/env bash
# usage: tools_try_seeded.sh <patch.diff> <tier> <check id>...   (applies the patch to /repo, runs the checks, reverts)
set -u
PATCH="$1"; TIER="$2"; shift; shift
cd /repo || exit 3
if [ -n "$(git status --porcelain)" ]; then echo "/repo is not clean"; exit 3; fi
git apply "$PATCH" || { echo "patch does not apply"; exit 3; }
trap 'git -C /repo checkout -- . ; git -C /repo clean -fdq' EXIT
for id in "$@"; do
  start=$(date +%s)
  out=$(cd /verif && VERIF_SEED="${VERIF_SEED:-1}" ./check "$id" "$TIER" 2>&1); code=$?
  end=$(date +%s)
  echo "== $id $TIER exit=$code ($((end-start))s)"
  echo "$out" | grep -E '^VIOLATION|^  signature|^\[C|HARNESS' | head -12 | cut -c1-260
done
