#!/bin/bash
# tools_verify_seed.sh <name>: confirm a seeded change delivered in /tmp/seed_<name>/out in its own
# scratch worktree (/tmp/seed_<name>/repo): (1) the patch is what is applied there, (2) the
# repository's test suite still passes with it, (3) the demonstration fails with it and passes
# without it. Prints one line per step; exit 0 only if all three hold.
set -u
n="$1"; d=/tmp/seed_$n; w=$d/repo; out=$d/out
demo=$out/demo
[ -d "$d/demo" ] && demo=$d/demo
cd "$w" || exit 2
git checkout -q -- . 2>/dev/null
git apply "$out/patch.diff" || { echo "patch does not apply in the worktree"; exit 1; }
t=$(CARGO_NET_OFFLINE=true cargo test --workspace --no-fail-fast --offline 2>&1 | grep -E "^test result" | awk '{p+=$4; f+=$6} END {print p" "f}')
echo "tests with change: passed/failed = $t"
cmd=$(python3 -c "import json,sys; print(json.load(open('$out/meta.json')).get('demo_command',''))" 2>/dev/null | sed 's/ *(.*$//')
run_demo() {
  if [ -n "$cmd" ] && echo "$cmd" | grep -q "cargo\|\.sh\|node"; then (CARGO_NET_OFFLINE=true timeout 1500 bash -c "$cmd" >/tmp/seed_demo_$n.log 2>&1; echo $?)
  elif [ -f "$demo/Cargo.toml" ]; then (cd "$demo" && CARGO_NET_OFFLINE=true timeout 1200 cargo run --offline >/tmp/seed_demo_$n.log 2>&1; echo $?)
  elif [ -x "$demo/run.sh" ]; then (cd "$demo" && timeout 1200 ./run.sh >/tmp/seed_demo_$n.log 2>&1; echo $?)
  else echo "no demo"; fi
}
a=$(run_demo); echo "demo with change: exit $a; last line: $(tail -1 /tmp/seed_demo_$n.log)"
git apply -R "$out/patch.diff"
b=$(run_demo); echo "demo without change: exit $b; last line: $(tail -1 /tmp/seed_demo_$n.log)"
git apply "$out/patch.diff"
rm -f /tmp/seed_demo_$n.log
[ "$t" = "367 0" ] && [ "$a" != "0" ] && [ "$b" = "0" ] && { echo "CONFIRMED $n"; exit 0; }
echo "NOT CONFIRMED $n"; exit 1
