#!/usr/bin/env bash
# tools_multiseed.sh <tier> <seed>...: runs every registered check at the given seeds on the
# current tree and prints one line per (check, seed); a non-zero exit or a VIOLATION line on the
# unchanged tree is what this is looking for. Not a registered check.
set -u
cd /verif
tier="$1"; shift
for seed in "$@"; do
  for id in C01 C02 C03 C04 C05 C06 C07 C08 C09 C10 C11 C12 C13 C14 C15 C16 C17 C18; do
    s=$(date +%s)
    out=$(VERIF_SEED=$seed ./check $id $tier 2>&1); code=$?
    e=$(( $(date +%s) - s ))
    nv=$(echo "$out" | grep -c '^VIOLATION')
    sig=$(echo "$out" | grep -m3 '^  signature:' | sed 's/^  signature: //' | cut -c1-120 | paste -sd'|')
    inc=$(echo "$out" | grep -o 'inconclusive=[0-9]*' | tail -1)
    printf '%s\tseed=%s\texit=%s\t%ss\tviolations=%s\t%s\t%s\n' "$id" "$seed" "$code" "$e" "$nv" "$inc" "$sig"
  done
done
