//! TypeScript type-eraser + batched execution of the erased JavaScript under the real `node`.
//!
//! The sandbox's node (v20) cannot strip types and there is no `tsc`, so the harness erases the
//! types itself.  The emitted TypeScript (`samlang_ast::lir::Sources::pretty_print`) has a very
//! rigid shape; the eraser understands exactly that shape (plus a few unambiguous neighbours) and
//! refuses everything else with `Err`, which callers treat as *inconclusive*.
//!
//! Erased tokens are replaced by spaces, so line and column numbers of the JavaScript are those of
//! the TypeScript.
//!
//! Execution: one `node js/runner.js` process per batch; inside it a `worker_threads` Worker with a
//! generous stack runs each program in a fresh `vm` context (see runner.js for the protocol).

use crate::trace::{Ending, Limits, Trace, UbFlags};
use std::io::{BufRead, BufReader, Write};
use std::path::PathBuf;
use std::process::{Child, Command, Stdio};
use std::sync::atomic::{AtomicU64, Ordering};
use std::sync::mpsc;
use std::time::{Duration, Instant};

// ---------------------------------------------------------------------------------------------
// lexer
// ---------------------------------------------------------------------------------------------

#[derive(Clone, Copy, PartialEq, Eq, Debug)]
enum K {
  Trivia,
  Ident,
  Num,
  Str,
  Tpl,
  Punct,
}

#[derive(Clone, Copy, Debug)]
struct Tok {
  k: K,
  s: usize,
  e: usize,
  line: u32,
}

const PUNCTS: &[&str] = &[
  ">>>=", "...", "===", "!==", "**=", "<<=", ">>=", ">>>", "&&=", "||=", "??=", "=>", "==", "!=",
  "<=", ">=", "&&", "||", "??", "?.", "++", "--", "+=", "-=", "*=", "/=", "%=", "&=", "|=", "^=",
  "<<", ">>", "**", "{", "}", "(", ")", "[", "]", ";", ",", "<", ">", "+", "-", "*", "/", "%", "&",
  "|", "^", "!", "~", "?", ":", "=", ".",
];

fn is_id_start(b: u8) -> bool {
  b.is_ascii_alphabetic() || b == b'_' || b == b'$'
}
fn is_id_part(b: u8) -> bool {
  b.is_ascii_alphanumeric() || b == b'_' || b == b'$'
}

fn line_of(src: &[u8], pos: usize) -> usize {
  1 + src[..pos.min(src.len())].iter().filter(|&&b| b == b'\n').count()
}

/// `i` is at the opening quote; returns the index just after the closing quote
fn skip_string(b: &[u8], i: usize) -> Result<usize, String> {
  let q = b[i];
  let mut j = i + 1;
  while j < b.len() {
    match b[j] {
      b'\\' => j += 2,
      b'\n' => break,
      c if c == q => return Ok(j + 1),
      _ => j += 1,
    }
  }
  Err(format!("lex: unterminated string literal starting at line {}", line_of(b, i)))
}

/// `i` is at the opening backtick; returns the index just after the closing backtick.
/// `${ ... }` substitutions are skipped with proper nesting (strings, templates, comments, braces).
fn skip_template(b: &[u8], i: usize) -> Result<usize, String> {
  let mut j = i + 1;
  while j < b.len() {
    match b[j] {
      b'\\' => j += 2,
      b'`' => return Ok(j + 1),
      b'$' if j + 1 < b.len() && b[j + 1] == b'{' => j = skip_substitution(b, j + 2)?,
      _ => j += 1,
    }
  }
  Err(format!("lex: unterminated template literal starting at line {}", line_of(b, i)))
}

/// `i` is just after `${`; returns the index just after the matching `}`
fn skip_substitution(b: &[u8], i: usize) -> Result<usize, String> {
  let mut depth = 1usize;
  let mut j = i;
  while j < b.len() {
    match b[j] {
      b'\'' | b'"' => j = skip_string(b, j)?,
      b'`' => j = skip_template(b, j)?,
      b'/' if j + 1 < b.len() && b[j + 1] == b'/' => {
        while j < b.len() && b[j] != b'\n' {
          j += 1;
        }
      }
      b'/' if j + 1 < b.len() && b[j + 1] == b'*' => j = skip_block_comment(b, j)?,
      b'{' => {
        depth += 1;
        j += 1;
      }
      b'}' => {
        depth -= 1;
        j += 1;
        if depth == 0 {
          return Ok(j);
        }
      }
      _ => j += 1,
    }
  }
  Err(format!("lex: unterminated ${{ substitution starting at line {}", line_of(b, i)))
}

fn skip_block_comment(b: &[u8], i: usize) -> Result<usize, String> {
  let mut j = i + 2;
  while j + 1 < b.len() {
    if b[j] == b'*' && b[j + 1] == b'/' {
      return Ok(j + 2);
    }
    j += 1;
  }
  Err(format!("lex: unterminated block comment starting at line {}", line_of(b, i)))
}

fn lex(src: &str) -> Result<Vec<Tok>, String> {
  let b = src.as_bytes();
  let mut out = Vec::with_capacity(b.len() / 3);
  let mut i = 0usize;
  let mut line = 1u32;
  while i < b.len() {
    let c = b[i];
    let s = i;
    let k;
    if c == b' ' || c == b'\t' || c == b'\n' || c == b'\r' {
      while i < b.len() && matches!(b[i], b' ' | b'\t' | b'\n' | b'\r') {
        i += 1;
      }
      k = K::Trivia;
    } else if c == b'/' && i + 1 < b.len() && b[i + 1] == b'/' {
      while i < b.len() && b[i] != b'\n' {
        i += 1;
      }
      k = K::Trivia;
    } else if c == b'/' && i + 1 < b.len() && b[i + 1] == b'*' {
      i = skip_block_comment(b, i)?;
      k = K::Trivia;
    } else if is_id_start(c) {
      while i < b.len() && is_id_part(b[i]) {
        i += 1;
      }
      k = K::Ident;
    } else if c.is_ascii_digit() || (c == b'.' && i + 1 < b.len() && b[i + 1].is_ascii_digit()) {
      i += 1;
      while i < b.len() {
        let d = b[i];
        if d.is_ascii_alphanumeric() || d == b'_' || d == b'.' {
          i += 1;
        } else if (d == b'+' || d == b'-')
          && matches!(b[i - 1], b'e' | b'E')
          && !(b[s] == b'0' && s + 1 < b.len() && matches!(b[s + 1], b'x' | b'X'))
        {
          i += 1;
        } else {
          break;
        }
      }
      k = K::Num;
    } else if c == b'\'' || c == b'"' {
      i = skip_string(b, i)?;
      k = K::Str;
    } else if c == b'`' {
      i = skip_template(b, i)?;
      k = K::Tpl;
    } else if c >= 0x80 {
      return Err(format!("lex: non-ASCII character outside a literal at line {line}"));
    } else {
      let rest = &src[i..];
      match PUNCTS.iter().find(|p| rest.starts_with(**p)) {
        Some(p) => i += p.len(),
        None => {
          return Err(format!("lex: unexpected character {:?} at line {line}", c as char));
        }
      }
      k = K::Punct;
    }
    out.push(Tok { k, s, e: i, line });
    line += b[s..i].iter().filter(|&&x| x == b'\n').count() as u32;
  }
  Ok(out)
}

// ---------------------------------------------------------------------------------------------
// eraser
// ---------------------------------------------------------------------------------------------

/// identifiers that are always refused (TS-only constructs, or JS constructs whose bodies the
/// eraser does not model)
const REFUSED: &[&str] = &[
  "enum",
  "interface",
  "namespace",
  "declare",
  "abstract",
  "class",
  "implements",
  "satisfies",
  "import",
  "export",
];

/// keyword-like identifiers after which an expression (or a binding name) may start; they do not
/// end an expression, and an identifier may legally follow them in JavaScript
const PREFIX_KEYWORDS: &[&str] = &[
  "return", "typeof", "throw", "new", "delete", "void", "in", "of", "instanceof", "case", "do",
  "else", "yield", "await", "let", "const", "var", "function", "async",
];

/// identifiers a type may not start with (type operators / things that need more grammar)
const TYPE_OPERATORS: &[&str] = &[
  "keyof", "typeof", "infer", "readonly", "unique", "asserts", "new", "abstract", "const", "let",
  "var", "function", "class", "enum", "interface", "as", "is", "in", "of", "extends",
];

struct Eraser<'a> {
  src: &'a str,
  /// significant (non-trivia) tokens
  t: Vec<Tok>,
  /// matching bracket of each significant token (for ( ) [ ] { })
  mate: Vec<usize>,
  erased: Vec<bool>,
  prev_kept: Option<usize>,
}

const NONE: usize = usize::MAX;

impl<'a> Eraser<'a> {
  fn text(&self, p: usize) -> &'a str {
    match self.t.get(p) {
      Some(t) => &self.src[t.s..t.e],
      None => "",
    }
  }
  fn kind(&self, p: usize) -> Option<K> {
    self.t.get(p).map(|t| t.k)
  }
  fn is(&self, p: usize, s: &str) -> bool {
    // string / template tokens never compare equal to punctuation or keywords
    matches!(self.kind(p), Some(K::Punct | K::Ident)) && self.text(p) == s
  }
  fn line(&self, p: usize) -> u32 {
    self.t.get(p).map(|t| t.line).unwrap_or_else(|| self.t.last().map(|t| t.line).unwrap_or(1))
  }
  fn err<T>(&self, p: usize, what: &str) -> Result<T, String> {
    let near = if p < self.t.len() { self.text(p) } else { "<end of file>" };
    let near: String = near.chars().take(30).collect();
    Err(format!("erase: {what} at line {} near `{near}`", self.line(p)))
  }
  fn keep(&mut self, p: usize) {
    self.prev_kept = Some(p);
  }
  fn erase_range(&mut self, from: usize, to_excl: usize) {
    for q in from..to_excl {
      self.erased[q] = true;
    }
  }
  fn is_plain_ident(&self, p: usize) -> bool {
    self.kind(p) == Some(K::Ident) && !PREFIX_KEYWORDS.contains(&self.text(p))
  }
  /// does the last kept token end an expression?
  fn prev_ends_expr(&self) -> bool {
    match self.prev_kept {
      None => false,
      Some(p) => match self.t[p].k {
        K::Num | K::Str | K::Tpl => true,
        K::Ident => !PREFIX_KEYWORDS.contains(&self.text(p)),
        K::Punct => matches!(self.text(p), ")" | "]"),
        K::Trivia => false,
      },
    }
  }
  fn prev_is(&self, s: &str) -> bool {
    self.prev_kept.is_some_and(|p| self.is(p, s))
  }
  fn at_stmt_start(&self) -> bool {
    match self.prev_kept {
      None => true,
      Some(p) => self.t[p].k == K::Punct && matches!(self.text(p), ";" | "{" | "}"),
    }
  }

  // ---- types (nothing here keeps or erases; callers erase the returned range) ----

  /// parse a type starting at `q`; returns the position just after it
  fn ty(&self, q: usize) -> Result<usize, String> {
    let mut q = self.ty_primary(q)?;
    while self.is(q, "[") {
      if self.is(q + 1, "]") {
        q += 2;
      } else {
        return self.err(q, "indexed-access type / ambiguous '[' after a type");
      }
    }
    Ok(q)
  }

  fn ty_primary(&self, q: usize) -> Result<usize, String> {
    match self.kind(q) {
      Some(K::Ident) => {
        if TYPE_OPERATORS.contains(&self.text(q)) {
          return self.err(q, "unsupported type operator");
        }
        let mut r = q + 1;
        if self.is(r, ".") {
          return self.err(r, "qualified type name");
        }
        if self.is(r, "<") {
          r += 1;
          loop {
            r = self.ty(r)?;
            if self.is(r, ",") {
              r += 1;
            } else if self.is(r, ">") {
              r += 1;
              break;
            } else {
              return self.err(r, "unsupported type-argument list");
            }
          }
        }
        Ok(r)
      }
      Some(K::Punct) if self.is(q, "[") => {
        // tuple type
        let close = self.mate[q];
        let mut r = q + 1;
        if r == close {
          return Ok(r + 1);
        }
        loop {
          r = self.ty(r)?;
          if r == close {
            return Ok(r + 1);
          }
          if self.is(r, ",") {
            r += 1;
          } else {
            return self.err(r, "unsupported tuple type element");
          }
        }
      }
      Some(K::Punct) if self.is(q, "(") => {
        // function type: (t0: A, t1: B) => R
        let close = self.mate[q];
        let mut r = q + 1;
        while r != close {
          if !self.is_plain_ident(r) || !self.is(r + 1, ":") {
            return self.err(r, "unsupported function-type parameter (or parenthesised type)");
          }
          r = self.ty(r + 2)?;
          if self.is(r, ",") && r + 1 != close {
            r += 1;
          } else if r != close {
            return self.err(r, "unsupported function-type parameter list");
          }
        }
        if !self.is(close + 1, "=>") {
          return self.err(close + 1, "parenthesised type (expected '=>')");
        }
        self.ty(close + 2)
      }
      _ => self.err(q, "expected a type"),
    }
  }

  // ---- parameter lists ----

  /// `open` is `(`; keeps the patterns, erases the annotations; returns position after `)`
  fn params(&mut self, open: usize) -> Result<usize, String> {
    let close = self.mate[open];
    self.keep(open);
    let mut q = open + 1;
    while q != close {
      // binding pattern
      if self.kind(q) == Some(K::Ident) {
        let name = self.text(q);
        if PREFIX_KEYWORDS.contains(&name) || REFUSED.contains(&name) || name == "this" {
          return self.err(q, "unsupported parameter name");
        }
        self.keep(q);
        q += 1;
      } else if self.is(q, "[") {
        let pc = self.mate[q];
        for r in q + 1..pc {
          if !(self.is_plain_ident(r) || self.is(r, ",")) {
            return self.err(r, "unsupported array binding pattern");
          }
        }
        q = pc + 1;
        self.keep(pc);
      } else {
        return self.err(q, "unsupported parameter pattern");
      }
      // annotation
      if self.is(q, ":") {
        let r = self.ty(q + 1)?;
        self.erase_range(q, r);
        q = r;
      }
      if self.is(q, ",") && q + 1 != close {
        self.keep(q);
        q += 1;
      } else if q != close {
        return self.err(q, "unsupported parameter (optional / default / modifier?)");
      }
    }
    self.keep(close);
    Ok(close + 1)
  }

  /// is the `(` at `open` the start of an arrow function's parameter list?
  /// Returns the position of the `=>`.
  fn arrow_after(&self, open: usize) -> Option<usize> {
    let close = self.mate[open];
    if self.is(close + 1, "=>") {
      return Some(close + 1);
    }
    if self.is(close + 1, ":") {
      if let Ok(r) = self.ty(close + 2) {
        if self.is(r, "=>") {
          return Some(r);
        }
      }
    }
    None
  }

  // ---- main pass ----

  fn run(&mut self) -> Result<(), String> {
    let n = self.t.len();
    let mut p = 0usize;
    while p < n {
      let txt = self.text(p);
      match self.t[p].k {
        K::Trivia => unreachable!(),
        K::Num | K::Str | K::Tpl => {
          self.keep(p);
          p += 1;
        }
        K::Ident => {
          if self.prev_is(".") {
            self.keep(p);
            p += 1;
            continue;
          }
          if REFUSED.contains(&txt) {
            return self.err(p, "unsupported construct");
          }
          match txt {
            "type"
              if self.at_stmt_start() && self.is_plain_ident(p + 1) && self.is(p + 2, "=") =>
            {
              let q = self.ty(p + 3)?;
              if !self.is(q, ";") {
                return self.err(q, "unsupported type alias (expected ';' after the type)");
              }
              self.erase_range(p, q + 1);
              p = q + 1;
            }
            "type"
              if self.at_stmt_start() && self.is_plain_ident(p + 1) && self.is(p + 2, "<") =>
            {
              return self.err(p, "generic type alias");
            }
            "let" | "const" | "var" => {
              self.keep(p);
              p += 1;
              if self.is_plain_ident(p) && self.is(p + 1, ":") {
                let q = self.ty(p + 2)?;
                if !(self.is(q, "=") || self.is(q, ";")) {
                  return self.err(q, "unsupported declaration (expected '=' or ';' after type)");
                }
                self.keep(p);
                self.erase_range(p + 1, q);
                p = q;
              }
            }
            "function" => {
              self.keep(p);
              p += 1;
              if self.is(p, "*") {
                return self.err(p, "generator function");
              }
              if self.is_plain_ident(p) {
                self.keep(p);
                p += 1;
              }
              if self.is(p, "<") {
                // type parameters: plain names only
                let mut q = p + 1;
                loop {
                  if !self.is_plain_ident(q) {
                    return self.err(q, "unsupported type-parameter list");
                  }
                  q += 1;
                  if self.is(q, ",") {
                    q += 1;
                  } else if self.is(q, ">") {
                    q += 1;
                    break;
                  } else {
                    return self.err(q, "unsupported type-parameter list");
                  }
                }
                self.erase_range(p, q);
                p = q;
              }
              if !self.is(p, "(") {
                return self.err(p, "expected '(' after function name");
              }
              p = self.params(p)?;
              if self.is(p, ":") {
                let q = self.ty(p + 1)?;
                self.erase_range(p, q);
                p = q;
              }
              if !self.is(p, "{") {
                return self.err(p, "function signature without body / unsupported return type");
              }
            }
            "as" => {
              let same_line = self.prev_kept.is_some_and(|q| self.t[q].line == self.t[p].line);
              if self.prev_ends_expr() && same_line {
                let q = self.ty(p + 1)?;
                if !(self.is(q, ";")
                  || self.is(q, ")")
                  || self.is(q, "]")
                  || self.is(q, ",")
                  || self.is(q, "as"))
                {
                  return self.err(q, "unsupported token after a cast type");
                }
                self.erase_range(p, q);
                p = q;
              } else if self.prev_is("}") || self.prev_is("++") || self.prev_is("--") {
                return self.err(p, "ambiguous 'as'");
              } else {
                self.keep(p);
                p += 1;
              }
            }
            _ => {
              self.keep(p);
              p += 1;
            }
          }
        }
        K::Punct => match txt {
          ":" => return self.err(p, "':' outside a known annotation position"),
          "?" | "?." | "??" | "??=" => {
            return self.err(p, "'?' (optional / conditional / nullish) is not modelled");
          }
          "(" => {
            if let Some(arrow) = self.arrow_after(p) {
              let after = self.params(p)?;
              if after != arrow {
                self.erase_range(after, arrow);
              }
              p = arrow;
            } else {
              self.keep(p);
              p += 1;
            }
          }
          "!" => {
            let same_line = self.prev_kept.is_some_and(|q| self.t[q].line == self.t[p].line);
            if self.prev_ends_expr() && same_line {
              return self.err(p, "postfix '!' (non-null assertion) or ambiguous '!'");
            }
            self.keep(p);
            p += 1;
          }
          "<" => {
            if !self.prev_ends_expr() {
              return self.err(p, "'<' in prefix position (type assertion / generic arrow)");
            }
            // f<T>(x): a type-argument list followed by '(' is refused
            let mut q = p + 1;
            let mut generic_call = false;
            while let Ok(r) = self.ty(q) {
              if self.is(r, ",") {
                q = r + 1;
              } else {
                generic_call = self.is(r, ">") && self.is(r + 1, "(");
                break;
              }
            }
            if generic_call {
              return self.err(p, "explicit type arguments on a call");
            }
            self.keep(p);
            p += 1;
          }
          "/" | "/=" => {
            if !self.prev_ends_expr() && !self.prev_is("}") {
              return self.err(p, "regular-expression literal");
            }
            self.keep(p);
            p += 1;
          }
          _ => {
            self.keep(p);
            p += 1;
          }
        },
      }
    }
    // residue check: two adjacent identifiers are JavaScript only after a prefix keyword or
    // around a keyword operator; everything else is left-over TypeScript
    let mut last: Option<usize> = None;
    for q in 0..n {
      if self.erased[q] {
        continue;
      }
      if let Some(l) = last {
        if self.t[l].k == K::Ident && self.t[q].k == K::Ident {
          let a = self.text(l);
          let b = self.text(q);
          let ok = PREFIX_KEYWORDS.contains(&a)
            || matches!(b, "in" | "of" | "instanceof")
            || matches!(a, "break" | "continue") && self.t[l].line != self.t[q].line;
          if !ok {
            return self.err(q, "two adjacent identifiers (left-over TypeScript?)");
          }
        }
      }
      last = Some(q);
    }
    Ok(())
  }
}

/// Type-erase the emitted TypeScript into JavaScript. Never rewrites inside string literals,
/// template literals or comments. `Err(reason)` for every shape it does not know (callers treat
/// that as "inconclusive", never as a compiler bug). Reasons starting with `lex:` mean the text
/// could not even be tokenised (unterminated literal, stray character).
///
/// Handled: `type X = T;` statements (removed); `let|const|var x: T` (followed by `=` or `;`);
/// `function f<A, B>(p: T, [, q]: T): T {`; arrow functions `(p: T, [, q]: T): T =>`;
/// `e as T` chains followed by `;` `)` `]` `,`.  Types: names, `Name<T, ..>`, tuples `[T, ..]`,
/// arrays `T[]`, function types `(t0: T, ..) => T`.
pub fn erase(ts: &str) -> Result<String, String> {
  let all = lex(ts)?;
  let sig: Vec<Tok> = all.iter().copied().filter(|t| t.k != K::Trivia).collect();
  // bracket matching
  let mut mate = vec![NONE; sig.len()];
  let mut stack: Vec<usize> = Vec::new();
  for (i, t) in sig.iter().enumerate() {
    if t.k != K::Punct {
      continue;
    }
    let s = &ts[t.s..t.e];
    match s {
      "(" | "[" | "{" => stack.push(i),
      ")" | "]" | "}" => {
        let want = match s {
          ")" => "(",
          "]" => "[",
          _ => "{",
        };
        match stack.pop() {
          Some(o) if &ts[sig[o].s..sig[o].e] == want => {
            mate[o] = i;
            mate[i] = o;
          }
          _ => return Err(format!("lex: unbalanced `{s}` at line {}", t.line)),
        }
      }
      _ => {}
    }
  }
  if let Some(o) = stack.pop() {
    return Err(format!("lex: unclosed `{}` at line {}", &ts[sig[o].s..sig[o].e], sig[o].line));
  }
  let n = sig.len();
  let mut er = Eraser { src: ts, t: sig, mate, erased: vec![false; n], prev_kept: None };
  er.run()?;
  // output: verbatim, erased tokens blanked (newlines kept)
  let mut out = String::with_capacity(ts.len());
  let mut si = 0usize;
  for t in &all {
    let text = &ts[t.s..t.e];
    if t.k == K::Trivia {
      out.push_str(text);
      continue;
    }
    if er.erased[si] {
      for ch in text.chars() {
        out.push(if ch == '\n' { '\n' } else { ' ' });
      }
    } else {
      out.push_str(text);
    }
    si += 1;
  }
  Ok(out)
}

// ---------------------------------------------------------------------------------------------
// node
// ---------------------------------------------------------------------------------------------

pub const RUNNER_JS: &str = concat!(env!("CARGO_MANIFEST_DIR"), "/../js/runner.js");

/// old-generation heap cap of the worker (MB); exceeding it kills only the worker
pub const HEAP_MB: u64 = 512;

/// Stack (MB) of the worker thread that runs the programs, derived from `limits.max_depth` at a
/// budget of 4 KB per frame, clamped to 16..=512 MB (16 MB holds roughly 190 000 small optimised
/// frames and tens of thousands of interpreter frames; `tests.AllTests` needs less than 1 MB).
/// A bigger stack is not free: exhausting it takes about 3 ms per MB (256 MB: 0.7 - 4 s), which
/// competes with the per-program timeout. `VERIF_TS_STACK_MB` overrides.
pub fn stack_mb(limits: &Limits) -> u64 {
  if let Some(v) = std::env::var("VERIF_TS_STACK_MB").ok().and_then(|v| v.parse::<u64>().ok()) {
    return v.clamp(1, 900);
  }
  ((limits.max_depth as u64).saturating_mul(4096) / (1 << 20)).clamp(16, 512)
}

fn node_bin() -> String {
  std::env::var("VERIF_NODE").unwrap_or_else(|_| "node".to_string())
}

static TMP_SEQ: AtomicU64 = AtomicU64::new(0);

/// unique per-process scratch directory, removed on drop
struct Scratch(PathBuf);

impl Scratch {
  fn new() -> Result<Scratch, String> {
    let n = TMP_SEQ.fetch_add(1, Ordering::SeqCst);
    let nanos = std::time::SystemTime::now()
      .duration_since(std::time::UNIX_EPOCH)
      .map(|d| d.subsec_nanos())
      .unwrap_or(0);
    let p = std::env::temp_dir().join(format!("verif_tsrun_{}_{}_{}", std::process::id(), n, nanos));
    std::fs::create_dir_all(&p).map_err(|e| format!("cannot create {}: {e}", p.display()))?;
    Ok(Scratch(p))
  }
}

impl Drop for Scratch {
  fn drop(&mut self) {
    let _ = std::fs::remove_dir_all(&self.0);
  }
}

/// `node --check` on a JS text: Ok(()) or Err(first syntax error message with line/col)
pub fn syntax_check(js: &str) -> Result<(), String> {
  let dir = Scratch::new()?;
  let file = dir.0.join("check.js");
  std::fs::write(&file, js).map_err(|e| format!("cannot write {}: {e}", file.display()))?;
  let out = Command::new(node_bin())
    .arg("--check")
    .arg(&file)
    .stdin(Stdio::null())
    .output()
    .map_err(|e| format!("cannot start node: {e}"))?;
  if out.status.success() {
    return Ok(());
  }
  // stderr looks like:
  //   /tmp/.../check.js:12
  //   <source line>
  //       ^^^
  //   <blank>
  //   SyntaxError: Unexpected token ':'
  let err = String::from_utf8_lossy(&out.stderr);
  let mut line_no = String::new();
  let mut col = None;
  let mut msg = String::new();
  let fname = file.to_string_lossy().to_string();
  for l in err.lines() {
    if let Some(rest) = l.strip_prefix(&fname) {
      line_no = rest.trim_start_matches(':').to_string();
    } else if col.is_none() && !l.is_empty() && l.trim_start().starts_with('^') {
      col = Some(l.len() - l.trim_start().len() + 1);
    } else if l.starts_with("SyntaxError") && msg.is_empty() {
      msg = l.to_string();
    }
  }
  if msg.is_empty() {
    msg = err.lines().find(|l| !l.trim().is_empty()).unwrap_or("node --check failed").to_string();
  }
  Err(format!("{msg} (line {line_no}, col {})", col.map(|c| c.to_string()).unwrap_or_default()))
}

/// one JSON line of runner.js -> Trace
fn trace_of_json(v: &serde_json::Value) -> Trace {
  let lines: Vec<String> = v
    .get("lines")
    .and_then(|l| l.as_array())
    .map(|a| a.iter().map(|s| s.as_str().unwrap_or("").to_string()).collect())
    .unwrap_or_default();
  let s = |k: &str| v.get(k).and_then(|x| x.as_str()).unwrap_or("").to_string();
  let ending = match v.get("end").and_then(|e| e.as_str()).unwrap_or("") {
    "return" => Ending::Return,
    "panic" => Ending::Panic(s("msg")),
    "vecbounds" => Ending::VecBounds,
    "stack" => Ending::StackExhausted,
    "timeout" | "lines" => Ending::StepLimit,
    "syntax" => Ending::Fault { kind: "SyntaxError".to_string(), at: s("msg") },
    "fault" => Ending::Fault { kind: s("kind"), at: s("at") },
    "harness" => Ending::Harness(s("msg")),
    other => Ending::Harness(format!("runner.js protocol: unknown end {other:?}")),
  };
  let steps = v.get("ms").and_then(|m| m.as_u64()).unwrap_or(0);
  Trace { lines, ending, ub: UbFlags::default(), steps }
}

enum BatchStop {
  /// every program answered
  Done,
  /// node exited / closed its pipe before answering the next program
  Died(String),
  /// no answer within the deadline; the process was killed
  Hung,
  /// could not even start
  NoStart(String),
  /// a line that is not the expected JSON
  Protocol(String),
}

fn kill(child: &mut Child) {
  let _ = child.kill();
  let _ = child.wait();
}

/// run `progs` in one node process; returns the traces of the programs that answered (a prefix)
/// and why it stopped
fn run_process(progs: &[String], limits: &Limits, timeout_ms: u64) -> (Vec<Trace>, BatchStop) {
  let mut got: Vec<Trace> = Vec::with_capacity(progs.len());
  let dir = match Scratch::new() {
    Ok(d) => d,
    Err(e) => return (got, BatchStop::NoStart(e)),
  };
  let req = serde_json::json!({
    "programs": progs,
    "timeoutMs": timeout_ms.max(1),
    "maxLines": limits.max_lines,
    "stackMb": stack_mb(limits),
    "heapMb": HEAP_MB,
  });
  let req_path = dir.0.join("request.json");
  {
    let mut f = match std::fs::File::create(&req_path) {
      Ok(f) => f,
      Err(e) => return (got, BatchStop::NoStart(format!("cannot write request: {e}"))),
    };
    if let Err(e) = f.write_all(req.to_string().as_bytes()) {
      return (got, BatchStop::NoStart(format!("cannot write request: {e}")));
    }
  }
  let mut child = match Command::new(node_bin())
    .arg(RUNNER_JS)
    .arg(&req_path)
    .stdin(Stdio::null())
    .stdout(Stdio::piped())
    .stderr(Stdio::piped())
    .spawn()
  {
    Ok(c) => c,
    Err(e) => return (got, BatchStop::NoStart(format!("cannot start node: {e}"))),
  };
  let stdout = child.stdout.take().unwrap();
  let stderr = child.stderr.take().unwrap();
  let (tx, rx) = mpsc::channel::<Option<String>>();
  let reader = std::thread::spawn(move || {
    let mut r = BufReader::new(stdout);
    loop {
      let mut line = String::new();
      match r.read_line(&mut line) {
        Ok(0) | Err(_) => {
          let _ = tx.send(None);
          break;
        }
        Ok(_) => {
          if tx.send(Some(line)).is_err() {
            break;
          }
        }
      }
    }
  });
  let err_reader = std::thread::spawn(move || {
    let mut s = String::new();
    let _ = std::io::Read::read_to_string(&mut BufReader::new(stderr), &mut s);
    s
  });
  // generous per-answer deadline: the vm timeout should fire long before; this is the backstop
  // for node start-up, worker restarts and uninterruptible builtins
  let slack = Duration::from_millis(timeout_ms.saturating_mul(3) + 15_000);
  let mut stop = BatchStop::Done;
  while got.len() < progs.len() {
    match rx.recv_timeout(slack) {
      Ok(Some(line)) => {
        let line = line.trim();
        if line.is_empty() {
          continue;
        }
        match serde_json::from_str::<serde_json::Value>(line) {
          Ok(v) if v.get("end").is_some() => got.push(trace_of_json(&v)),
          Ok(v) if v.get("fatal").is_some() => {
            stop = BatchStop::Protocol(format!(
              "runner.js: {}",
              v.get("fatal").and_then(|f| f.as_str()).unwrap_or("?")
            ));
            break;
          }
          _ => {
            let head: String = line.chars().take(200).collect();
            stop = BatchStop::Protocol(format!("runner.js protocol: unexpected line {head:?}"));
            break;
          }
        }
      }
      Ok(None) | Err(mpsc::RecvTimeoutError::Disconnected) => {
        stop = BatchStop::Died(String::new());
        break;
      }
      Err(mpsc::RecvTimeoutError::Timeout) => {
        stop = BatchStop::Hung;
        break;
      }
    }
  }
  match stop {
    BatchStop::Done => {
      let _ = child.wait();
    }
    BatchStop::Died(_) => {
      let status = child.wait().map(|s| s.to_string()).unwrap_or_default();
      let _ = reader.join();
      let e = err_reader.join().unwrap_or_default();
      let first = e.lines().find(|l| !l.trim().is_empty()).unwrap_or("").to_string();
      return (got, BatchStop::Died(format!("{status}; {first}")));
    }
    _ => kill(&mut child),
  }
  let _ = reader.join();
  let _ = err_reader.join();
  (got, stop)
}

/// Run many erased programs in ONE node process (amortise start-up), each in a fresh `vm` context
/// with its own captured console.log, with a per-program timeout (ms) and the given line limit
/// (`limits.max_lines`); `max_depth` only sizes the worker's stack (see [`stack_mb`]) and
/// `max_steps` has no node equivalent (the step budget is the timeout). Returns one Trace per program, in order.
///
/// If the node process dies or hangs, the program it was running gets re-run alone (to tell a
/// culprit from a victim) and the rest of the batch continues in a new process.
pub fn run_batch(js_programs: &[String], limits: &Limits, per_program_timeout_ms: u64) -> Vec<Trace> {
  let mut out: Vec<Trace> = Vec::with_capacity(js_programs.len());
  let mut alone_next = false;
  // consecutive programs blamed without any program answering in between
  let mut blamed_in_a_row = 0usize;
  while out.len() < js_programs.len() {
    let start = out.len();
    let slice = if alone_next { &js_programs[start..start + 1] } else { &js_programs[start..] };
    let was_alone = slice.len() == 1;
    alone_next = false;
    let (got, stop) = run_process(slice, limits, per_program_timeout_ms);
    if !got.is_empty() {
      blamed_in_a_row = 0;
    }
    out.extend(got);
    let verdict = match stop {
      BatchStop::Done => continue,
      BatchStop::NoStart(e) | BatchStop::Protocol(e) => {
        // not attributable to a program: everything left is inconclusive
        while out.len() < js_programs.len() {
          out.push(Trace::harness(e.clone()));
        }
        break;
      }
      BatchStop::Died(why) => format!("node died ({why})"),
      BatchStop::Hung => "node hung (killed)".to_string(),
    };
    // the first unanswered program is the suspect
    if was_alone {
      out.push(Trace::harness(verdict.clone()));
      blamed_in_a_row += 1;
      if blamed_in_a_row >= 3 {
        // node itself is broken; do not spawn two processes per remaining program
        while out.len() < js_programs.len() {
          out.push(Trace::harness(format!("{verdict} (node keeps failing; not attributed)")));
        }
      }
    } else {
      // re-run it alone to tell a culprit from a victim, then carry on with the rest
      alone_next = true;
    }
  }
  out.truncate(js_programs.len());
  out
}

pub fn run_one(js: &str, limits: &Limits, timeout_ms: u64) -> Trace {
  run_batch(std::slice::from_ref(&js.to_string()), limits, timeout_ms)
    .pop()
    .unwrap_or_else(|| Trace::harness("run_batch returned nothing"))
}

/// wall-clock cost of starting node + runner.js + worker with an empty batch of one trivial program
pub fn measure_startup() -> Duration {
  let t = Instant::now();
  let _ = run_one("", &Limits::default(), 1000);
  t.elapsed()
}
