//! Oracles for the formatter properties C08 (program preserved) and C09 (idempotent, keeps comments).
use crate::astwalk::{self, Node, Walker};
use crate::pool::catch;
use crate::toks::{self, Tok, TokKind};
use samlang_ast::source::Module;
use samlang_errors::ErrorSet;
use samlang_heap::{Heap, ModuleReference};
use std::panic::AssertUnwindSafe;

pub struct Parsed {
  pub heap: Heap,
  pub module: Module<()>,
  pub syntax_errors: Vec<String>,
}

pub fn parse(text: &str) -> Result<Parsed, String> {
  let mut heap = Heap::new();
  let mut es = ErrorSet::new();
  let m = catch(AssertUnwindSafe(|| samlang_parser::parse_source_module_from_text(text, ModuleReference::DUMMY, &mut heap, &mut es)))?;
  let syntax_errors = es
    .errors()
    .iter()
    .filter(|e| e.is_syntax_error())
    .map(|e| match &e.detail {
      samlang_errors::ErrorDetail::InvalidSyntax(s) => format!("{}: {}", e.location.pretty_print_without_file(), s),
      _ => String::new(),
    })
    .collect();
  Ok(Parsed { heap, module: m, syntax_errors })
}

pub fn format(p: &Parsed, width: usize) -> Result<String, String> {
  catch(AssertUnwindSafe(|| samlang_printer::pretty_print_source_module(&p.heap, width, &p.module)))
}

#[derive(Debug, Clone)]
pub struct Failure {
  pub signature: String,
  pub what: String,
}

fn norm_msg(m: &str) -> String {
  // drop the location prefix and concrete identifiers/numbers
  let m = m.split(": ").skip(1).collect::<Vec<_>>().join(": ");
  m.chars().map(|c| if c.is_ascii_digit() { '#' } else { c }).take(70).collect()
}

/// C08 for one text at one width. Ok(None) = input has syntax errors (out of the property's domain).
pub fn check_preserved(text: &str, width: usize) -> Result<Option<String>, Failure> {
  let p = match parse(text) {
    Ok(p) => p,
    Err(e) => return Err(Failure { signature: format!("parser-panic:{}", e.rsplit(" @ ").next().unwrap_or("")), what: format!("parser panicked: {e}") }),
  };
  if !p.syntax_errors.is_empty() {
    return Ok(None);
  }
  let out = match format(&p, width) {
    Ok(o) => o,
    Err(e) => return Err(Failure { signature: format!("printer-panic:{}", e.rsplit(" @ ").next().unwrap_or("")), what: format!("printer panicked at width {width}: {e}") }),
  };
  let q = match parse(&out) {
    Ok(q) => q,
    Err(e) => return Err(Failure { signature: "parser-panic-on-output".into(), what: format!("parser panicked on formatter output: {e}") }),
  };
  let tree_in = Walker::new(&p.heap).module(&p.module);
  if !q.syntax_errors.is_empty() {
    let culprit = culprit_expression(&p, width).unwrap_or_else(|| "declaration-level".into());
    return Err(Failure {
      signature: format!("output-syntax-error:{culprit}"),
      what: format!("formatter output (width {width}) does not parse: {} [{}]", q.syntax_errors[0], norm_msg(&q.syntax_errors[0])),
    });
  }
  let tree_out = Walker::new(&q.heap).module(&q.module);
  let (a, b) = (astwalk::canon(&tree_in), astwalk::canon(&tree_out));
  if a != b {
    let culprit = culprit_expression(&p, width).unwrap_or_else(|| canon_diff_path(&a, &b));
    let (la, lb) = first_diff(&a, &b);
    return Err(Failure { signature: format!("tree-changed:{culprit}"), what: format!("formatting (width {width}) changed the syntax tree: `{}` became `{}`", la.trim(), lb.trim()) });
  }
  Ok(Some(out))
}

fn first_diff(a: &str, b: &str) -> (String, String) {
  for (x, y) in a.lines().zip(b.lines()) {
    if x != y {
      return (x.to_string(), y.to_string());
    }
  }
  (format!("<{} lines>", a.lines().count()), format!("<{} lines>", b.lines().count()))
}

fn kind_of(line: &str) -> String {
  line.trim_start().trim_start_matches('(').split([' ', ')']).next().unwrap_or("").to_string()
}

/// parent kind > kind of the first differing canon line (fallback signature for non-expression failures)
fn canon_diff_path(a: &str, b: &str) -> String {
  let al: Vec<&str> = a.lines().collect();
  let bl: Vec<&str> = b.lines().collect();
  for i in 0..al.len().min(bl.len()) {
    if al[i] != bl[i] {
      let indent = al[i].len() - al[i].trim_start().len();
      let parent = al[..i].iter().rev().find(|l| l.len() - l.trim_start().len() < indent && l.trim_start().starts_with('(')).map(|l| kind_of(l)).unwrap_or_default();
      return format!("decl:{}>{}->{}", parent, kind_of(al[i]), kind_of(bl[i]));
    }
  }
  "decl:length".into()
}

/// The deepest expression whose own print → reparse round trip fails while all its
/// sub-expressions round-trip: returns `shape[child shapes]`.
pub fn culprit_expression(p: &Parsed, width: usize) -> Option<String> {
  let mut found: Option<String> = None;
  let store = &p.module.comment_store;
  astwalk::for_each_expr(&p.module, &mut |e| {
    if found.is_some() {
      return;
    }
    let printed = match catch(AssertUnwindSafe(|| samlang_printer::pretty_print_expression(&p.heap, width, store, e))) {
      Ok(s) => s,
      Err(_) => {
        found = Some(format!("{}[{}]:printer-panic", astwalk::expr_shape(e), astwalk::child_shapes(e).join(",")));
        return;
      }
    };
    let mut heap2 = Heap::new();
    let mut es = ErrorSet::new();
    let re = catch(AssertUnwindSafe(|| samlang_parser::parse_source_expression_from_text(&printed, ModuleReference::DUMMY, &mut heap2, &mut es)));
    let bad = match re {
      Err(_) => true,
      Ok((_, e2)) => {
        es.has_errors() || {
          let a = astwalk::canon_subtree(&Walker::new_unresolved(&p.heap).expr(e));
          let b = astwalk::canon_subtree(&Walker::new_unresolved(&heap2).expr(&e2));
          a != b
        }
      }
    };
    if bad {
      let mut shape = astwalk::expr_shape(e);
      if shape == "string" {
        if let samlang_ast::source::expr::E::Literal(_, samlang_ast::source::Literal::String(s)) = e {
          let t = s.as_str(&p.heap);
          shape = format!("string:{}", if t.contains('"') { "contains-quote" } else if t.contains('\\') { "contains-backslash" } else { "other" });
        }
      }
      found = Some(match narrowed_position(p, width, e) {
        Some(n) => n,
        None => format!("{}[{}]", shape, astwalk::child_shapes(e).join(",")),
      });
    }
  });
  found
}

fn round_trips(heap: &Heap, width: usize, store: &samlang_ast::source::CommentStore, e: &samlang_ast::source::expr::E<()>) -> bool {
  let Ok(printed) = catch(AssertUnwindSafe(|| samlang_printer::pretty_print_expression(heap, width, store, e))) else {
    return false;
  };
  let mut heap2 = Heap::new();
  let mut es = ErrorSet::new();
  match catch(AssertUnwindSafe(|| samlang_parser::parse_source_expression_from_text(&printed, ModuleReference::DUMMY, &mut heap2, &mut es))) {
    Err(_) => false,
    Ok((_, e2)) => !es.has_errors() && astwalk::canon_subtree(&Walker::new_unresolved(heap).expr(e)) == astwalk::canon_subtree(&Walker::new_unresolved(&heap2).expr(&e2)),
  }
}

/// For unary / binary culprits: which operand is responsible? Replace the other operand by a
/// plain variable and test again. Gives `binary(op).right<shape` style signatures.
fn narrowed_position(p: &Parsed, width: usize, e: &samlang_ast::source::expr::E<()>) -> Option<String> {
  use samlang_ast::source::expr::{E, ExpressionCommon};
  let atom = || E::LocalId(ExpressionCommon::dummy(()), samlang_ast::source::Id::from(samlang_heap::PStr::LOWER_X));
  let store = &p.module.comment_store;
  match e {
    E::Unary(u) => Some(format!("unary({}).arg<{}", u.operator.kind_str(), astwalk::expr_shape(&u.argument))),
    E::Binary(b) => {
      let mut only_right = b.clone();
      only_right.e1 = Box::new(atom());
      let mut only_left = b.clone();
      only_left.e2 = Box::new(atom());
      let right_fails = !round_trips(&p.heap, width, store, &E::Binary(only_right));
      let left_fails = !round_trips(&p.heap, width, store, &E::Binary(only_left));
      let op = b.operator.kind_str();
      match (left_fails, right_fails) {
        (false, true) => {
          // a right operand with the same operator: is it a pure chain of that operator, or does
          // another operator of the same precedence level sit on its left spine (which may change
          // the value when the parentheses go: `a * ((b % c) * d)`)?
          let mut spine: Vec<&'static str> = Vec::new();
          if let E::Binary(r) = b.e2.as_ref() {
            if r.operator == b.operator {
              let level = |o: &samlang_ast::source::expr::BinaryOperator| match o.kind_str() {
                "*" | "/" | "%" => 1,
                "+" | "-" => 2,
                "::" => 3,
                "&&" => 5,
                "||" => 6,
                _ => 4,
              };
              let mut cur: &E<()> = r.e1.as_ref();
              while let E::Binary(x) = cur {
                if level(&x.operator) != level(&b.operator) {
                  break;
                }
                if x.operator != b.operator && !spine.contains(&x.operator.kind_str()) {
                  spine.push(x.operator.kind_str());
                }
                cur = x.e1.as_ref();
              }
            }
          }
          let tail = if spine.is_empty() { String::new() } else { format!("[left-spine-has:{}]", spine.join("")) };
          Some(format!("binary({op}).right<{}{tail}", astwalk::expr_shape(&b.e2)))
        }
        (true, false) => Some(format!("binary({op}).left<{}", astwalk::expr_shape(&b.e1))),
        _ => None,
      }
    }
    _ => None,
  }
}

// ---------------------------------------------------------------------------------------------
// C09: comments

#[derive(Clone, Debug)]
pub struct Inserted {
  pub id: String,
  pub kind: TokKind,
  pub gap: usize,
  pub slot: String,
}

fn tok_class(t: &Tok) -> String {
  match t.kind {
    TokKind::Keyword => match t.text.as_str() {
      // value / type keywords behave like ordinary operand tokens
      "this" | "true" | "false" | "unit" | "int" | "bool" | "string" => "t".into(),
      k => k.to_string(),
    },
    TokKind::Op => match t.text.as_str() {
      "(" | ")" | "{" | "}" | "," | ";" | ":" | "." | "=" | "<" | ">" | "|" | "->" | "_" => t.text.clone(),
      _ => "op".into(),
    },
    _ => "t".into(),
  }
}

fn contains(n: &Node, line: u32, col: u32) -> bool {
  match n.loc {
    Some(l) => (l.start.0, l.start.1) <= (line, col) && (line, col) <= (l.end.0, l.end.1),
    None => true,
  }
}

fn innermost<'a>(n: &'a Node, s: (u32, u32), e: (u32, u32), best: &mut &'a Node) {
  if n.loc.is_some() && !(contains(n, s.0, s.1) && contains(n, e.0, e.1)) {
    return;
  }
  if n.loc.is_some() {
    *best = n;
  }
  for c in &n.children {
    innermost(c, s, e, best);
  }
}

/// label of the gap before token index `g` (0 = before the first token, len = after the last)
pub fn slot_label(tokens: &[Tok], g: usize, tree: &Node) -> String {
  let prev = if g == 0 { "BOF".to_string() } else { tok_class(&tokens[g - 1]) };
  let next = if g >= tokens.len() { "EOF".to_string() } else { tok_class(&tokens[g]) };
  let s = if g == 0 { (0, 0) } else { (tokens[g - 1].line, tokens[g - 1].col + (tokens[g - 1].end - tokens[g - 1].start) as u32) };
  let e = if g >= tokens.len() { s } else { (tokens[g].line, tokens[g].col) };
  let mut best = tree;
  innermost(tree, s, e, &mut best);
  format!("{}:{}|{}", best.kind, prev, next)
}

pub fn comment_text(kind: TokKind, id: &str) -> String {
  match kind {
    TokKind::LineComment => format!("// {id}\n"),
    TokKind::BlockComment => format!("/* {id} */"),
    _ => format!("/** {id} */"),
  }
}

/// insert comments at the given gaps (gap = index of the token the comment precedes) of a
/// comment-free token stream; returns the new text
pub fn insert_comments(text: &str, tokens: &[Tok], ins: &[Inserted]) -> String {
  let mut out = String::new();
  let mut last = 0usize;
  let mut by_gap: Vec<&Inserted> = ins.iter().collect();
  by_gap.sort_by_key(|i| i.gap);
  let mut k = 0;
  for (g, t) in tokens.iter().enumerate() {
    out.push_str(&text[last..t.start]);
    while k < by_gap.len() && by_gap[k].gap == g {
      out.push(' ');
      out.push_str(&comment_text(by_gap[k].kind, &by_gap[k].id));
      out.push(' ');
      k += 1;
    }
    out.push_str(&text[t.start..t.end]);
    last = t.end;
  }
  out.push_str(&text[last..]);
  while k < by_gap.len() {
    out.push(' ');
    out.push_str(&comment_text(by_gap[k].kind, &by_gap[k].id));
    k += 1;
  }
  out
}

/// comments of a text as (kind, normalised text)
pub fn comments_of(text: &str) -> Vec<(TokKind, String)> {
  toks::lex(text).iter().filter(|t| t.is_comment()).map(|t| (t.kind, toks::normalised_comment_text(t))).collect()
}
