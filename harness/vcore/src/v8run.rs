//! Real-engine leg: runs the emitted WebAssembly module with the emitted loader, and the emitted
//! TypeScript with type stripping, under a node >= 22 when one is installed (the repository's own
//! `cargo e2e` does exactly this). The sandbox's default node is v20, which can do neither; a newer
//! one is looked up under ~/.nvm. When none is found the leg reports `None` and the checks fall
//! back to the interpreters alone (counted in the evidence).
use crate::trace::{Ending, Limits, Trace, UbFlags};
use std::path::PathBuf;
use std::process::{Command, Stdio};
use std::sync::OnceLock;
use std::time::{Duration, Instant};

static NODE: OnceLock<Option<PathBuf>> = OnceLock::new();

fn version_ok(p: &PathBuf) -> bool {
  Command::new(p)
    .arg("--version")
    .output()
    .ok()
    .and_then(|o| String::from_utf8(o.stdout).ok())
    .and_then(|v| v.trim().trim_start_matches('v').split('.').next().and_then(|m| m.parse::<u32>().ok()))
    .map(|m| m >= 22)
    .unwrap_or(false)
}

/// a node binary that runs WasmGC and `--experimental-strip-types`
pub fn node() -> Option<PathBuf> {
  NODE
    .get_or_init(|| {
      if std::env::var("VERIF_NO_V8").is_ok() {
        return None;
      }
      if let Ok(p) = std::env::var("VERIF_NODE22") {
        let p = PathBuf::from(p);
        if version_ok(&p) {
          return Some(p);
        }
      }
      let mut cands: Vec<PathBuf> = Vec::new();
      let home = std::env::var("HOME").unwrap_or_else(|_| "/root".into());
      for root in [format!("{home}/.nvm/versions/node"), "/root/.nvm/versions/node".to_string()] {
        if let Ok(rd) = std::fs::read_dir(&root) {
          let mut vs: Vec<PathBuf> = rd.filter_map(|e| e.ok()).map(|e| e.path().join("bin/node")).filter(|p| p.exists()).collect();
          vs.sort();
          vs.reverse();
          cands.extend(vs);
        }
      }
      cands.push(PathBuf::from("node"));
      cands.into_iter().find(version_ok)
    })
    .clone()
}

const DRIVER: &str = r#"
const fs=require('fs'),path=require('path');
const dir=process.argv[2], main=process.argv[3], maxLines=+process.argv[4];
const lines=[]; console.log=(...a)=>{ if(lines.length<maxLines) lines.push(a.join(' ')); };
let ending={kind:'Return'};
try { const binary=fs.readFileSync(path.join(dir,'__all__.wasm')); require(path.join(dir,'__samlang_loader__.js'))(binary)[main](); }
catch(e){ ending={kind:'Throw', name:(e&&e.constructor&&e.constructor.name)||'', message:String(e&&e.message), stack:String(e&&e.stack).split('\n').slice(0,6)}; }
fs.writeFileSync(path.join(dir,'result.json'), JSON.stringify({lines,ending}));
"#;

fn scratch_dir(tag: &str) -> PathBuf {
  static N: std::sync::atomic::AtomicU64 = std::sync::atomic::AtomicU64::new(0);
  let n = N.fetch_add(1, std::sync::atomic::Ordering::SeqCst);
  let d = std::env::temp_dir().join(format!("verif_v8_{}_{}_{tag}", std::process::id(), n));
  let _ = std::fs::create_dir_all(&d);
  d
}

fn wait(mut child: std::process::Child, timeout: Duration) -> Option<std::process::ExitStatus> {
  let start = Instant::now();
  loop {
    match child.try_wait() {
      Ok(Some(s)) => return Some(s),
      Ok(None) => {
        if start.elapsed() > timeout {
          let _ = child.kill();
          let _ = child.wait();
          return None;
        }
        std::thread::sleep(Duration::from_millis(5));
      }
      Err(_) => return None,
    }
  }
}

fn ending_of(v: &serde_json::Value) -> Ending {
  let e = &v["ending"];
  if e["kind"].as_str() == Some("Return") {
    return Ending::Return;
  }
  let name = e["name"].as_str().unwrap_or("");
  let msg = e["message"].as_str().unwrap_or("").to_string();
  let frame1 = e["stack"].as_array().and_then(|s| s.iter().filter_map(|l| l.as_str()).find(|l| l.trim_start().starts_with("at "))).unwrap_or("").trim().to_string();
  match name {
    "Error" => Ending::Panic(msg),
    "RangeError" if msg.contains("call stack") => Ending::StackExhausted,
    "RuntimeError" => {
      if msg.contains("divide by zero") || msg.contains("remainder by zero") {
        Ending::ArithTrap("IntegerDivideByZero".into())
      } else if msg.contains("unrepresentable") || msg.contains("integer overflow") {
        Ending::ArithTrap("IntegerOverflow".into())
      } else if msg == "unreachable" {
        if frame1.starts_with("at __Vec$") { Ending::VecBounds } else { Ending::Fault { kind: "Unreachable".into(), at: frame1 } }
      } else {
        Ending::Fault { kind: msg, at: frame1 }
      }
    }
    "CompileError" | "LinkError" => Ending::Fault { kind: format!("InvalidModule: {msg}"), at: String::new() },
    _ => Ending::Fault { kind: format!("{name}: {msg}"), at: frame1 },
  }
}

/// the emitted module under the real engine with the emitted loader. None = no suitable node;
/// Some(trace with Ending::StepLimit) = did not finish within the time limit (inconclusive).
pub fn run_wasm(wasm: &[u8], loader_js: &str, main_fn: &str, lim: &Limits, timeout: Duration) -> Option<Trace> {
  let node = node()?;
  let dir = scratch_dir("w");
  let ok = std::fs::write(dir.join("__all__.wasm"), wasm).is_ok() && std::fs::write(dir.join("__samlang_loader__.js"), loader_js).is_ok() && std::fs::write(dir.join("driver.js"), DRIVER).is_ok();
  if !ok {
    let _ = std::fs::remove_dir_all(&dir);
    return Some(Trace { lines: vec![], ending: Ending::Harness("cannot write scratch files".into()), ub: UbFlags::default(), steps: 0 });
  }
  let child = Command::new(&node)
    .arg("--stack-size=900")
    .arg(dir.join("driver.js"))
    .arg(&dir)
    .arg(main_fn)
    .arg(lim.max_lines.to_string())
    .stdin(Stdio::null())
    .stdout(Stdio::null())
    .stderr(Stdio::null())
    .spawn();
  let t = match child {
    Err(e) => Trace { lines: vec![], ending: Ending::Harness(format!("cannot start node: {e}")), ub: UbFlags::default(), steps: 0 },
    Ok(ch) => match wait(ch, timeout) {
      None => Trace { lines: vec![], ending: Ending::StepLimit, ub: UbFlags::default(), steps: 0 },
      Some(_) => match std::fs::read_to_string(dir.join("result.json")).ok().and_then(|s| serde_json::from_str::<serde_json::Value>(&s).ok()) {
        None => Trace { lines: vec![], ending: Ending::Harness("node wrote no result (crashed?)".into()), ub: UbFlags::default(), steps: 0 },
        Some(v) => Trace {
          lines: v["lines"].as_array().map(|a| a.iter().map(|x| x.as_str().unwrap_or("").to_string()).collect()).unwrap_or_default(),
          ending: ending_of(&v),
          ub: UbFlags::default(),
          steps: 0,
        },
      },
    },
  };
  let _ = std::fs::remove_dir_all(&dir);
  Some(t)
}

/// the emitted TypeScript as it is, under `node --experimental-strip-types`
pub fn run_ts(ts: &str, lim: &Limits, timeout: Duration) -> Option<Trace> {
  let node = node()?;
  let dir = scratch_dir("t");
  // the program prints with console.log and panics by throwing: capture both through a prologue
  // that leaves the emitted text itself untouched
  let prologue = format!(
    "const __lines: string[] = []; const __max = {}; console.log = (...a: unknown[]) => {{ if (__lines.length < __max) __lines.push(a.join(' ')); }};\nprocess.on('exit', () => {{ require('fs').writeFileSync(require('path').join(__dirname, 'result.json'), JSON.stringify({{ lines: __lines, ending: (globalThis as any).__ending ?? {{ kind: 'Return' }} }})); }});\nprocess.on('uncaughtException', (e: any) => {{ (globalThis as any).__ending = {{ kind: 'Throw', name: (e && e.constructor && e.constructor.name) || '', message: String(e && e.message), stack: String(e && e.stack).split('\\n').slice(0, 6) }}; process.exit(0); }});\n",
    lim.max_lines
  );
  if std::fs::write(dir.join("main.cts"), format!("{prologue}{ts}")).is_err() {
    let _ = std::fs::remove_dir_all(&dir);
    return Some(Trace { lines: vec![], ending: Ending::Harness("cannot write scratch files".into()), ub: UbFlags::default(), steps: 0 });
  }
  let child = Command::new(&node).arg("--stack-size=900").arg("--experimental-strip-types").arg("--no-warnings").arg(dir.join("main.cts")).stdin(Stdio::null()).stdout(Stdio::null()).stderr(Stdio::null()).spawn();
  let t = match child {
    Err(e) => Trace { lines: vec![], ending: Ending::Harness(format!("cannot start node: {e}")), ub: UbFlags::default(), steps: 0 },
    Ok(ch) => match wait(ch, timeout) {
      None => Trace { lines: vec![], ending: Ending::StepLimit, ub: UbFlags::default(), steps: 0 },
      Some(_) => match std::fs::read_to_string(dir.join("result.json")).ok().and_then(|s| serde_json::from_str::<serde_json::Value>(&s).ok()) {
        None => Trace { lines: vec![], ending: Ending::Harness("node wrote no result (syntax error in the emitted TypeScript?)".into()), ub: UbFlags::default(), steps: 0 },
        Some(v) => {
          let mut ending = ending_of(&v);
          // the TypeScript runtime reports the documented Vec bounds panics with these messages
          if let Ending::Panic(m) = &ending {
            if m == "Vec index out of bounds" || m == "pop from empty Vec" {
              ending = Ending::VecBounds;
            }
          }
          // in the TypeScript runtime every engine-level problem is a JS exception
          if let Ending::Fault { kind, at } = &ending {
            ending = Ending::Fault { kind: kind.split(':').next().unwrap_or("").to_string(), at: at.clone() };
          }
          Trace { lines: v["lines"].as_array().map(|a| a.iter().map(|x| x.as_str().unwrap_or("").to_string()).collect()).unwrap_or_default(), ending, ub: UbFlags::default(), steps: 0 }
        }
      },
    },
  };
  let _ = std::fs::remove_dir_all(&dir);
  Some(t)
}
