//! Subprocess worker pool: a check binary re-executes itself as `--worker` processes, one per
//! shard, that stream JSON-lines events on stdout. A worker that dies (abort, stack overflow,
//! signal) or stops making progress is attributed to the case it announced last, and the shard is
//! resumed after that case. Panics are caught inside workers with catch_unwind by the check code.
use serde_json::{Value, json};
use std::io::{BufRead, BufReader, Write};
use std::process::{Command, Stdio};
use std::sync::mpsc;
use std::time::{Duration, Instant};

#[derive(Clone, Debug)]
pub struct WorkerCtx {
  pub tier: String,
  pub seed: u64,
  pub shard: usize,
  pub nshards: usize,
  /// first case index this process should handle (resume point)
  pub start_case: u64,
  /// run only this case (isolation re-run)
  pub only_case: Option<u64>,
  pub extra: Vec<String>,
}

impl WorkerCtx {
  /// parse `--worker tier seed shard nshards start_case only_case extra...`
  pub fn from_args(args: &[String]) -> Option<WorkerCtx> {
    let i = args.iter().position(|a| a == "--worker")?;
    let a = &args[i + 1..];
    Some(WorkerCtx {
      tier: a.first()?.clone(),
      seed: a.get(1)?.parse().ok()?,
      shard: a.get(2)?.parse().ok()?,
      nshards: a.get(3)?.parse().ok()?,
      start_case: a.get(4)?.parse().ok()?,
      only_case: a.get(5).and_then(|s| s.parse::<i64>().ok()).filter(|x| *x >= 0).map(|x| x as u64),
      extra: a.get(6..).map(|s| s.to_vec()).unwrap_or_default(),
    })
  }
  /// does this process handle case `i`?
  pub fn mine(&self, i: u64) -> bool {
    if let Some(o) = self.only_case {
      return i == o;
    }
    i >= self.start_case && (i % self.nshards as u64) == self.shard as u64
  }
  pub fn begin(&self, case: u64, desc: &str) {
    emit(&json!({"t": "begin", "case": case, "desc": desc}));
  }
  pub fn end(&self, case: u64) {
    emit(&json!({"t": "end", "case": case}));
  }
}

pub fn emit(v: &Value) {
  let out = std::io::stdout();
  let mut l = out.lock();
  let _ = writeln!(l, "{}", v);
  let _ = l.flush();
}

#[derive(Clone, Debug)]
pub struct Death {
  pub shard: usize,
  pub case: Option<u64>,
  pub desc: String,
  /// "signal 11", "exit 134", "no progress for 60s"
  pub how: String,
  pub stderr_tail: String,
  pub hang: bool,
}

/// stop a drive after this many stalled cases (default: never)
pub static MAX_HANGS: std::sync::atomic::AtomicUsize = std::sync::atomic::AtomicUsize::new(usize::MAX);
/// set when a drive was stopped by MAX_HANGS
pub static STOPPED_EARLY: std::sync::atomic::AtomicBool = std::sync::atomic::AtomicBool::new(false);

pub struct DriveResult {
  pub events: Vec<Value>,
  pub deaths: Vec<Death>,
}

pub struct DriveOpts {
  pub nshards: usize,
  pub tier: String,
  pub seed: u64,
  /// kill a worker that printed nothing for this long
  pub stall: Duration,
  /// overall wall-clock cap; remaining work is abandoned (reported via `timed_out`)
  pub overall: Duration,
  pub extra: Vec<String>,
  pub env: Vec<(String, String)>,
  pub max_deaths_per_shard: usize,
}

fn spawn(exe: &std::path::Path, o: &DriveOpts, shard: usize, start_case: u64, only: i64) -> std::io::Result<std::process::Child> {
  let mut c = Command::new(exe);
  c.arg("--worker")
    .arg(&o.tier)
    .arg(o.seed.to_string())
    .arg(shard.to_string())
    .arg(o.nshards.to_string())
    .arg(start_case.to_string())
    .arg(only.to_string());
  for e in &o.extra {
    c.arg(e);
  }
  for (k, v) in &o.env {
    c.env(k, v);
  }
  c.stdin(Stdio::null()).stdout(Stdio::piped()).stderr(Stdio::piped());
  c.spawn()
}

enum Msg {
  Line(usize, u32, String),
  Eof(usize, u32),
}

/// Run all shards to completion (resuming after deaths); returns every event and every death.
pub fn drive(o: &DriveOpts) -> (DriveResult, bool) {
  let exe = std::env::current_exe().expect("current_exe");
  drive_exe(&exe, o)
}

struct Slot {
  child: Option<std::process::Child>,
  generation: u32,
  last_line: Instant,
  cur_case: Option<u64>,
  cur_desc: String,
  deaths: usize,
  done: bool,
  stderr: Option<std::thread::JoinHandle<String>>,
}

fn launch(exe: &std::path::Path, o: &DriveOpts, shard: usize, generation: u32, start_case: u64, tx: &mpsc::Sender<Msg>, s: &mut Slot) {
  match spawn(exe, o, shard, start_case, -1) {
    Ok(mut ch) => {
      let out = ch.stdout.take().unwrap();
      let err = ch.stderr.take().unwrap();
      let txc = tx.clone();
      std::thread::spawn(move || {
        let r = BufReader::new(out);
        for l in r.lines() {
          match l {
            Ok(l) => {
              if txc.send(Msg::Line(shard, generation, l)).is_err() {
                break;
              }
            }
            Err(_) => break,
          }
        }
        let _ = txc.send(Msg::Eof(shard, generation));
      });
      let h = std::thread::spawn(move || {
        let mut buf = Vec::new();
        let mut r = BufReader::new(err);
        let _ = std::io::Read::read_to_end(&mut r, &mut buf);
        let s = String::from_utf8_lossy(&buf).to_string();
        let n = s.len();
        if n > 4000 { s[s.char_indices().map(|(i, _)| i).find(|i| *i >= n - 4000).unwrap_or(0)..].to_string() } else { s }
      });
      s.child = Some(ch);
      s.stderr = Some(h);
      s.generation = generation;
      s.cur_case = None;
      s.last_line = Instant::now();
      s.done = false;
    }
    Err(_) => {
      s.child = None;
      s.done = true;
    }
  }
}

fn describe(status: &std::io::Result<std::process::ExitStatus>) -> String {
  match status {
    Ok(st) => {
      #[cfg(unix)]
      {
        use std::os::unix::process::ExitStatusExt;
        if let Some(sig) = st.signal() { format!("signal {sig}") } else { format!("exit {}", st.code().unwrap_or(-1)) }
      }
      #[cfg(not(unix))]
      {
        format!("exit {:?}", st.code())
      }
    }
    Err(e) => format!("wait failed: {e}"),
  }
}

pub fn drive_exe(exe: &std::path::Path, o: &DriveOpts) -> (DriveResult, bool) {
  let (tx, rx) = mpsc::channel::<Msg>();
  let mut slots: Vec<Slot> = Vec::new();
  let start = Instant::now();
  let mut events = Vec::new();
  let mut deaths = Vec::new();
  let mut timed_out = false;
  for shard in 0..o.nshards {
    let mut s = Slot { child: None, generation: 0, last_line: Instant::now(), cur_case: None, cur_desc: String::new(), deaths: 0, done: false, stderr: None };
    launch(exe, o, shard, 0, 0, &tx, &mut s);
    slots.push(s);
  }
  loop {
    if slots.iter().all(|s| s.done) {
      break;
    }
    if start.elapsed() > o.overall {
      timed_out = true;
      for s in slots.iter_mut() {
        if let Some(ch) = s.child.as_mut() {
          let _ = ch.kill();
          let _ = ch.wait();
        }
        s.done = true;
      }
      break;
    }
    match rx.recv_timeout(Duration::from_millis(300)) {
      Ok(Msg::Line(shard, g, l)) => {
        let s = &mut slots[shard];
        if g == s.generation {
          s.last_line = Instant::now();
          if let Ok(v) = serde_json::from_str::<Value>(&l) {
            match v.get("t").and_then(|t| t.as_str()) {
              Some("begin") => {
                s.cur_case = v.get("case").and_then(|c| c.as_u64());
                s.cur_desc = v.get("desc").and_then(|c| c.as_str()).unwrap_or("").to_string();
              }
              Some("end") => {
                s.cur_case = None;
              }
              _ => events.push(v),
            }
          }
        }
      }
      Ok(Msg::Eof(shard, g)) => {
        let s = &mut slots[shard];
        if g != s.generation || s.done {
          continue;
        }
        let status = s.child.as_mut().map(|c| c.wait()).unwrap_or_else(|| Err(std::io::Error::other("no child")));
        let stderr_tail = s.stderr.take().map(|h| h.join().unwrap_or_default()).unwrap_or_default();
        s.child = None;
        if matches!(&status, Ok(st) if st.success()) {
          s.done = true;
        } else {
          deaths.push(Death { shard, case: s.cur_case, desc: s.cur_desc.clone(), how: describe(&status), stderr_tail, hang: false });
          s.deaths += 1;
          match (s.cur_case, s.deaths < o.max_deaths_per_shard) {
            (Some(c), true) => {
              let g2 = s.generation + 1;
              launch(exe, o, shard, g2, c + 1, &tx, s);
            }
            _ => s.done = true,
          }
        }
      }
      Err(mpsc::RecvTimeoutError::Timeout) => {}
      Err(mpsc::RecvTimeoutError::Disconnected) => break,
    }
    for shard in 0..slots.len() {
      let s = &mut slots[shard];
      if !s.done && s.child.is_some() && s.last_line.elapsed() > o.stall {
        if let Some(ch) = s.child.as_mut() {
          let _ = ch.kill();
          let _ = ch.wait();
        }
        s.child = None;
        let stderr_tail = s.stderr.take().map(|h| h.join().unwrap_or_default()).unwrap_or_default();
        deaths.push(Death {
          shard,
          case: s.cur_case,
          desc: s.cur_desc.clone(),
          how: format!("no progress for {}s", o.stall.as_secs()),
          stderr_tail,
          hang: true,
        });
        s.deaths += 1;
        match (s.cur_case, s.deaths < o.max_deaths_per_shard) {
          (Some(c), true) => {
            let g2 = s.generation + 1;
            launch(exe, o, shard, g2, c + 1, &tx, s);
          }
          _ => {
            s.generation += 1;
            s.done = true;
          }
        }
      }
    }
    // a tree that stalls on one input usually stalls on many, and every stall costs `stall`
    // seconds of a shard: stop the whole drive once enough of them were seen
    if deaths.iter().filter(|d| d.hang).count() >= MAX_HANGS.load(std::sync::atomic::Ordering::SeqCst) {
      for s in slots.iter_mut() {
        if let Some(ch) = s.child.as_mut() {
          let _ = ch.kill();
          let _ = ch.wait();
        }
        s.child = None;
        s.done = true;
      }
      STOPPED_EARLY.store(true, std::sync::atomic::Ordering::SeqCst);
      break;
    }
  }
  (DriveResult { events, deaths }, timed_out)
}

/// Re-run one case alone in a fresh worker with a generous time budget.
/// Returns (events, Some(death)) — death None means the case finished normally.
pub fn run_single(o: &DriveOpts, shard: usize, case: u64, budget: Duration) -> (Vec<Value>, Option<Death>) {
  let exe = std::env::current_exe().expect("current_exe");
  let mut ch = match spawn(&exe, o, shard, 0, case as i64) {
    Ok(c) => c,
    Err(e) => {
      return (vec![], Some(Death { shard, case: Some(case), desc: String::new(), how: format!("spawn failed: {e}"), stderr_tail: String::new(), hang: false }));
    }
  };
  let out = ch.stdout.take().unwrap();
  let err = ch.stderr.take().unwrap();
  let (tx, rx) = mpsc::channel::<Option<String>>();
  std::thread::spawn(move || {
    for l in BufReader::new(out).lines().map_while(Result::ok) {
      if tx.send(Some(l)).is_err() {
        return;
      }
    }
    let _ = tx.send(None);
  });
  let errh = std::thread::spawn(move || {
    let mut buf = Vec::new();
    let _ = std::io::Read::read_to_end(&mut BufReader::new(err), &mut buf);
    String::from_utf8_lossy(&buf).to_string()
  });
  let start = Instant::now();
  let mut events = vec![];
  let mut desc = String::new();
  let mut hang = false;
  loop {
    if start.elapsed() > budget {
      let _ = ch.kill();
      hang = true;
      break;
    }
    match rx.recv_timeout(Duration::from_millis(200)) {
      Ok(Some(l)) => {
        if let Ok(v) = serde_json::from_str::<Value>(&l) {
          match v.get("t").and_then(|t| t.as_str()) {
            Some("begin") => desc = v.get("desc").and_then(|c| c.as_str()).unwrap_or("").to_string(),
            Some("end") => {}
            _ => events.push(v),
          }
        }
      }
      Ok(None) => break,
      Err(mpsc::RecvTimeoutError::Timeout) => {}
      Err(_) => break,
    }
  }
  let st = ch.wait();
  let tail = errh.join().unwrap_or_default();
  if hang {
    return (events, Some(Death { shard, case: Some(case), desc, how: format!("still running after {}s alone", budget.as_secs()), stderr_tail: tail, hang: true }));
  }
  match st {
    Ok(s) if s.success() => (events, None),
    Ok(s) => {
      #[cfg(unix)]
      let how = {
        use std::os::unix::process::ExitStatusExt;
        if let Some(sig) = s.signal() { format!("signal {sig}") } else { format!("exit {}", s.code().unwrap_or(-1)) }
      };
      #[cfg(not(unix))]
      let how = format!("exit {:?}", s.code());
      (events, Some(Death { shard, case: Some(case), desc, how, stderr_tail: tail, hang: false }))
    }
    Err(e) => (events, Some(Death { shard, case: Some(case), desc, how: format!("wait: {e}"), stderr_tail: tail, hang: false })),
  }
}

/// catch_unwind wrapper that returns the panic message and location (via a thread-local hook).
pub fn catch<R>(f: impl FnOnce() -> R + std::panic::UnwindSafe) -> Result<R, String> {
  install_hook();
  LAST_PANIC.with(|l| l.borrow_mut().take());
  match std::panic::catch_unwind(f) {
    Ok(r) => Ok(r),
    Err(p) => {
      let msg = if let Some(s) = p.downcast_ref::<&str>() {
        s.to_string()
      } else if let Some(s) = p.downcast_ref::<String>() {
        s.clone()
      } else {
        "<non-string panic>".to_string()
      };
      let loc = LAST_PANIC.with(|l| l.borrow_mut().take()).unwrap_or_default();
      Err(format!("{msg} @ {loc}"))
    }
  }
}

/// process-wide (panics may happen on rayon worker threads, not on the catching thread)
static LAST_PANIC_GLOBAL: std::sync::Mutex<Option<String>> = std::sync::Mutex::new(None);

struct LastPanic;
static LAST_PANIC: LastPanic = LastPanic;
impl LastPanic {
  fn with<R>(&self, f: impl FnOnce(&std::cell::RefCell<Option<String>>) -> R) -> R {
    let mut g = LAST_PANIC_GLOBAL.lock().unwrap_or_else(|e| e.into_inner());
    let cell = std::cell::RefCell::new(g.take());
    let r = f(&cell);
    *g = cell.into_inner();
    r
  }
}

pub fn install_hook() {
  static ONCE: std::sync::Once = std::sync::Once::new();
  ONCE.call_once(|| {
    std::panic::set_hook(Box::new(|info| {
      let loc = info.location().map(|l| format!("{}:{}", l.file(), l.line())).unwrap_or_default();
      if std::env::var("VERIF_BACKTRACE").is_ok() {
        eprintln!("panic at {loc}\n{}", std::backtrace::Backtrace::force_capture());
      }
      LAST_PANIC.with(|l| *l.borrow_mut() = Some(loc));
    }));
  });
}
