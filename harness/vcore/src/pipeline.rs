//! The whole front-to-back pipeline run on arbitrary text with every stage under catch_unwind.
use crate::astwalk::{self, Walker};
use crate::pool::catch;
use crate::toks::{self, TokKind};
use samlang_errors::ErrorSet;
use samlang_heap::Heap;
use std::collections::{BTreeMap, BTreeSet, HashMap};
use std::panic::AssertUnwindSafe;

#[derive(Default, Debug, Clone)]
pub struct PipelineReport {
  pub syntax_errors: usize,
  pub other_errors: usize,
  pub diag_kinds: BTreeSet<String>,
  pub reached_checker: bool,
  pub formatted: usize,
  pub compiled: Option<bool>,
  /// (stage, panic message @ location)
  pub panic: Option<(String, String)>,
  /// modules without any syntax error whose AST does not yield the identifiers / literals of the text
  pub silent_recovery: Vec<String>,
  pub rendered_bytes: usize,
}

pub fn detail_kind(d: &samlang_errors::ErrorDetail) -> String {
  let s = format!("{d:?}");
  s.split(|c: char| !c.is_ascii_alphanumeric()).next().unwrap_or("").to_string()
}

/// identifiers (multiset), int-literal count and string-literal count of a source text
pub fn text_yield(text: &str) -> (BTreeMap<String, i64>, i64, i64, usize) {
  let mut ids = BTreeMap::new();
  let (mut ints, mut strs, mut errs) = (0, 0, 0);
  for t in toks::lex(text) {
    match t.kind {
      TokKind::UpperId | TokKind::LowerId => *ids.entry(t.text).or_insert(0) += 1,
      TokKind::Keyword if t.text == "this" => *ids.entry(t.text).or_insert(0) += 1,
      TokKind::Int => ints += 1,
      TokKind::Str => strs += 1,
      TokKind::Error => errs += 1,
      _ => {}
    }
  }
  (ids, ints, strs, errs)
}

pub fn ast_yield(root: &astwalk::Node) -> (BTreeMap<String, i64>, i64, i64) {
  let mut v = Vec::new();
  astwalk::token_yield(root, &mut v);
  let mut ids = BTreeMap::new();
  let (mut ints, mut strs) = (0, 0);
  for (k, t) in v {
    match k {
      "id" => *ids.entry(t).or_insert(0) += 1,
      "int" => ints += 1,
      "str" => strs += 1,
      _ => {}
    }
  }
  (ids, ints, strs)
}

/// None = the AST accounts for every identifier / literal token of the text
pub fn yield_mismatch(text: &str, root: &astwalk::Node) -> Option<String> {
  let (tids, tints, tstrs, terrs) = text_yield(text);
  let (aids, aints, astrs) = ast_yield(root);
  let mut diffs = Vec::new();
  let keys: BTreeSet<&String> = tids.keys().chain(aids.keys()).collect();
  for k in keys {
    let (a, b) = (tids.get(k).copied().unwrap_or(0), aids.get(k).copied().unwrap_or(0));
    if a != b {
      diffs.push(format!("identifier `{k}`: {a} in text, {b} in tree"));
    }
  }
  if tints != aints {
    diffs.push(format!("int literals: {tints} in text, {aints} in tree"));
  }
  if tstrs != astrs {
    diffs.push(format!("string literals: {tstrs} in text, {astrs} in tree"));
  }
  if terrs > 0 {
    diffs.push(format!("{terrs} invalid token(s) in text"));
  }
  if diffs.is_empty() { None } else { Some(diffs.join("; ")) }
}

pub fn run(modules: &[(String, String)], do_compile: bool, do_format: bool) -> PipelineReport {
  run_own(modules, modules.len(), do_compile, do_format)
}

/// like `run`, but the yield oracle and the formatter are applied only to the first `n_own`
/// modules (the rest are unmodified library modules that ride along)
pub fn run_own(modules: &[(String, String)], n_own: usize, do_compile: bool, do_format: bool) -> PipelineReport {
  let mut rep = PipelineReport::default();
  let mut heap = Heap::new();
  let handles: HashMap<_, _> = modules.iter().map(|(n, t)| (crate::front::mod_ref(&mut heap, n), t.clone())).collect();
  let mut errors = ErrorSet::new();
  let mut parsed = HashMap::new();
  for (m, t) in &handles {
    let r = catch(AssertUnwindSafe(|| samlang_parser::parse_source_module_from_text(t, *m, &mut heap, &mut errors)));
    match r {
      Ok(p) => {
        parsed.insert(*m, p);
      }
      Err(e) => {
        rep.panic = Some(("parse".into(), e));
        return rep;
      }
    }
  }
  let syntax_by_module: BTreeSet<_> = errors.errors().iter().filter(|e| e.is_syntax_error()).map(|e| e.location.module_reference).collect();
  // silent recovery oracle + formatting on modules without syntax errors
  let own: BTreeSet<_> = modules.iter().take(n_own).map(|(n, _)| crate::front::mod_ref(&mut heap, n)).collect();
  for (m, ast) in &parsed {
    if syntax_by_module.contains(m) || !own.contains(m) {
      continue;
    }
    let text = &handles[m];
    let tree = match catch(AssertUnwindSafe(|| Walker::new(&heap).module(ast))) {
      Ok(t) => t,
      Err(e) => {
        rep.panic = Some(("astwalk(as_str on parsed tree)".into(), e));
        return rep;
      }
    };
    if let Some(d) = yield_mismatch(text, &tree) {
      rep.silent_recovery.push(format!("{}: {}", m.pretty_print(&heap), d));
    }
    if do_format {
      for w in [100usize, 20] {
        match catch(AssertUnwindSafe(|| samlang_printer::pretty_print_source_module(&heap, w, ast))) {
          Ok(s) => {
            rep.formatted += 1;
            rep.rendered_bytes += s.len();
          }
          Err(e) => {
            rep.panic = Some((format!("format(width {w})"), e));
            return rep;
          }
        }
      }
    }
  }
  let checked = catch(AssertUnwindSafe(|| samlang_checker::type_check_sources(&parsed, &mut errors)));
  if let Err(e) = checked {
    rep.panic = Some(("typecheck".into(), e));
    return rep;
  }
  rep.reached_checker = true;
  for e in errors.errors() {
    if e.is_syntax_error() {
      rep.syntax_errors += 1;
    } else {
      rep.other_errors += 1;
    }
    rep.diag_kinds.insert(detail_kind(&e.detail));
  }
  // diagnostic rendering: text, and IDE + terminal per error
  match catch(AssertUnwindSafe(|| errors.pretty_print_error_messages(&heap, &handles))) {
    Ok(s) => rep.rendered_bytes += s.len(),
    Err(e) => {
      rep.panic = Some(("render(text)".into(), e));
      return rep;
    }
  }
  for e in errors.errors() {
    match catch(AssertUnwindSafe(|| e.to_ide_format(&heap, &handles))) {
      Ok(f) => rep.rendered_bytes += f.ide_error.len() + f.full_error.len(),
      Err(p) => {
        rep.panic = Some(("render(ide/terminal)".into(), p));
        return rep;
      }
    }
  }
  if do_compile {
    let entry = modules[0].0.clone();
    let mods = modules.to_vec();
    let r = catch(AssertUnwindSafe(move || {
      let mut heap = Heap::new();
      let handles: HashMap<_, _> = mods.iter().map(|(n, t)| (crate::front::mod_ref(&mut heap, n), t.clone())).collect();
      let e = crate::front::mod_ref(&mut heap, &entry);
      samlang_compiler::compile_sources(&mut heap, handles, vec![e], false).is_ok()
    }));
    match r {
      Ok(ok) => {
        rep.compiled = Some(ok);
        let has_err = rep.syntax_errors + rep.other_errors > 0;
        if ok && has_err {
          rep.silent_recovery.push("compile_sources returned Ok although the front end reported errors".into());
        }
      }
      Err(e) => {
        rep.panic = Some(("compile".into(), e));
        return rep;
      }
    }
  }
  rep
}
