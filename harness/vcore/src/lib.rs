pub mod astwalk;
pub mod corpus;
pub mod ddmin;
pub mod evidence;
pub mod exprgen;
pub mod fmtcheck;
pub mod front;
pub mod layout;
pub mod loopgen;
pub mod lsphist;
pub mod mutate;
pub mod pipeline;
#[cfg(feature = "pgen")]
pub mod pgen;
pub mod pool;
pub mod scope;
pub mod toks;
pub use heapmon::rng;
pub mod trace;
pub mod v8run;

/// reference (big-step) interpreter over the checked source AST
#[cfg(feature = "exec")]
pub mod refint;
/// interpreter for samlang_ast::mir::Sources with wasm integer semantics
#[cfg(feature = "exec")]
pub mod mirint;
/// validator + checking interpreter for the emitted WasmGC bytes
#[cfg(feature = "exec")]
pub mod wasmi;
/// TypeScript type-eraser + batched execution under the real node
#[cfg(feature = "exec")]
pub mod tsrun;
/// differential execution + C01/C03/C04 judgements
#[cfg(feature = "exec")]
pub mod diffexec;
#[cfg(all(feature = "exec", feature = "pgen"))]
pub mod diffcheck;
