pub mod front;
pub mod rng;
pub mod trace;

/// reference (big-step) interpreter over the checked source AST
pub mod refint;
/// interpreter for samlang_ast::mir::Sources with wasm integer semantics
pub mod mirint;
/// validator + checking interpreter for the emitted WasmGC bytes
pub mod wasmi;
/// TypeScript type-eraser + batched execution under the real node
pub mod tsrun;
