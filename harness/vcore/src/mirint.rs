//! Interpreter for `samlang_ast::mir::Sources` with the integer semantics of the WebAssembly
//! target (i32 wrapping arithmetic, `div_s`/`rem_s` traps, signed comparisons, `shr_u`, masked
//! shift counts, `Not` = `xor 1`).
//!
//! The same interpreter is run on the MIR before and after `samlang_optimization::optimize_sources`
//! and the traces are compared, so it is deliberately *dynamic*: values carry their own run-time
//! shape (i32, i31, string, struct with its type id, closure, Vec) and every use checks the shape
//! it needs.  Anything wasm would trap on / refuse to validate, or that shows that the MIR is
//! ill-formed (undefined variable, struct access on a non-struct, field index out of range, type
//! confusion at a `Cast`, call of something that is not a function, signature mismatch of an
//! indirect call, `break` outside a loop ...) ends the run with `Ending::Fault`.
//!
//! Every function is first compiled into a flat instruction vector with slot-resolved variables;
//! execution uses an explicit frame stack, so deep samlang recursion never recurses on the host
//! stack and `Limits::max_depth` is honoured exactly (the entry function is depth 1).  Object
//! graphs are reference counted with an iterative `Drop`, so freeing a 1M-element linked list
//! does not recurse either.
//!
//! Variables are function-wide slots (exactly like wasm locals): a variable assigned inside an
//! `if` arm is visible after the `if` (the lowering of pattern matching relies on that).
//! `LateInitDeclaration` resets its slot to "undefined".
//!
//! Loop-variable updates at the end of a `While` body and the initial assignments are performed
//! sequentially in declaration order, as both back ends do.

use crate::trace::{Ending, Limits, Trace, UbFlags};
use samlang_ast::hir::BinaryOperator as Op;
use samlang_ast::mir::{
  self, Callee, EnumTypeDefinition, Expression, FunctionName, Statement, Type,
  TypeDefinitionMappings, TypeNameId,
};
use samlang_heap::{Heap, ModuleReference, PStr};
use std::cell::RefCell;
use std::collections::HashMap;
use std::rc::Rc;

#[derive(Clone, Debug, Default, PartialEq, Eq)]
pub struct MirStats {
  /// executed flat instructions (one MIR statement is 1..3 instructions)
  pub steps: u64,
  /// calls of MIR functions (direct and through closures; builtins are not counted)
  pub calls: u64,
  /// number of `While` body entries
  pub loop_iterations: u64,
  /// deepest frame stack seen (entry function = 1)
  pub max_depth: usize,
}

#[derive(Clone, Copy, Debug, Default)]
pub struct Options {
  /// Model the wasm lowering's boxing of `int` Vec elements through `ref.i31` (values are
  /// truncated to 31 bits, sign extended on the way out).  Off by default: that is a property of
  /// the wasm lowering, not of the MIR.
  pub vec_int_i31_truncation: bool,
}

/// a single string may not grow beyond this many bytes (resource guard; ends in `StepLimit`)
const MAX_STRING_BYTES: usize = 1 << 26;
/// a single Vec may not grow beyond this many elements (resource guard; ends in `StepLimit`)
const MAX_VEC_LEN: usize = 1 << 26;

// ------------------------------------------------------------------------------------------
// values
// ------------------------------------------------------------------------------------------

thread_local! {
  /// approximate number of bytes held by live interpreter objects of the current run
  static LIVE: std::cell::Cell<usize> = const { std::cell::Cell::new(0) };
}
/// more live data than this ends the run with `StepLimit` (resource guard)
const MAX_LIVE_BYTES: usize = 1 << 30;

fn live_add(n: usize) {
  LIVE.with(|c| c.set(c.get().saturating_add(n)));
}
fn live_sub(n: usize) {
  LIVE.with(|c| c.set(c.get().saturating_sub(n)));
}
fn live_exceeded() -> bool {
  LIVE.with(|c| c.get() > MAX_LIVE_BYTES)
}

/// (text, counted in LIVE) - the global strings of a `Program` outlive a run and are not counted
struct StrObj(Box<str>, bool);

impl Drop for StrObj {
  fn drop(&mut self) {
    if self.1 {
      live_sub(self.0.len() + 32);
    }
  }
}

struct StructObj {
  ty: TypeNameId,
  fields: Vec<Value>,
  /// bytes accounted in LIVE
  acct: usize,
}

impl StructObj {
  fn new(ty: TypeNameId, fields: Vec<Value>) -> StructObj {
    let acct = 40 + 16 * fields.len();
    live_add(acct);
    StructObj { ty, fields, acct }
  }
}

struct ClosureObj {
  ty: TypeNameId,
  func: u32,
  ctx: Value,
}

struct VecInner {
  data: Vec<Value>,
  /// number of elements accounted in LIVE (16 bytes each)
  acct: usize,
  /// capacity as the wasm runtime would report it (length of the backing array)
  cap: i32,
}

struct VecObj {
  inner: RefCell<VecInner>,
}

#[derive(Clone)]
enum Value {
  /// slot never assigned (never escapes from a slot: reading it is a Fault)
  Undef,
  Int(i32),
  /// `ref i31`: enum tags of payload-free variants, placeholders
  I31(i32),
  Str(Rc<StrObj>),
  Struct(Rc<StructObj>),
  Closure(Rc<ClosureObj>),
  Vec(Rc<VecObj>),
}

impl Value {
  fn is_container(&self) -> bool {
    matches!(self, Value::Struct(_) | Value::Closure(_) | Value::Vec(_))
  }
  fn kind(&self) -> &'static str {
    match self {
      Value::Undef => "undefined",
      Value::Int(_) => "i32",
      Value::I31(_) => "i31",
      Value::Str(_) => "string",
      Value::Struct(_) => "struct",
      Value::Closure(_) => "closure",
      Value::Vec(_) => "Vec",
    }
  }
}

/// free an object graph without recursing on the host stack
fn release(stack: &mut Vec<Value>) {
  while let Some(v) = stack.pop() {
    match v {
      Value::Struct(rc) => {
        if let Some(mut o) = Rc::into_inner(rc) {
          stack.append(&mut o.fields);
        }
      }
      Value::Closure(rc) => {
        if let Some(mut o) = Rc::into_inner(rc) {
          stack.push(std::mem::replace(&mut o.ctx, Value::Undef));
        }
      }
      Value::Vec(rc) => {
        if let Some(mut o) = Rc::into_inner(rc) {
          stack.append(&mut o.inner.get_mut().data);
        }
      }
      _ => {}
    }
  }
}

impl Drop for StructObj {
  fn drop(&mut self) {
    live_sub(self.acct);
    if self.fields.iter().any(Value::is_container) {
      let mut st = std::mem::take(&mut self.fields);
      release(&mut st);
    }
  }
}

impl Drop for ClosureObj {
  fn drop(&mut self) {
    if self.ctx.is_container() {
      let mut st = vec![std::mem::replace(&mut self.ctx, Value::Undef)];
      release(&mut st);
    }
  }
}

impl Drop for VecObj {
  fn drop(&mut self) {
    let inner = self.inner.get_mut();
    live_sub(16 * inner.acct);
    if inner.data.iter().any(Value::is_container) {
      let mut st = std::mem::take(&mut inner.data);
      release(&mut st);
    }
  }
}

// ------------------------------------------------------------------------------------------
// compiled form
// ------------------------------------------------------------------------------------------

#[derive(Clone, Copy, Debug)]
enum Opnd {
  Int(i32),
  I31(i32),
  Str(u32),
  Slot(u32),
}

#[derive(Clone, Copy, Debug, PartialEq, Eq)]
enum Builtin {
  Println,
  Panic,
  StrFromInt,
  StrToInt,
  StrConcat,
  StrEq,
  VecEmpty,
  VecOf,
  VecWithCapacity,
  VecLength,
  VecCapacity,
  VecReserve,
  VecPush,
  VecPop,
  VecGet,
  VecSet,
  VecEq,
  UnwrapI31,
}

impl Builtin {
  fn arity(self) -> usize {
    match self {
      Builtin::Println | Builtin::Panic | Builtin::StrFromInt => 2,
      Builtin::StrToInt => 1,
      Builtin::StrConcat | Builtin::StrEq => 2,
      Builtin::VecEmpty => 1,
      Builtin::VecOf | Builtin::VecWithCapacity => 2,
      Builtin::VecLength | Builtin::VecCapacity | Builtin::VecPop => 1,
      Builtin::VecReserve | Builtin::VecPush | Builtin::VecGet | Builtin::VecEq => 2,
      Builtin::VecSet => 3,
      Builtin::UnwrapI31 => 1,
    }
  }
  fn name(self) -> &'static str {
    match self {
      Builtin::Println => "Process.println",
      Builtin::Panic => "Process.panic",
      Builtin::StrFromInt => "Str.fromInt",
      Builtin::StrToInt => "Str.toInt",
      Builtin::StrConcat => "Str.concat",
      Builtin::StrEq => "Str.eq",
      Builtin::VecEmpty => "Vec.empty",
      Builtin::VecOf => "Vec.of",
      Builtin::VecWithCapacity => "Vec.withCapacity",
      Builtin::VecLength => "Vec.length",
      Builtin::VecCapacity => "Vec.capacity",
      Builtin::VecReserve => "Vec.reserve",
      Builtin::VecPush => "Vec.push",
      Builtin::VecPop => "Vec.pop",
      Builtin::VecGet => "Vec.get",
      Builtin::VecSet => "Vec.set",
      Builtin::VecEq => "Vec.eq",
      Builtin::UnwrapI31 => "unwrapI31",
    }
  }
}

/// builtins are recognised by *identity of the MIR function name* with the constants that
/// `samlang_ast::mir::FunctionName` exports (type id PROCESS / STR / VEC / EMPTY + fixed PStr)
fn builtin_of(n: FunctionName) -> Option<Builtin> {
  const TABLE: [(FunctionName, Builtin); 18] = [
    (FunctionName::PROCESS_PRINTLN, Builtin::Println),
    (FunctionName::PROCESS_PANIC, Builtin::Panic),
    (FunctionName::STR_FROM_INT, Builtin::StrFromInt),
    (FunctionName::STR_TO_INT, Builtin::StrToInt),
    (FunctionName::STR_CONCAT, Builtin::StrConcat),
    (FunctionName::STR_EQ, Builtin::StrEq),
    (FunctionName::VEC_EMPTY, Builtin::VecEmpty),
    (FunctionName::VEC_OF, Builtin::VecOf),
    (FunctionName::VEC_WITH_CAPACITY, Builtin::VecWithCapacity),
    (FunctionName::VEC_LENGTH, Builtin::VecLength),
    (FunctionName::VEC_CAPACITY, Builtin::VecCapacity),
    (FunctionName::VEC_RESERVE, Builtin::VecReserve),
    (FunctionName::VEC_PUSH, Builtin::VecPush),
    (FunctionName::VEC_POP, Builtin::VecPop),
    (FunctionName::VEC_GET, Builtin::VecGet),
    (FunctionName::VEC_SET, Builtin::VecSet),
    (FunctionName::VEC_EQ, Builtin::VecEq),
    (FunctionName::UNWRAP_I31, Builtin::UnwrapI31),
  ];
  TABLE.iter().find(|(f, _)| *f == n).map(|(_, b)| *b)
}

enum Instr {
  Binary { dst: u32, op: Op, a: Opnd, b: Opnd, str_cmp: bool },
  Not { dst: u32, a: Opnd },
  IsPointer { dst: u32, ty: TypeNameId, a: Opnd },
  Index { dst: u32, a: Opnd, idx: u32, static_ty: Option<TypeNameId> },
  Mov { dst: u32, a: Opnd },
  Undef { dst: u32 },
  Cast { dst: u32, ty: Type, a: Opnd },
  StructInit { dst: u32, ty: TypeNameId, fields: Box<[Opnd]> },
  ClosureInit { dst: u32, ty: TypeNameId, func: u32, ctx: Opnd },
  CallFn { func: u32, args: Box<[Opnd]>, dst: Option<u32> },
  CallBuiltin { b: Builtin, args: Box<[Opnd]>, dst: Option<u32> },
  CallClosure { callee: u32, static_ty: Option<TypeNameId>, args: Box<[Opnd]>, dst: Option<u32> },
  Jump(u32),
  /// jump when the (i32) condition is 0
  JumpIfZero { c: Opnd, t: u32 },
  /// jump when `(c xor 1) == 0`, i.e. the inverted test the wasm lowering emits
  JumpIfOne { c: Opnd, t: u32 },
  LoopEnter,
  LoopBack(u32),
  Return(Opnd),
  Fault(Box<str>),
  Unsupported(Box<str>),
}

/// the wasm-level type a MIR type lowers to (for the `call_indirect` signature check)
#[derive(Clone, Copy, PartialEq, Eq, Debug)]
enum LT {
  I32,
  I31,
  Eq,
  Ref(TypeNameId),
}

struct CFunc {
  n_params: usize,
  n_slots: usize,
  code: Vec<Instr>,
  slot_names: Vec<PStr>,
  /// lowered signature with the first parameter erased to `(ref eq)` (how a closure function is
  /// typed in the function table), `None` if the function has no parameter
  closure_sig: Option<(Vec<LT>, LT)>,
}

enum TypeInfo {
  Struct(Vec<Type>),
  Enum(Vec<EnumTypeDefinition>),
  /// lowered `(ref eq), args... -> ret`
  Closure(Vec<LT>, LT),
  /// boxed enum variant `Parent$_SubN`
  Sub { parent: TypeNameId, tag: usize },
}

struct TypeTable<'a> {
  heap: &'a Heap,
  symbols: &'a mir::SymbolTable,
  map: HashMap<TypeNameId, TypeInfo>,
}

impl<'a> TypeTable<'a> {
  /// make sure `id` is known if it can be known (boxed-variant subtypes are discovered lazily,
  /// the symbol table cannot be enumerated)
  fn ensure(&mut self, id: TypeNameId) {
    if self.map.contains_key(&id) {
      return;
    }
    if let Some(parent) = self.symbols.get_parent_type_if_subtype(id) {
      let enc = id.encoded_for_test(self.heap, self.symbols);
      if let Some((_, n)) = enc.rsplit_once("$_Sub") {
        if let Ok(tag) = n.parse::<usize>() {
          self.map.insert(id, TypeInfo::Sub { parent, tag });
        }
      }
    }
  }

  fn enum_has_i31(&self, id: TypeNameId) -> bool {
    matches!(self.map.get(&id), Some(TypeInfo::Enum(vs)) if vs.iter().any(|v| matches!(v, EnumTypeDefinition::Int31)))
  }

  fn lower(&self, t: Type) -> LT {
    match t {
      Type::Int32 => LT::I32,
      Type::Int31 => LT::I31,
      Type::Id(id) => {
        if self.enum_has_i31(id) {
          LT::Eq
        } else {
          LT::Ref(id)
        }
      }
    }
  }

  /// field types of a struct-like type (plain struct or boxed variant)
  fn field_types(&self, id: TypeNameId) -> Option<&[Type]> {
    match self.map.get(&id)? {
      TypeInfo::Struct(ts) => Some(ts),
      TypeInfo::Sub { parent, tag } => match self.map.get(parent)? {
        TypeInfo::Enum(vs) => match vs.get(*tag)? {
          EnumTypeDefinition::Boxed(ts) => Some(ts),
          _ => None,
        },
        _ => None,
      },
      _ => None,
    }
  }

  fn parent_of(&self, id: TypeNameId) -> Option<TypeNameId> {
    match self.map.get(&id) {
      Some(TypeInfo::Sub { parent, .. }) => Some(*parent),
      _ => None,
    }
  }

  /// MIR-level (lowering independent) compatibility of a run-time value with a MIR type
  fn value_matches(&self, v: &Value, t: Type) -> bool {
    match t {
      Type::Int32 => matches!(v, Value::Int(_)),
      Type::Int31 => matches!(v, Value::I31(_)),
      Type::Id(id) => self.value_matches_id(v, id, 0),
    }
  }

  fn value_matches_id(&self, v: &Value, id: TypeNameId, depth: u32) -> bool {
    if matches!(v, Value::Int(_) | Value::Undef) {
      return false;
    }
    if id == TypeNameId::STR {
      return matches!(v, Value::Str(_));
    }
    if id == TypeNameId::VEC {
      return matches!(v, Value::Vec(_));
    }
    match self.map.get(&id) {
      None => true,
      Some(TypeInfo::Struct(_)) | Some(TypeInfo::Sub { .. }) => {
        matches!(v, Value::Struct(o) if o.ty == id)
      }
      Some(TypeInfo::Closure(..)) => matches!(v, Value::Closure(_)),
      Some(TypeInfo::Enum(vs)) => match v {
        Value::I31(n) => {
          *n >= 0 && matches!(vs.get(*n as usize), Some(EnumTypeDefinition::Int31))
        }
        Value::Struct(o) if self.parent_of(o.ty) == Some(id) => true,
        _ => {
          depth < 4
            && vs.iter().any(|d| match d {
              EnumTypeDefinition::Unboxed(t) => self.value_matches_id(v, *t, depth + 1),
              _ => false,
            })
        }
      },
    }
  }
}

pub struct Program<'a> {
  heap: &'a Heap,
  sources: &'a mir::Sources,
  funcs: Vec<CFunc>,
  strings: Vec<Rc<StrObj>>,
  types: TypeTable<'a>,
  options: Options,
}

struct LoopCx {
  collector: Option<u32>,
  break_patches: Vec<usize>,
}

struct FnCompiler<'c, 'a> {
  heap: &'a Heap,
  sources: &'a mir::Sources,
  types: &'c mut TypeTable<'a>,
  fn_index: &'c HashMap<FunctionName, u32>,
  str_index: &'c HashMap<PStr, u32>,
  slots: HashMap<PStr, u32>,
  slot_names: Vec<PStr>,
  code: Vec<Instr>,
  loops: Vec<LoopCx>,
}

fn is_string_expr(e: &Expression) -> bool {
  match e {
    Expression::StringName(_) => true,
    Expression::Variable(v) => v.type_ == Type::Id(TypeNameId::STR),
    _ => false,
  }
}

impl<'c, 'a> FnCompiler<'c, 'a> {
  fn slot(&mut self, n: PStr) -> u32 {
    if let Some(s) = self.slots.get(&n) {
      return *s;
    }
    let s = self.slot_names.len() as u32;
    self.slots.insert(n, s);
    self.slot_names.push(n);
    s
  }

  fn opnd(&mut self, e: &Expression) -> Opnd {
    match e {
      Expression::Int32Literal(i) => Opnd::Int(*i),
      // (ref.i31 v) keeps the low 31 bits, i31.get_s sign-extends them
      Expression::Int31Literal(i) => Opnd::I31((*i << 1) >> 1),
      Expression::StringName(n) => match self.str_index.get(n) {
        Some(i) => Opnd::Str(*i),
        None => {
          // the wasm lowering would panic on the missing global (string_name_mapping.unwrap())
          self.code.push(Instr::Fault(
            format!("string literal {:?} is not in sources.global_variables", n.as_str(self.heap))
              .into(),
          ));
          Opnd::Int(0)
        }
      },
      Expression::Variable(v) => {
        if let Type::Id(id) = v.type_ {
          self.types.ensure(id);
        }
        Opnd::Slot(self.slot(v.name))
      }
    }
  }

  fn opnds(&mut self, es: &[Expression]) -> Box<[Opnd]> {
    es.iter().map(|e| self.opnd(e)).collect()
  }

  fn fn_display(&self, n: &FunctionName) -> String {
    n.encoded_for_test(self.heap, &self.sources.symbol_table)
  }

  fn block(&mut self, stmts: &[Statement]) {
    for s in stmts {
      self.stmt(s);
    }
  }

  fn patch(&mut self, at: usize, target: u32) {
    match &mut self.code[at] {
      Instr::Jump(t) | Instr::JumpIfZero { t, .. } | Instr::JumpIfOne { t, .. } => *t = target,
      _ => unreachable!(),
    }
  }

  fn here(&self) -> u32 {
    self.code.len() as u32
  }

  fn stmt(&mut self, s: &Statement) {
    match s {
      Statement::IsPointer { name, pointer_type, operand } => {
        self.types.ensure(*pointer_type);
        let a = self.opnd(operand);
        let dst = self.slot(*name);
        self.code.push(Instr::IsPointer { dst, ty: *pointer_type, a });
      }
      Statement::Not { name, operand } => {
        let a = self.opnd(operand);
        let dst = self.slot(*name);
        self.code.push(Instr::Not { dst, a });
      }
      Statement::Binary(mir::Binary { name, operator, e1, e2 }) => {
        let str_cmp =
          matches!(operator, Op::EQ | Op::NE) && (is_string_expr(e1) || is_string_expr(e2));
        let a = self.opnd(e1);
        let b = self.opnd(e2);
        let dst = self.slot(*name);
        self.code.push(Instr::Binary { dst, op: *operator, a, b, str_cmp });
      }
      Statement::IndexedAccess { name, type_, pointer_expression, index } => {
        if let Type::Id(id) = type_ {
          self.types.ensure(*id);
        }
        let static_ty = match pointer_expression {
          Expression::Variable(v) => v.type_.as_id().copied(),
          _ => None,
        };
        let a = self.opnd(pointer_expression);
        let dst = self.slot(*name);
        self.code.push(Instr::Index { dst, a, idx: *index as u32, static_ty });
      }
      Statement::Call { callee, arguments, return_type, return_collector } => {
        if let Type::Id(id) = return_type {
          self.types.ensure(*id);
        }
        let args = self.opnds(arguments);
        let dst = return_collector.map(|c| self.slot(c));
        match callee {
          Callee::FunctionName(f) => {
            if let Some(b) = builtin_of(f.name) {
              self.code.push(Instr::CallBuiltin { b, args, dst });
            } else if let Some(i) = self.fn_index.get(&f.name) {
              self.code.push(Instr::CallFn { func: *i, args, dst });
            } else if f.name == FunctionName::BUILTIN_FREE
              || f.name == FunctionName::BUILTIN_INC_REF
              || f.name == FunctionName::BUILTIN_DEC_REF
            {
              self.code.push(Instr::Unsupported(
                format!("reference counting builtin {}", self.fn_display(&f.name)).into(),
              ));
            } else {
              self.code.push(Instr::Fault(
                format!("call of undefined function {}", self.fn_display(&f.name)).into(),
              ));
            }
          }
          Callee::Variable(v) => {
            let static_ty = v.type_.as_id().copied();
            if let Some(id) = static_ty {
              self.types.ensure(id);
            }
            let callee = self.slot(v.name);
            self.code.push(Instr::CallClosure { callee, static_ty, args, dst });
          }
        }
      }
      Statement::IfElse { condition, s1, s2, final_assignments } => {
        if s1.is_empty() && final_assignments.is_empty() {
          // replicate the wasm lowering: nothing at all if both arms are empty (the condition is
          // not even evaluated), otherwise `if (cond xor 1) { s2 }`
          if s2.is_empty() {
            return;
          }
          let c = self.opnd(condition);
          let j = self.code.len();
          self.code.push(Instr::JumpIfOne { c, t: 0 });
          self.block(s2);
          let end = self.here();
          self.patch(j, end);
          return;
        }
        let c = self.opnd(condition);
        let j_else = self.code.len();
        self.code.push(Instr::JumpIfZero { c, t: 0 });
        self.block(s1);
        for fa in final_assignments {
          let a = self.opnd(&fa.e1);
          let dst = self.slot(fa.name);
          self.code.push(Instr::Mov { dst, a });
        }
        let j_end = self.code.len();
        self.code.push(Instr::Jump(0));
        let else_at = self.here();
        self.patch(j_else, else_at);
        self.block(s2);
        for fa in final_assignments {
          let a = self.opnd(&fa.e2);
          let dst = self.slot(fa.name);
          self.code.push(Instr::Mov { dst, a });
        }
        let end = self.here();
        self.patch(j_end, end);
      }
      Statement::SingleIf { condition, invert_condition, statements } => {
        let c = self.opnd(condition);
        let j = self.code.len();
        if *invert_condition {
          self.code.push(Instr::JumpIfOne { c, t: 0 });
        } else {
          self.code.push(Instr::JumpIfZero { c, t: 0 });
        }
        self.block(statements);
        let end = self.here();
        self.patch(j, end);
      }
      Statement::Break(e) => {
        let Some(collector) = self.loops.last().map(|l| l.collector) else {
          // wasm lowering: self.loop_cx.as_ref().unwrap() panics
          self.code.push(Instr::Fault("break outside of a loop".into()));
          return;
        };
        if let Some(dst) = collector {
          let a = self.opnd(e);
          self.code.push(Instr::Mov { dst, a });
        }
        let j = self.code.len();
        self.code.push(Instr::Jump(0));
        self.loops.last_mut().unwrap().break_patches.push(j);
      }
      Statement::While { loop_variables, statements, break_collector } => {
        for lv in loop_variables {
          let a = self.opnd(&lv.initial_value);
          let dst = self.slot(lv.name);
          self.code.push(Instr::Mov { dst, a });
        }
        let collector = break_collector.map(|c| self.slot(c.name));
        self.code.push(Instr::LoopEnter);
        let head = self.here();
        self.loops.push(LoopCx { collector, break_patches: Vec::new() });
        self.block(statements);
        // The MIR `While` is parallel by definition (loop variables are SSA phis): all loop values
        // read the values of the finished iteration, then all loop variables are updated.
        let mut staged: Vec<(u32, u32)> = Vec::new();
        for lv in loop_variables {
          let a = self.opnd(&lv.loop_value);
          let scratch = self.slot_names.len() as u32;
          self.slot_names.push(lv.name);
          self.code.push(Instr::Mov { dst: scratch, a });
          staged.push((self.slot(lv.name), scratch));
        }
        for (dst, scratch) in staged {
          self.code.push(Instr::Mov { dst, a: Opnd::Slot(scratch) });
        }
        self.code.push(Instr::LoopBack(head));
        let cx = self.loops.pop().unwrap();
        let exit = self.here();
        for p in cx.break_patches {
          self.patch(p, exit);
        }
      }
      Statement::Cast { name, type_, assigned_expression } => {
        if let Type::Id(id) = type_ {
          self.types.ensure(*id);
        }
        let a = self.opnd(assigned_expression);
        let dst = self.slot(*name);
        self.code.push(Instr::Cast { dst, ty: *type_, a });
      }
      Statement::LateInitDeclaration { name, type_ } => {
        if let Type::Id(id) = type_ {
          self.types.ensure(*id);
        }
        let dst = self.slot(*name);
        self.code.push(Instr::Undef { dst });
      }
      Statement::LateInitAssignment { name, assigned_expression } => {
        let a = self.opnd(assigned_expression);
        let dst = self.slot(*name);
        self.code.push(Instr::Mov { dst, a });
      }
      Statement::StructInit { struct_variable_name, type_name, expression_list } => {
        self.types.ensure(*type_name);
        let mut fields = self.opnds(expression_list);
        if let Some(ts) = self.types.field_types(*type_name) {
          if ts.len() != fields.len() {
            // struct.new with the wrong operand count does not validate
            self.code.push(Instr::Fault(
              format!(
                "StructInit of {} with {} values, the type has {} fields",
                type_name.encoded_for_test(self.heap, &self.sources.symbol_table),
                fields.len(),
                ts.len()
              )
              .into(),
            ));
          }
          // wasm lowering: a literal 0 stored into a reference-typed field becomes (ref.i31 0)
          for (f, t) in fields.iter_mut().zip(ts.iter()) {
            if matches!(f, Opnd::Int(0)) && *t != Type::Int32 {
              *f = Opnd::I31(0);
            }
          }
        } else if matches!(self.types.map.get(type_name), Some(TypeInfo::Sub { .. })) {
          // parent unknown or variant not boxed
          if let Some(TypeInfo::Sub { parent, .. }) = self.types.map.get(type_name) {
            if self.types.map.contains_key(parent) {
              self.code.push(Instr::Fault(
                format!(
                  "StructInit of {} which is not a boxed variant of its enum",
                  type_name.encoded_for_test(self.heap, &self.sources.symbol_table)
                )
                .into(),
              ));
            }
          }
        } else if matches!(
          self.types.map.get(type_name),
          Some(TypeInfo::Enum(_)) | Some(TypeInfo::Closure(..))
        ) {
          self.code.push(Instr::Fault(
            format!(
              "StructInit of non-struct type {}",
              type_name.encoded_for_test(self.heap, &self.sources.symbol_table)
            )
            .into(),
          ));
        }
        let dst = self.slot(*struct_variable_name);
        self.code.push(Instr::StructInit { dst, ty: *type_name, fields });
      }
      Statement::ClosureInit { closure_variable_name, closure_type_name, function_name, context } => {
        self.types.ensure(*closure_type_name);
        let ctx = self.opnd(context);
        let dst = self.slot(*closure_variable_name);
        if let Some(i) = self.fn_index.get(&function_name.name) {
          self.code.push(Instr::ClosureInit { dst, ty: *closure_type_name, func: *i, ctx });
        } else if builtin_of(function_name.name).is_some() {
          self.code.push(Instr::Unsupported(
            format!("closure over builtin {}", self.fn_display(&function_name.name)).into(),
          ));
        } else {
          self.code.push(Instr::Fault(
            format!("closure over undefined function {}", self.fn_display(&function_name.name))
              .into(),
          ));
        }
      }
    }
  }
}

impl<'a> Program<'a> {
  /// compile every function of `sources` into the flat form (cheap: a few ms for the whole
  /// repository test project); reuse the `Program` when running many functions of one `Sources`
  pub fn new(heap: &'a Heap, sources: &'a mir::Sources) -> Program<'a> {
    let mut types = TypeTable { heap, symbols: &sources.symbol_table, map: HashMap::new() };
    for d in &sources.type_definitions {
      let info = match &d.mappings {
        TypeDefinitionMappings::Struct(ts) => TypeInfo::Struct(ts.clone()),
        TypeDefinitionMappings::Enum(vs) => TypeInfo::Enum(vs.clone()),
      };
      types.map.insert(d.name, info);
    }
    // closure types after the enums are known (lowering of enum-with-i31 types to `eq`)
    for c in &sources.closure_types {
      let mut args = vec![LT::Eq];
      args.extend(c.function_type.argument_types.iter().map(|t| types.lower(*t)));
      let ret = types.lower(*c.function_type.return_type);
      types.map.insert(c.name, TypeInfo::Closure(args, ret));
    }
    let mut fn_index = HashMap::new();
    for (i, f) in sources.functions.iter().enumerate() {
      fn_index.entry(f.name).or_insert(i as u32);
    }
    let mut str_index = HashMap::new();
    let mut strings = Vec::new();
    for g in &sources.global_variables {
      let s = g.0;
      str_index.entry(s).or_insert_with(|| {
        strings.push(Rc::new(StrObj(s.as_str(heap).into(), false)));
        (strings.len() - 1) as u32
      });
    }
    let mut funcs = Vec::with_capacity(sources.functions.len());
    for f in &sources.functions {
      let mut c = FnCompiler {
        heap,
        sources,
        types: &mut types,
        fn_index: &fn_index,
        str_index: &str_index,
        slots: HashMap::new(),
        slot_names: Vec::new(),
        code: Vec::new(),
        loops: Vec::new(),
      };
      for p in &f.parameters {
        // duplicate parameter names would alias; keep positional slots regardless
        let s = c.slot_names.len() as u32;
        c.slots.insert(*p, s);
        c.slot_names.push(*p);
      }
      for t in f.type_.argument_types.iter().chain(std::iter::once(&*f.type_.return_type)) {
        if let Type::Id(id) = t {
          c.types.ensure(*id);
        }
      }
      c.block(&f.body);
      let r = c.opnd(&f.return_value);
      c.code.push(Instr::Return(r));
      let FnCompiler { slot_names, code, .. } = c;
      let closure_sig = if f.type_.argument_types.is_empty() {
        None
      } else {
        let mut args = vec![LT::Eq];
        args.extend(f.type_.argument_types.iter().skip(1).map(|t| types.lower(*t)));
        Some((args, types.lower(*f.type_.return_type)))
      };
      funcs.push(CFunc {
        n_params: f.parameters.len(),
        n_slots: slot_names.len(),
        code,
        slot_names,
        closure_sig,
      });
    }
    Program { heap, sources, funcs, strings, types, options: Options::default() }
  }

  pub fn with_options(mut self, options: Options) -> Program<'a> {
    self.options = options;
    self
  }

  /// encoded name (as in the emitted wasm / TS) of function `index`
  pub fn function_name(&self, index: usize) -> String {
    match self.sources.functions.get(index) {
      Some(f) => f.name.encoded_for_test(self.heap, &self.sources.symbol_table),
      None => format!("<function #{index}>"),
    }
  }

  /// index of `Main.main` of `entry` (the name `compile_sources` exports for that module)
  pub fn find_main(&self, entry: ModuleReference) -> Option<usize> {
    let expected =
      format!("_{}_{}${}", entry.encoded(self.heap), PStr::MAIN_TYPE.as_str(self.heap), "main");
    self.sources.functions.iter().position(|f| {
      f.name.fn_name == PStr::MAIN_FN
        && f.name.encoded_for_test(self.heap, &self.sources.symbol_table) == expected
    })
  }

  pub fn run_main(&self, entry: ModuleReference, limits: &Limits) -> (Trace, MirStats) {
    let Some(idx) = self.find_main(entry) else {
      return (
        Trace::harness(format!(
          "no Main.main for module {} in the MIR sources",
          entry.pretty_print(self.heap)
        )),
        MirStats::default(),
      );
    };
    let (t, _, s) = self.run_function(idx, &[], limits);
    (t, s)
  }

  pub fn run_function(
    &self,
    function_index: usize,
    int_args: &[i32],
    limits: &Limits,
  ) -> (Trace, Option<i32>, MirStats) {
    let Some(f) = self.funcs.get(function_index) else {
      return (
        Trace::harness(format!("function index {function_index} out of range")),
        None,
        MirStats::default(),
      );
    };
    if f.n_params != int_args.len() {
      return (
        Trace::harness(format!(
          "{} takes {} parameters, {} integer arguments supplied",
          self.function_name(function_index),
          f.n_params,
          int_args.len()
        )),
        None,
        MirStats::default(),
      );
    }
    let mut m = Machine {
      prog: self,
      limits: *limits,
      stack: Vec::new(),
      frames: Vec::new(),
      lines: Vec::new(),
      ub: UbFlags::default(),
      stats: MirStats::default(),
      scratch: Vec::new(),
      extra_steps: 0,
    };
    LIVE.with(|c| c.set(0));
    let (ending, result) = m.run(function_index as u32, int_args);
    let result = match result {
      Some(Value::Int(i)) | Some(Value::I31(i)) => Some(i),
      _ => None,
    };
    let stats = m.stats.clone();
    let trace = Trace { lines: std::mem::take(&mut m.lines), ending, ub: m.ub.clone(), steps: stats.steps };
    // free what is left iteratively
    let mut rest = std::mem::take(&mut m.stack);
    release(&mut rest);
    (trace, result, stats)
  }
}

// ------------------------------------------------------------------------------------------
// execution
// ------------------------------------------------------------------------------------------

struct Frame {
  func: u32,
  pc: u32,
  base: usize,
  dst: Option<u32>,
}

struct Machine<'p, 'a> {
  prog: &'p Program<'a>,
  limits: Limits,
  stack: Vec<Value>,
  /// suspended callers
  frames: Vec<Frame>,
  lines: Vec<String>,
  ub: UbFlags,
  stats: MirStats,
  scratch: Vec<Value>,
  /// steps charged by builtins for work proportional to data size
  extra_steps: u64,
}

fn fault(kind: impl Into<String>) -> Ending {
  Ending::Fault { kind: kind.into(), at: String::new() }
}

fn canonical_int_text(s: &str) -> bool {
  let digits = s.strip_prefix('-').unwrap_or(s);
  if digits.is_empty() || !digits.bytes().all(|b| b.is_ascii_digit()) {
    return false;
  }
  if digits.len() > 1 && digits.starts_with('0') {
    return false;
  }
  if s == "-0" {
    return false;
  }
  s.parse::<i32>().is_ok()
}

impl<'p, 'a> Machine<'p, 'a> {
  #[inline]
  fn undef_fault(&self, func: u32, slot: u32) -> Ending {
    let f = &self.prog.funcs[func as usize];
    let n = f.slot_names.get(slot as usize).map(|n| n.as_str(self.prog.heap)).unwrap_or("?");
    fault(format!("read of undefined variable {n}"))
  }

  #[inline]
  fn val(&self, func: u32, base: usize, o: Opnd) -> Result<Value, Ending> {
    match o {
      Opnd::Int(i) => Ok(Value::Int(i)),
      Opnd::I31(i) => Ok(Value::I31(i)),
      Opnd::Str(i) => Ok(Value::Str(self.prog.strings[i as usize].clone())),
      Opnd::Slot(s) => match &self.stack[base + s as usize] {
        Value::Undef => Err(self.undef_fault(func, s)),
        v => Ok(v.clone()),
      },
    }
  }

  #[inline]
  fn int(&self, func: u32, base: usize, o: Opnd, what: &str) -> Result<i32, Ending> {
    match o {
      Opnd::Int(i) => Ok(i),
      Opnd::Slot(s) => match &self.stack[base + s as usize] {
        Value::Int(i) => Ok(*i),
        Value::Undef => Err(self.undef_fault(func, s)),
        v => Err(fault(format!("{what}: expected i32, found {}", v.kind()))),
      },
      Opnd::I31(_) => Err(fault(format!("{what}: expected i32, found i31"))),
      Opnd::Str(_) => Err(fault(format!("{what}: expected i32, found string"))),
    }
  }

  #[inline]
  fn try_int(&self, base: usize, o: Opnd) -> Option<i32> {
    match o {
      Opnd::Int(i) => Some(i),
      Opnd::Slot(s) => match &self.stack[base + s as usize] {
        Value::Int(i) => Some(*i),
        _ => None,
      },
      _ => None,
    }
  }

  /// `ref.eq` / `i32.eq` on two values; mixing an i32 with a reference does not validate
  fn ref_eq(a: &Value, b: &Value) -> Result<bool, Ending> {
    Ok(match (a, b) {
      (Value::Int(x), Value::Int(y)) => x == y,
      (Value::Int(_), _) | (_, Value::Int(_)) => {
        return Err(fault(format!("== between {} and {}", a.kind(), b.kind())));
      }
      (Value::I31(x), Value::I31(y)) => x == y,
      (Value::Str(x), Value::Str(y)) => Rc::ptr_eq(x, y),
      (Value::Struct(x), Value::Struct(y)) => Rc::ptr_eq(x, y),
      (Value::Closure(x), Value::Closure(y)) => Rc::ptr_eq(x, y),
      (Value::Vec(x), Value::Vec(y)) => Rc::ptr_eq(x, y),
      _ => false,
    })
  }

  /// element comparison of `Vec.eq`: every element is a `(ref null eq)`, ints are i31-boxed
  fn elem_eq(a: &Value, b: &Value) -> bool {
    match (a, b) {
      (Value::Int(x) | Value::I31(x), Value::Int(y) | Value::I31(y)) => x == y,
      _ => Self::ref_eq(a, b).unwrap_or(false),
    }
  }

  fn arith(&mut self, op: Op, x: i32, y: i32) -> Result<i32, Ending> {
    Ok(match op {
      Op::PLUS => {
        let (r, o) = x.overflowing_add(y);
        self.ub.overflow |= o;
        r
      }
      Op::MINUS => {
        let (r, o) = x.overflowing_sub(y);
        self.ub.overflow |= o;
        r
      }
      Op::MUL => {
        let (r, o) = x.overflowing_mul(y);
        self.ub.overflow |= o;
        r
      }
      Op::DIV => {
        if y == 0 {
          self.ub.div_zero = true;
          return Err(Ending::ArithTrap("integer divide by zero".into()));
        }
        if x == i32::MIN && y == -1 {
          self.ub.div_zero = true;
          return Err(Ending::ArithTrap("integer overflow".into()));
        }
        x / y
      }
      Op::MOD => {
        if y == 0 {
          self.ub.div_zero = true;
          return Err(Ending::ArithTrap("integer divide by zero".into()));
        }
        if x == i32::MIN && y == -1 {
          // i32.rem_s does not trap here, the result is 0
          self.ub.div_zero = true;
          0
        } else {
          x % y
        }
      }
      Op::LAND => x & y,
      Op::LOR => x | y,
      Op::XOR => x ^ y,
      Op::SHL => x.wrapping_shl(y as u32),
      Op::SHR => ((x as u32).wrapping_shr(y as u32)) as i32,
      Op::LT => (x < y) as i32,
      Op::LE => (x <= y) as i32,
      Op::GT => (x > y) as i32,
      Op::GE => (x >= y) as i32,
      Op::EQ => (x == y) as i32,
      Op::NE => (x != y) as i32,
    })
  }

  fn new_str(&mut self, s: String) -> Result<Value, Ending> {
    if s.len() > MAX_STRING_BYTES {
      return Err(Ending::StepLimit);
    }
    live_add(s.len() + 32);
    if live_exceeded() {
      return Err(Ending::StepLimit);
    }
    // copying is charged: 1 step per 16 bytes
    self.extra_steps += (s.len() / 16) as u64;
    Ok(Value::Str(Rc::new(StrObj(s.into_boxed_str(), true))))
  }

  fn want_str<'v>(v: &'v Value, what: &str) -> Result<&'v str, Ending> {
    match v {
      Value::Str(s) => Ok(&s.0),
      v => Err(fault(format!("{what}: expected string, found {}", v.kind()))),
    }
  }

  fn want_vec<'v>(v: &'v Value, what: &str) -> Result<&'v Rc<VecObj>, Ending> {
    match v {
      Value::Vec(o) => Ok(o),
      v => Err(fault(format!("{what}: expected Vec, found {}", v.kind()))),
    }
  }

  fn want_int(v: &Value, what: &str) -> Result<i32, Ending> {
    match v {
      Value::Int(i) => Ok(*i),
      v => Err(fault(format!("{what}: expected i32, found {}", v.kind()))),
    }
  }

  fn elem_in(&self, v: Value) -> Value {
    match v {
      Value::Int(i) if self.prog.options.vec_int_i31_truncation => Value::Int((i << 1) >> 1),
      v => v,
    }
  }

  /// the Vec growth policy of libsam.wat `$__Vec$reserve`
  fn vec_reserve(inner: &mut VecInner, min: i32) {
    if min <= inner.cap {
      return;
    }
    let mut new_cap = inner.cap.wrapping_shl(1);
    if new_cap < min {
      new_cap = min;
    }
    if new_cap < 4 {
      new_cap = 4;
    }
    inner.cap = new_cap;
  }

  /// arguments are in `self.scratch`
  fn builtin(&mut self, b: Builtin) -> Result<Value, Ending> {
    let mut args = std::mem::take(&mut self.scratch);
    let r = self.builtin_inner(b, &mut args);
    args.clear();
    self.scratch = args;
    r
  }

  fn builtin_inner(&mut self, b: Builtin, args: &mut [Value]) -> Result<Value, Ending> {
    let what = b.name();
    match b {
      Builtin::Println => {
        let s = Self::want_str(&args[1], what)?;
        if self.lines.len() >= self.limits.max_lines {
          return Err(Ending::StepLimit);
        }
        self.lines.push(s.to_string());
        Ok(Value::Int(0))
      }
      Builtin::Panic => {
        let s = Self::want_str(&args[1], what)?;
        Err(Ending::Panic(s.to_string()))
      }
      Builtin::StrFromInt => {
        let i = Self::want_int(&args[1], what)?;
        self.new_str(i.to_string())
      }
      Builtin::StrToInt => {
        let s = Self::want_str(&args[0], what)?;
        if !canonical_int_text(s) {
          self.ub.bad_to_int = true;
        }
        let bytes = s.as_bytes();
        if bytes.is_empty() {
          // libsam.wat reads byte 0 unconditionally: array.get_s out of bounds
          return Err(fault("Str.toInt on the empty string (array access out of bounds in libsam)"));
        }
        let neg = bytes[0] == b'-';
        let mut num: i32 = 0;
        for &c in &bytes[neg as usize..] {
          if c.wrapping_sub(48) > 9 {
            return Ok(Value::Int(0));
          }
          num = num.wrapping_mul(10).wrapping_add((c as i8) as i32).wrapping_add(-48);
        }
        Ok(Value::Int(if neg { 0i32.wrapping_sub(num) } else { num }))
      }
      Builtin::StrConcat => {
        let a = Self::want_str(&args[0], what)?;
        let b = Self::want_str(&args[1], what)?;
        if a.len() + b.len() > MAX_STRING_BYTES {
          return Err(Ending::StepLimit);
        }
        let mut s = String::with_capacity(a.len() + b.len());
        s.push_str(a);
        s.push_str(b);
        self.new_str(s)
      }
      Builtin::StrEq => {
        let a = Self::want_str(&args[0], what)?;
        let b = Self::want_str(&args[1], what)?;
        Ok(Value::Int((a == b) as i32))
      }
      Builtin::VecEmpty => Ok(Value::Vec(Rc::new(VecObj {
        inner: RefCell::new(VecInner { data: Vec::new(), acct: 0, cap: 0 }),
      }))),
      Builtin::VecWithCapacity => {
        let cap = Self::want_int(&args[1], what)?;
        if cap < 0 {
          return Err(fault("Vec.withCapacity with a negative capacity (array.new traps)"));
        }
        if cap as usize > MAX_VEC_LEN {
          return Err(Ending::StepLimit);
        }
        Ok(Value::Vec(Rc::new(VecObj {
          inner: RefCell::new(VecInner { data: Vec::new(), acct: 0, cap }),
        })))
      }
      Builtin::VecOf => {
        let v = self.elem_in(std::mem::replace(&mut args[1], Value::Undef));
        live_add(16);
        Ok(Value::Vec(Rc::new(VecObj {
          inner: RefCell::new(VecInner { data: vec![v], acct: 1, cap: 1 }),
        })))
      }
      Builtin::VecLength => {
        let v = Self::want_vec(&args[0], what)?;
        let n = v.inner.borrow().data.len() as i32;
        Ok(Value::Int(n))
      }
      Builtin::VecCapacity => {
        let v = Self::want_vec(&args[0], what)?;
        self.ub.capacity_observed = true;
        let n = v.inner.borrow().cap;
        Ok(Value::Int(n))
      }
      Builtin::VecReserve => {
        let v = Self::want_vec(&args[0], what)?;
        let min = Self::want_int(&args[1], what)?;
        if min > 0 && min as usize > MAX_VEC_LEN {
          return Err(Ending::StepLimit);
        }
        Self::vec_reserve(&mut v.inner.borrow_mut(), min);
        Ok(Value::Int(0))
      }
      Builtin::VecPush => {
        let e = self.elem_in(std::mem::replace(&mut args[1], Value::Undef));
        let v = Self::want_vec(&args[0], what)?;
        let mut inner = v.inner.borrow_mut();
        if inner.data.len() >= MAX_VEC_LEN {
          return Err(Ending::StepLimit);
        }
        let need = inner.data.len() as i32 + 1;
        Self::vec_reserve(&mut inner, need);
        inner.data.push(e);
        inner.acct += 1;
        live_add(16);
        if live_exceeded() {
          return Err(Ending::StepLimit);
        }
        Ok(Value::Int(0))
      }
      Builtin::VecPop => {
        let v = Self::want_vec(&args[0], what)?;
        let popped = {
          let mut inner = v.inner.borrow_mut();
          let p = inner.data.pop();
          if p.is_some() && inner.acct > 0 {
            inner.acct -= 1;
            live_sub(16);
          }
          p
        };
        match popped {
          Some(e) => Ok(e),
          None => Err(Ending::VecBounds),
        }
      }
      Builtin::VecGet => {
        let v = Self::want_vec(&args[0], what)?;
        let i = Self::want_int(&args[1], what)?;
        let inner = v.inner.borrow();
        if (i as u32) as usize >= inner.data.len() {
          return Err(Ending::VecBounds);
        }
        Ok(inner.data[i as usize].clone())
      }
      Builtin::VecSet => {
        let e = self.elem_in(std::mem::replace(&mut args[2], Value::Undef));
        let v = Self::want_vec(&args[0], what)?;
        let i = Self::want_int(&args[1], what)?;
        let mut inner = v.inner.borrow_mut();
        if (i as u32) as usize >= inner.data.len() {
          return Err(Ending::VecBounds);
        }
        inner.data[i as usize] = e;
        Ok(Value::Int(0))
      }
      Builtin::VecEq => {
        let a = Self::want_vec(&args[0], what)?;
        let b = Self::want_vec(&args[1], what)?;
        if Rc::ptr_eq(a, b) {
          return Ok(Value::Int(1));
        }
        let (a, b) = (a.inner.borrow(), b.inner.borrow());
        if a.data.len() != b.data.len() {
          return Ok(Value::Int(0));
        }
        let all = a.data.iter().zip(b.data.iter()).all(|(x, y)| Self::elem_eq(x, y));
        Ok(Value::Int(all as i32))
      }
      Builtin::UnwrapI31 => match &args[0] {
        Value::I31(i) => Ok(Value::Int(*i)),
        v => Err(fault(format!("unwrapI31: expected i31, found {}", v.kind()))),
      },
    }
  }

  fn is_pointer(&self, v: &Value, ty: TypeNameId) -> Result<bool, Ending> {
    Ok(match v {
      Value::Int(_) => return Err(fault("pointer test (ref.test) on an i32")),
      Value::Undef => unreachable!(),
      Value::I31(_) => false,
      Value::Str(_) => ty == TypeNameId::STR,
      Value::Vec(_) => ty == TypeNameId::VEC,
      Value::Closure(c) => c.ty == ty,
      Value::Struct(o) => o.ty == ty || self.prog.types.parent_of(o.ty) == Some(ty),
    })
  }

  fn type_display(&self, t: Type) -> String {
    t.pretty_print(self.prog.heap, &self.prog.sources.symbol_table)
  }

  fn value_display(&self, v: &Value) -> String {
    match v {
      Value::Struct(o) => format!("struct {}", self.type_display(Type::Id(o.ty))),
      Value::Closure(o) => format!("closure {}", self.type_display(Type::Id(o.ty))),
      Value::I31(i) => format!("i31 {i}"),
      v => v.kind().to_string(),
    }
  }

  /// returns the ending and, on a normal return of the entry function, its value
  fn run(&mut self, entry: u32, int_args: &[i32]) -> (Ending, Option<Value>) {
    let prog = self.prog;
    let mut func = entry;
    let mut pc: usize = 0;
    let mut base: usize = 0;
    self.stack.resize(prog.funcs[entry as usize].n_slots, Value::Undef);
    for (i, a) in int_args.iter().enumerate() {
      self.stack[i] = Value::Int(*a);
    }
    self.stats.calls = 1;
    self.stats.max_depth = 1;
    if self.limits.max_depth < 1 {
      return (Ending::StackExhausted, None);
    }
    let max_steps = self.limits.max_steps;
    let mut steps: u64 = 0;

    macro_rules! bail {
      ($e:expr) => {{
        let mut e: Ending = $e;
        if let Ending::Fault { at, .. } = &mut e {
          *at = prog.function_name(func as usize);
        }
        self.stats.steps = steps;
        return (e, None);
      }};
    }
    macro_rules! tri {
      ($e:expr) => {
        match $e {
          Ok(v) => v,
          Err(e) => bail!(e),
        }
      };
    }

    let mut code: &[Instr] = &prog.funcs[func as usize].code;
    loop {
      let instr = &code[pc];
      pc += 1;
      steps += 1;
      if steps > max_steps {
        bail!(Ending::StepLimit);
      }
      match instr {
        Instr::Binary { dst, op, a, b, str_cmp } => {
          // `x + 0` is the IR's move idiom (the inliner binds a callee's return value with it,
          // "will be optimized away eventually"): for a non-int operand it moves the value
          if *op == Op::PLUS && matches!(self.try_int(base, *b), Some(0)) && self.try_int(base, *a).is_none() {
            let va = tri!(self.val(func, base, *a));
            self.stack[base + *dst as usize] = va;
            continue;
          }
          let r = if let (Some(x), Some(y)) = (self.try_int(base, *a), self.try_int(base, *b)) {
            tri!(self.arith(*op, x, y))
          } else if matches!(op, Op::EQ | Op::NE) {
            let va = tri!(self.val(func, base, *a));
            let vb = tri!(self.val(func, base, *b));
            let eq = if *str_cmp {
              let x = tri!(Self::want_str(&va, "string =="));
              let y = tri!(Self::want_str(&vb, "string =="));
              x == y
            } else {
              tri!(Self::ref_eq(&va, &vb))
            };
            (eq == (*op == Op::EQ)) as i32
          } else {
            let x = tri!(self.int(func, base, *a, op.as_str()));
            let y = tri!(self.int(func, base, *b, op.as_str()));
            tri!(self.arith(*op, x, y))
          };
          self.stack[base + *dst as usize] = Value::Int(r);
        }
        Instr::Not { dst, a } => {
          let x = tri!(self.int(func, base, *a, "!"));
          self.stack[base + *dst as usize] = Value::Int(x ^ 1);
        }
        Instr::IsPointer { dst, ty, a } => {
          let v = tri!(self.val(func, base, *a));
          let r = tri!(self.is_pointer(&v, *ty));
          self.stack[base + *dst as usize] = Value::Int(r as i32);
        }
        Instr::Index { dst, a, idx, static_ty } => {
          let v = tri!(self.val(func, base, *a));
          let r = match &v {
            Value::Struct(o) => {
              if let Some(st) = static_ty {
                let ok = match prog.types.map.get(st) {
                  None => true,
                  Some(TypeInfo::Struct(_)) | Some(TypeInfo::Sub { .. }) => o.ty == *st,
                  // only the tag of a boxed variant can be read through the enum type
                  Some(TypeInfo::Enum(_)) => prog.types.parent_of(o.ty) == Some(*st) && *idx == 0,
                  Some(TypeInfo::Closure(..)) => false,
                };
                if !ok {
                  bail!(fault(format!(
                    "field {} read through type {} on a {}",
                    idx,
                    self.type_display(Type::Id(*st)),
                    self.value_display(&v)
                  )));
                }
              }
              match o.fields.get(*idx as usize) {
                Some(f) => f.clone(),
                None => bail!(fault(format!(
                  "field index {} out of range for {} with {} fields",
                  idx,
                  self.value_display(&v),
                  o.fields.len()
                ))),
              }
            }
            other => bail!(fault(format!("field {} read on a {}", idx, self.value_display(other)))),
          };
          self.stack[base + *dst as usize] = r;
        }
        Instr::Mov { dst, a } => {
          let v = tri!(self.val(func, base, *a));
          self.stack[base + *dst as usize] = v;
        }
        Instr::Undef { dst } => {
          self.stack[base + *dst as usize] = Value::Undef;
        }
        Instr::Cast { dst, ty, a } => {
          let v = tri!(self.val(func, base, *a));
          if !prog.types.value_matches(&v, *ty) {
            bail!(fault(format!(
              "cast of a {} to {}",
              self.value_display(&v),
              self.type_display(*ty)
            )));
          }
          self.stack[base + *dst as usize] = v;
        }
        Instr::StructInit { dst, ty, fields } => {
          let mut fs = Vec::with_capacity(fields.len());
          for f in fields.iter() {
            fs.push(tri!(self.val(func, base, *f)));
          }
          self.stack[base + *dst as usize] = Value::Struct(Rc::new(StructObj::new(*ty, fs)));
          if live_exceeded() {
            bail!(Ending::StepLimit);
          }
        }
        Instr::ClosureInit { dst, ty, func: target, ctx } => {
          let ctx = tri!(self.val(func, base, *ctx));
          self.stack[base + *dst as usize] =
            Value::Closure(Rc::new(ClosureObj { ty: *ty, func: *target, ctx }));
        }
        Instr::CallBuiltin { b, args, dst } => {
          if args.len() != b.arity() {
            bail!(fault(format!(
              "{} called with {} arguments, expects {}",
              b.name(),
              args.len(),
              b.arity()
            )));
          }
          self.scratch.clear();
          for a in args.iter() {
            let v = tri!(self.val(func, base, *a));
            self.scratch.push(v);
          }
          let r = tri!(self.builtin(*b));
          steps += std::mem::take(&mut self.extra_steps);
          if let Some(d) = dst {
            self.stack[base + *d as usize] = r;
          }
        }
        Instr::CallFn { func: target, args, dst } => {
          let callee = &prog.funcs[*target as usize];
          if args.len() != callee.n_params {
            bail!(fault(format!(
              "{} called with {} arguments, has {} parameters",
              prog.function_name(*target as usize),
              args.len(),
              callee.n_params
            )));
          }
          if self.frames.len() + 1 >= self.limits.max_depth {
            bail!(Ending::StackExhausted);
          }
          let new_base = self.stack.len();
          self.stack.resize(new_base + callee.n_slots, Value::Undef);
          for (i, a) in args.iter().enumerate() {
            let v = match self.val(func, base, *a) {
              Ok(v) => v,
              Err(e) => bail!(e),
            };
            self.stack[new_base + i] = v;
          }
          self.frames.push(Frame { func, pc: pc as u32, base, dst: *dst });
          self.stats.calls += 1;
          if self.frames.len() + 1 > self.stats.max_depth {
            self.stats.max_depth = self.frames.len() + 1;
          }
          func = *target;
          code = &callee.code;
          pc = 0;
          base = new_base;
        }
        Instr::CallClosure { callee, static_ty, args, dst } => {
          let cv = tri!(self.val(func, base, Opnd::Slot(*callee)));
          let Value::Closure(c) = &cv else {
            bail!(fault(format!("call of a {} (not a closure)", self.value_display(&cv))));
          };
          let target = c.func;
          let cf = &prog.funcs[target as usize];
          if args.len() + 1 != cf.n_params {
            bail!(fault(format!(
              "indirect call of {} with {}+1 arguments, has {} parameters",
              prog.function_name(target as usize),
              args.len(),
              cf.n_params
            )));
          }
          // call_indirect checks the function's type against the static closure type
          match static_ty.and_then(|t| prog.types.map.get(&t)) {
            Some(TypeInfo::Closure(want_args, want_ret)) => {
              let ok = match &cf.closure_sig {
                Some((have_args, have_ret)) => have_args == want_args && have_ret == want_ret,
                None => false,
              };
              if !ok {
                bail!(fault(format!(
                  "indirect call signature mismatch: {} called through closure type {}",
                  prog.function_name(target as usize),
                  self.type_display(Type::Id(static_ty.unwrap()))
                )));
              }
            }
            _ => {
              // the LIR lowering looks the closure type up and unwraps
              bail!(fault(format!(
                "callee variable has type {} which is not a closure type",
                match static_ty {
                  Some(t) => self.type_display(Type::Id(*t)),
                  None => "<non-id>".to_string(),
                }
              )));
            }
          }
          if self.frames.len() + 1 >= self.limits.max_depth {
            bail!(Ending::StackExhausted);
          }
          let new_base = self.stack.len();
          self.stack.resize(new_base + cf.n_slots, Value::Undef);
          self.stack[new_base] = c.ctx.clone();
          for (i, a) in args.iter().enumerate() {
            let v = match self.val(func, base, *a) {
              Ok(v) => v,
              Err(e) => bail!(e),
            };
            self.stack[new_base + 1 + i] = v;
          }
          self.frames.push(Frame { func, pc: pc as u32, base, dst: *dst });
          self.stats.calls += 1;
          if self.frames.len() + 1 > self.stats.max_depth {
            self.stats.max_depth = self.frames.len() + 1;
          }
          func = target;
          code = &cf.code;
          pc = 0;
          base = new_base;
        }
        Instr::Jump(t) => pc = *t as usize,
        Instr::JumpIfZero { c, t } => {
          let x = tri!(self.int(func, base, *c, "condition"));
          if x == 0 {
            pc = *t as usize;
          }
        }
        Instr::JumpIfOne { c, t } => {
          let x = tri!(self.int(func, base, *c, "condition"));
          if x ^ 1 == 0 {
            pc = *t as usize;
          }
        }
        Instr::LoopEnter => {
          self.stats.loop_iterations += 1;
        }
        Instr::LoopBack(t) => {
          self.stats.loop_iterations += 1;
          pc = *t as usize;
        }
        Instr::Return(o) => {
          let v = tri!(self.val(func, base, *o));
          // (the Drop impls of the heap objects are iterative, long chains are fine)
          self.stack.truncate(base);
          match self.frames.pop() {
            None => {
              self.stats.steps = steps;
              return (Ending::Return, Some(v));
            }
            Some(fr) => {
              func = fr.func;
              code = &prog.funcs[func as usize].code;
              pc = fr.pc as usize;
              base = fr.base;
              if let Some(d) = fr.dst {
                self.stack[base + d as usize] = v;
              }
            }
          }
        }
        Instr::Fault(k) => bail!(fault(k.to_string())),
        Instr::Unsupported(k) => bail!(Ending::Harness(format!("unsupported: {k}"))),
      }
    }
  }
}

// ------------------------------------------------------------------------------------------
// public entry points
// ------------------------------------------------------------------------------------------

/// run `Main.main` of the given entry module
pub fn run_main(
  heap: &Heap,
  sources: &mir::Sources,
  entry_module: ModuleReference,
  limits: &Limits,
) -> (Trace, MirStats) {
  Program::new(heap, sources).run_main(entry_module, limits)
}

/// run any function by its index in `sources.functions` with integer arguments (pointers cannot
/// be supplied); returns the integer result if the return value is an int-like value (i32 / i31)
pub fn run_function(
  heap: &Heap,
  sources: &mir::Sources,
  function_index: usize,
  int_args: &[i32],
  limits: &Limits,
) -> (Trace, Option<i32>, MirStats) {
  Program::new(heap, sources).run_function(function_index, int_args, limits)
}
