// stub
