//! The observable of a program run, shared by every executor (reference interpreter, MIR
//! interpreter, WasmGC interpreter, erased-TS under node).

#[derive(Clone, Debug, PartialEq, Eq)]
pub enum Ending {
  /// main returned normally
  Return,
  /// Process.panic(msg)
  Panic(String),
  /// the documented Vec bounds panics (get / set / pop out of range)
  VecBounds,
  /// call stack exhausted by deep recursion (an allowed ending, compared as a class)
  StackExhausted,
  /// implementation-defined arithmetic trap (division / remainder by zero, INT_MIN / -1)
  ArithTrap(String),
  /// an engine-level fault: illegal cast, null reference, indirect-call signature mismatch,
  /// out-of-bounds access, unreachable outside the Vec helpers, JS TypeError/ReferenceError ...
  Fault { kind: String, at: String },
  /// a match that no arm handles (lowered fallback), when the executor can tell
  NoArmMatched,
  /// the executor's step budget ran out (inconclusive, never a violation on its own)
  StepLimit,
  /// the executor itself could not cope (unsupported construct, harness bug): inconclusive
  Harness(String),
}

#[derive(Clone, Debug, Default, PartialEq, Eq)]
pub struct UbFlags {
  /// some + - * or unary - left the 32-bit range (reference interpreter only)
  pub overflow: bool,
  /// some / or % had a zero divisor, or INT_MIN / -1
  pub div_zero: bool,
  /// toInt on a string that is not a canonical decimal numeral in range
  pub bad_to_int: bool,
  /// Vec.capacity() was observed (advisory value)
  pub capacity_observed: bool,
}

impl UbFlags {
  pub fn any(&self) -> bool {
    self.overflow || self.div_zero || self.bad_to_int || self.capacity_observed
  }
}

#[derive(Clone, Debug, PartialEq, Eq)]
pub struct Trace {
  pub lines: Vec<String>,
  pub ending: Ending,
  pub ub: UbFlags,
  pub steps: u64,
}

impl Trace {
  pub fn harness(msg: impl Into<String>) -> Trace {
    Trace { lines: vec![], ending: Ending::Harness(msg.into()), ub: UbFlags::default(), steps: 0 }
  }
  pub fn conclusive(&self) -> bool {
    !matches!(self.ending, Ending::StepLimit | Ending::Harness(_))
  }
  /// stdout text as node would have printed it
  pub fn stdout(&self) -> String {
    let mut s = String::new();
    for l in &self.lines {
      s.push_str(l);
      s.push('\n');
    }
    s
  }
}

#[derive(Clone, Copy, Debug)]
pub struct Limits {
  pub max_steps: u64,
  pub max_depth: usize,
  pub max_lines: usize,
}

impl Default for Limits {
  fn default() -> Limits {
    Limits { max_steps: 50_000_000, max_depth: 4000, max_lines: 100_000 }
  }
}
