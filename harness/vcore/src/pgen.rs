//! pgen: seeded generator of well-typed-by-construction, closed, deterministic, terminating samlang
//! programs (multi-module) that print a trace of their computation with `Process.println`.
//!
//! Design in one paragraph: the generator keeps its own small typed model (types [`Ty`], classes,
//! callables with *integer interval* contracts) and only ever emits an expression of a requested type
//! from what is in scope.  Every int expression carries a static interval ([`Iv`]); arithmetic whose
//! interval could leave the 32-bit range is either re-fitted with `% n` (allow_overflow = false) or its
//! interval is forgotten (= "any int").  Ints that travel through data (fields, payloads, tuple
//! components, closure parameters / results, generic `T`, Vec elements) obey the global invariant
//! |v| <= 9999 (`SMALL`), so reading them back needs no analysis.  Termination: non-scripted
//! callables may only call callables generated earlier (a DAG); recursion exists only in scripted
//! shapes (decreasing int counter with a base case, structural recursion over finite enum values,
//! bounded self-tail-recursive loops), and every callable has a cost estimate that caps fan-out.
//! Checker rules respected (found by experiment against the real front end) are listed at
//! `RULES` below.
//!
//! RULES (samlang checker / parser facts this generator relies on)
//!  * a local name may not be re-bound while a binding of the same name is in scope (params, outer
//!    blocks, lambda params, pattern bindings): all locals of a function get unique names;
//!  * class names, variant names (of any enum) and type parameter names share one namespace per
//!    module: all upper-case names are globally unique; method type parameters must differ from the
//!    class's type parameters;
//!  * struct patterns must mention every field (`f as _` is fine); tuple patterns must have full arity;
//!  * no literal patterns; `if let` needs a refutable pattern, `let` an irrefutable one;
//!  * `match` must be exhaustive; a redundant trailing `_` arm is accepted;
//!  * `if` / `match` / lambda need parentheses as operands of binary / unary operators;
//!  * a lambda needs parameter annotations when there is no expected type (plain `let f = ...`);
//!  * nullary generic constructors / functions need explicit type arguments (`Option.None<int>()`);
//!  * imports only at the top of a module; a `private` member is only reachable from inside its own
//!    class (the checker is stricter than the spec's "module private"): private callables are only
//!    called from their class, and each gets a public `...Pub` forwarder;
//!  * `a.b < c` is parsed as the start of explicit type arguments (`a.b<...>`): a left operand of `<`
//!    that ends in a field access is parenthesised;
//!  * `val` is a keyword (not usable as a field name);
//!  * no implicit widening to an interface type: interfaces are only usable as bounds;
//!  * function names must be lower-case identifiers; `self` & co are forbidden identifiers.
use crate::front::Project;
use crate::rng::Rng;
use std::collections::{BTreeMap, BTreeSet};

#[derive(Clone, Copy, Debug, PartialEq, Eq)]
pub enum StringPool {
  /// ASCII letters / digits / space / punctuation without backslash, quote, backtick, `$`
  Plain,
  /// adds escapes \n \t \\ \" \0, backtick, "${x}", non-ASCII, 15/16/17-byte lengths
  Nasty,
}

#[derive(Clone, Debug)]
pub struct GenConfig {
  pub max_modules: usize,
  pub max_classes: usize,
  pub max_fn_per_class: usize,
  pub max_expr_depth: usize,
  pub max_stmts: usize,
  pub loop_heavy: bool,
  pub enum_heavy: bool,
  pub string_pool: StringPool,
  pub allow_overflow: bool,
}

impl GenConfig {
  /// knobs varied by seed (independent stream from the one `generate` uses)
  pub fn default_for(seed: u64) -> GenConfig {
    let mut r = Rng::new(seed ^ 0xC0F1_6000_0000_0001);
    GenConfig {
      max_modules: r.range(1, 5) as usize,
      max_classes: r.range(2, 8) as usize,
      max_fn_per_class: r.range(1, 4) as usize,
      max_expr_depth: r.range(2, 4) as usize,
      max_stmts: r.range(6, 20) as usize,
      loop_heavy: r.chance(1, 4),
      enum_heavy: r.chance(1, 3),
      string_pool: if r.chance(1, 5) { StringPool::Nasty } else { StringPool::Plain },
      allow_overflow: r.chance(1, 5),
    }
  }
}

pub struct GenProgram {
  pub project: Project,
  pub entry: String,
  pub features: BTreeSet<String>,
  pub lines_expected_min: usize,
}

pub fn generate(seed: u64, cfg: &GenConfig) -> GenProgram {
  let mut g = G::new(seed, cfg);
  g.build();
  g.finish()
}

// -------------------------------------------------------------------------------------------------
// intervals
// -------------------------------------------------------------------------------------------------

const I32_MIN: i64 = -2147483648;
const I32_MAX: i64 = 2147483647;

#[derive(Clone, Copy, Debug, PartialEq, Eq)]
struct Iv {
  lo: i64,
  hi: i64,
}

/// invariant of every int stored in data / passed through function values / generic slots
const SMALL: Iv = Iv { lo: -9999, hi: 9999 };
/// what a result of + - * may be without being re-fitted (INT_MIN excluded: negation / division by -1 stay safe)
const SAFE: Iv = Iv { lo: -2147483647, hi: 2147483647 };
/// "any int" (only with allow_overflow)
const FULL: Iv = Iv { lo: I32_MIN, hi: I32_MAX };

impl Iv {
  fn new(lo: i64, hi: i64) -> Iv {
    Iv { lo: lo.min(hi), hi: hi.max(lo) }
  }
  fn pt(v: i64) -> Iv {
    Iv { lo: v, hi: v }
  }
  fn within(self, o: Iv) -> bool {
    self.lo >= o.lo && self.hi <= o.hi
  }
  fn hull(self, o: Iv) -> Iv {
    Iv { lo: self.lo.min(o.lo), hi: self.hi.max(o.hi) }
  }
  fn add(self, o: Iv) -> Iv {
    Iv { lo: self.lo + o.lo, hi: self.hi + o.hi }
  }
  fn sub(self, o: Iv) -> Iv {
    Iv { lo: self.lo - o.hi, hi: self.hi - o.lo }
  }
  fn mul(self, o: Iv) -> Iv {
    let c = [self.lo * o.lo, self.lo * o.hi, self.hi * o.lo, self.hi * o.hi];
    Iv { lo: *c.iter().min().unwrap(), hi: *c.iter().max().unwrap() }
  }
  fn neg(self) -> Iv {
    Iv { lo: -self.hi, hi: -self.lo }
  }
  /// quotient for a divisor interval that does not contain 0; one unit of slack for floor-vs-trunc
  fn div(self, o: Iv) -> Iv {
    let c = [self.lo / o.lo, self.lo / o.hi, self.hi / o.lo, self.hi / o.hi];
    Iv { lo: *c.iter().min().unwrap() - 1, hi: *c.iter().max().unwrap() + 1 }
  }
  fn rem(self, o: Iv) -> Iv {
    let m = o.lo.abs().max(o.hi.abs()) - 1;
    let lo = if self.lo >= 0 { 0 } else { -m.min(-self.lo) };
    let hi = if self.hi <= 0 { 0 } else { m.min(self.hi) };
    Iv { lo, hi }
  }
  fn mag(self) -> i64 {
    self.lo.abs().max(self.hi.abs())
  }
}

// -------------------------------------------------------------------------------------------------
// the typed model
// -------------------------------------------------------------------------------------------------

#[derive(Clone, Debug, PartialEq, Eq, PartialOrd, Ord)]
enum Ty {
  Int,
  Bool,
  Unit,
  Str,
  /// user class (index into G::classes) with type arguments
  Cls(usize, Vec<Ty>),
  Tup(Vec<Ty>),
  Fun(Vec<Ty>, Box<Ty>),
  Vec(Box<Ty>),
  Opt(Box<Ty>),
  List(Box<Ty>),
  Res(Box<Ty>, Box<Ty>),
  /// type parameter
  Par(String),
}

#[derive(Clone, Debug)]
struct Field {
  name: String,
  ty: Ty,
}

#[derive(Clone, Debug)]
struct Variant {
  name: String,
  payload: Vec<Ty>,
}

#[derive(Clone, Debug)]
enum Kind {
  Struct(Vec<Field>),
  Enum(Vec<Variant>),
  Plain,
  Iface,
}

#[derive(Clone, Debug)]
struct Class {
  name: String,
  module: usize,
  /// type parameters with optional interface bound (class index)
  tps: Vec<(String, Option<usize>)>,
  kind: Kind,
  impls: Vec<usize>,
  members: Vec<String>,
  /// classes (incl. itself) that its values may contain recursively
  recursive: bool,
  /// variant usable as a base case when building values of a recursive enum
  base_variant: usize,
  n_random: usize,
}

#[derive(Clone, Debug)]
struct Func {
  cls: usize,
  name: String,
  method: bool,
  private: bool,
  params: Vec<(Ty, Iv)>,
  ret: Ty,
  ret_iv: Iv,
  effects: bool,
  cost: u32,
  /// only called from scripted call sites (generic / loop functions)
  scripted: bool,
}

#[derive(Clone, Debug)]
struct Var {
  name: String,
  ty: Ty,
  iv: Iv,
}

#[derive(Clone, Debug)]
struct Ex {
  s: String,
  iv: Iv,
  /// needs no parentheses as an operand / receiver
  atom: bool,
  pure_: bool,
}

impl Ex {
  fn atom(s: impl Into<String>) -> Ex {
    Ex { s: s.into(), iv: SMALL, atom: true, pure_: true }
  }
  fn p(&self) -> String {
    if self.atom { self.s.clone() } else { format!("({})", self.s) }
  }
}

struct G<'a> {
  cfg: &'a GenConfig,
  rng: Rng,
  feats: BTreeSet<String>,
  classes: Vec<Class>,
  funcs: Vec<Func>,
  n_mod: usize,
  upper_ctr: usize,
  helper: usize,
  main_cls: usize,
  helpers: BTreeMap<String, usize>,
  iface: Option<usize>,
  iface_impls: Vec<usize>,
  holder: Option<usize>,
  loops: Vec<LoopInfo>,
  ping: Option<(usize, usize)>,
  min_lines: usize,
  ended: bool,
  // ---- per function context
  scope: Vec<Var>,
  this_cls: Option<usize>,
  ctr: usize,
  used: BTreeSet<String>,
  cost: u32,
  effects: bool,
  pure_only: u32,
  call_cap: u32,
  lam_base: Vec<usize>,
  lam_caps: Vec<(bool, bool)>,
  cur_mod: usize,
  cur_cls: usize,
}

#[derive(Clone, Debug)]
struct LoopInfo {
  func: usize,
  /// argument texts generators: start, optional bound, accumulator initial intervals
  start: i64,
  bound: Option<i64>,
  extra: Option<i64>,
  accs: Vec<(Ty, Iv)>,
  ret: Ty,
}

const STRUCT_NAMES: &[&str] = &["Point", "Rect", "User", "Item", "Cell", "Conf", "Span", "Acct", "Card", "Dim"];
const ENUM_NAMES: &[&str] = &["Color", "Shape", "Token", "State", "Op", "Msg", "Kind", "Mode", "Step", "Cmd"];
const VARIANT_NAMES: &[&str] =
  &["Red", "Green", "Blue", "Leaf", "Fork", "Idle", "Busy", "Done", "Add", "Mul", "Neg", "Lit", "Up", "Down", "Left", "Right", "On", "Off", "Low", "High"];
const FIELD_NAMES: &[&str] = &["x", "y", "w", "h", "id", "age", "tag", "cnt", "lo", "hi", "key", "vl", "len", "pos", "amt", "lvl"];
const FN_NAMES: &[&str] = &["calc", "mix", "step", "eval", "fold", "scan", "pick", "norm", "join", "test", "conv", "prep", "rank", "fuse"];
const WORDS: &[&str] = &[
  "alpha", "beta", "gamma", "delta", "x", "", " ", "hello world", "a,b;c", "Zz9", "0", "42", "-7", "[ok]", "(none)", "key=value", "tab sep", "#1!", "~^&*", "l'apostrophe", "end.",
];
const NASTY: &[&str] = &[
  "line\\nbreak", "tab\\there", "back\\\\slash", "quote\\\"d", "nul\\0byte", "tick`s", "${x}", "a`b${c}d", "caf\u{e9}", "\u{65e5}\u{672c}\u{8a9e}", "stra\u{df}e \u{1f600}",
  "\\n", "\\\\n", "${", "`", "\\\"\\\"", "\u{e9}\\t\u{e9}",
];
const HOSTILE: &[i64] = &[0, 1, -1, 2, 7, 255, 256, 1023, 1073741823, -1073741824];

impl<'a> G<'a> {
  fn new(seed: u64, cfg: &'a GenConfig) -> G<'a> {
    G {
      cfg,
      rng: Rng::new(seed),
      feats: BTreeSet::new(),
      classes: Vec::new(),
      funcs: Vec::new(),
      n_mod: 1,
      upper_ctr: 0,
      helper: 0,
      main_cls: 0,
      helpers: BTreeMap::new(),
      iface: None,
      iface_impls: Vec::new(),
      holder: None,
      loops: Vec::new(),
      ping: None,
      min_lines: 0,
      ended: false,
      scope: Vec::new(),
      this_cls: None,
      ctr: 0,
      used: BTreeSet::new(),
      cost: 0,
      effects: false,
      pure_only: 0,
      call_cap: 40,
      lam_base: Vec::new(),
      lam_caps: Vec::new(),
      cur_mod: 0,
      cur_cls: 0,
    }
  }

  // ---------------------------------------------------------------------------------------------
  // small helpers
  // ---------------------------------------------------------------------------------------------

  fn feat(&mut self, s: &str) {
    if !self.feats.contains(s) {
      self.feats.insert(s.to_string());
    }
  }
  fn fresh(&mut self, p: &str) -> String {
    loop {
      self.ctr += 1;
      let n = format!("{p}{}", self.ctr);
      if self.used.insert(n.clone()) {
        return n;
      }
    }
  }
  fn upper(&mut self, pool: &[&str]) -> String {
    self.upper_ctr += 1;
    let b = *self.rng.pick(pool);
    format!("{b}{}", self.upper_ctr)
  }
  fn one_in(&mut self, n: u32) -> bool {
    self.rng.chance(1, n)
  }
  fn pct(&mut self, p: u32) -> bool {
    self.rng.chance(p, 100)
  }
  /// weighted choice; returns the index
  fn weighted(&mut self, w: &[u32]) -> usize {
    let total: u32 = w.iter().sum();
    if total == 0 {
      return 0;
    }
    let mut x = self.rng.below(total as usize) as u32;
    for (i, wi) in w.iter().enumerate() {
      if x < *wi {
        return i;
      }
      x -= *wi;
    }
    w.len() - 1
  }

  fn ty_s(&self, t: &Ty) -> String {
    match t {
      Ty::Int => "int".into(),
      Ty::Bool => "bool".into(),
      Ty::Unit => "unit".into(),
      Ty::Str => "Str".into(),
      Ty::Cls(c, args) => {
        if args.is_empty() {
          self.classes[*c].name.clone()
        } else {
          format!("{}<{}>", self.classes[*c].name, self.tys_s(args))
        }
      }
      Ty::Tup(ts) => {
        let n = match ts.len() {
          2 => "Pair".to_string(),
          3 => "Triple".to_string(),
          k => format!("Tuple{k}"),
        };
        format!("{n}<{}>", self.tys_s(ts))
      }
      Ty::Fun(ps, r) => format!("({}) -> {}", self.tys_s(ps), self.ty_s(r)),
      Ty::Vec(t) => format!("Vec<{}>", self.ty_s(t)),
      Ty::Opt(t) => format!("Option<{}>", self.ty_s(t)),
      Ty::List(t) => format!("List<{}>", self.ty_s(t)),
      Ty::Res(t, e) => format!("Result<{}, {}>", self.ty_s(t), self.ty_s(e)),
      Ty::Par(p) => p.clone(),
    }
  }
  fn tys_s(&self, ts: &[Ty]) -> String {
    ts.iter().map(|t| self.ty_s(t)).collect::<Vec<_>>().join(", ")
  }

  fn subst(t: &Ty, m: &[(String, Ty)]) -> Ty {
    if m.is_empty() {
      return t.clone();
    }
    match t {
      Ty::Par(p) => m.iter().find(|(n, _)| n == p).map(|(_, t)| t.clone()).unwrap_or_else(|| t.clone()),
      Ty::Cls(c, a) => Ty::Cls(*c, a.iter().map(|x| Self::subst(x, m)).collect()),
      Ty::Tup(a) => Ty::Tup(a.iter().map(|x| Self::subst(x, m)).collect()),
      Ty::Fun(a, r) => Ty::Fun(a.iter().map(|x| Self::subst(x, m)).collect(), Box::new(Self::subst(r, m))),
      Ty::Vec(x) => Ty::Vec(Box::new(Self::subst(x, m))),
      Ty::Opt(x) => Ty::Opt(Box::new(Self::subst(x, m))),
      Ty::List(x) => Ty::List(Box::new(Self::subst(x, m))),
      Ty::Res(x, y) => Ty::Res(Box::new(Self::subst(x, m)), Box::new(Self::subst(y, m))),
      _ => t.clone(),
    }
  }
  fn has_par(t: &Ty) -> bool {
    match t {
      Ty::Par(_) => true,
      Ty::Cls(_, a) | Ty::Tup(a) => a.iter().any(Self::has_par),
      Ty::Fun(a, r) => a.iter().any(Self::has_par) || Self::has_par(r),
      Ty::Vec(x) | Ty::Opt(x) | Ty::List(x) => Self::has_par(x),
      Ty::Res(x, y) => Self::has_par(x) || Self::has_par(y),
      _ => false,
    }
  }
  fn mentions_par(t: &Ty, p: &str) -> bool {
    match t {
      Ty::Par(q) => q == p,
      Ty::Cls(_, a) | Ty::Tup(a) => a.iter().any(|x| Self::mentions_par(x, p)),
      Ty::Fun(a, r) => a.iter().any(|x| Self::mentions_par(x, p)) || Self::mentions_par(r, p),
      Ty::Vec(x) | Ty::Opt(x) | Ty::List(x) => Self::mentions_par(x, p),
      Ty::Res(x, y) => Self::mentions_par(x, p) || Self::mentions_par(y, p),
      _ => false,
    }
  }
  fn class_subst(&self, c: usize, args: &[Ty]) -> Vec<(String, Ty)> {
    self.classes[c].tps.iter().map(|(n, _)| n.clone()).zip(args.iter().cloned()).collect()
  }

  fn println(&mut self, s: &str) -> String {
    self.effects = true;
    format!("Process.println({s})")
  }

  // ---------------------------------------------------------------------------------------------
  // string literals
  // ---------------------------------------------------------------------------------------------

  fn plain_chars(&mut self, n: usize) -> String {
    const CH: &[u8] = b"abcdefghijklmnopqrstuvwxyzABCDEFGHIJKLMNOPQRSTUVWXYZ0123456789 .,;:!?#%&()*+-/<=>@[]^_{|}~'";
    (0..n).map(|_| CH[self.rng.below(CH.len())] as char).collect()
  }
  /// source text of a string literal (with the quotes)
  fn str_lit(&mut self) -> String {
    let nasty = self.cfg.string_pool == StringPool::Nasty;
    let k = self.rng.below(10);
    let body: String = if nasty && k < 5 {
      self.feat("str:nasty");
      let mut s = String::new();
      for _ in 0..self.rng.range(1, 3) {
        s.push_str(*self.rng.pick(NASTY));
        if self.one_in(2) {
          let n = self.rng.below(4);
          s.push_str(&self.plain_chars(n));
        }
      }
      s
    } else if nasty && k == 5 {
      self.feat("str:len-15-16-17");
      let n = *self.rng.pick(&[15usize, 16, 17]);
      if self.one_in(2) {
        self.plain_chars(n)
      } else {
        // 2-byte characters to reach the byte length
        let mut s = self.plain_chars(n - 2 * (n / 4));
        for _ in 0..n / 4 {
          s.push('\u{e9}');
        }
        s
      }
    } else if k < 7 {
      (*self.rng.pick(WORDS)).to_string()
    } else {
      let n = self.rng.below(9);
      self.plain_chars(n)
    };
    format!("\"{body}\"")
  }
  /// short ASCII tag for trace lines
  fn tag(&mut self) -> String {
    let n = self.rng.range(1, 3) as usize;
    const CH: &[u8] = b"abcdefghijklmnopqrstuvwxyz";
    (0..n).map(|_| CH[self.rng.below(CH.len())] as char).collect()
  }
}

// -------------------------------------------------------------------------------------------------
// expressions
// -------------------------------------------------------------------------------------------------

impl<'a> G<'a> {
  fn push_var(&mut self, name: &str, ty: Ty, iv: Iv) {
    self.used.insert(name.to_string());
    self.scope.push(Var { name: name.to_string(), ty, iv });
  }
  fn note_var_use(&mut self, idx: usize) {
    if let Some(b) = self.lam_base.last() {
      if idx < *b {
        self.lam_caps.last_mut().unwrap().0 = true;
      }
    }
  }
  fn note_this_use(&mut self) {
    if let Some(c) = self.lam_caps.last_mut() {
      c.1 = true;
    }
  }
  fn this_ty(&self) -> Option<Ty> {
    self.this_cls.map(|c| Ty::Cls(c, self.classes[c].tps.iter().map(|(n, _)| Ty::Par(n.clone())).collect()))
  }
  fn fields_of(&self, t: &Ty) -> Vec<(String, Ty)> {
    match t {
      Ty::Cls(c, args) => match &self.classes[*c].kind {
        Kind::Struct(fs) => {
          let m = self.class_subst(*c, args);
          fs.iter().map(|f| (f.name.clone(), Self::subst(&f.ty, &m))).collect()
        }
        _ => vec![],
      },
      Ty::Tup(ts) => ts.iter().enumerate().map(|(i, t)| (format!("e{i}"), t.clone())).collect(),
      _ => vec![],
    }
  }
  /// atom paths of exactly type `ty`: variables, `this`, one or two levels of field access.
  /// (text, interval, variable index or usize::MAX for this)
  fn paths(&self, ty: &Ty) -> Vec<(String, Iv, usize)> {
    let mut out = Vec::new();
    let mut roots: Vec<(String, Ty, Iv, usize)> = self.scope.iter().enumerate().map(|(i, v)| (v.name.clone(), v.ty.clone(), v.iv, i)).collect();
    if let Some(t) = self.this_ty() {
      roots.push(("this".to_string(), t, SMALL, usize::MAX));
    }
    for (n, t, iv, idx) in roots {
      if t == *ty {
        out.push((n.clone(), iv, idx));
      }
      for (f, ft) in self.fields_of(&t) {
        if ft == *ty {
          out.push((format!("{n}.{f}"), SMALL, idx));
        }
        if matches!(ft, Ty::Cls(..) | Ty::Tup(..)) {
          for (f2, ft2) in self.fields_of(&ft) {
            if ft2 == *ty {
              out.push((format!("{n}.{f}.{f2}"), SMALL, idx));
            }
          }
        }
      }
    }
    out
  }
  fn pick_path(&mut self, ty: &Ty) -> Option<Ex> {
    let ps = self.paths(ty);
    if ps.is_empty() {
      return None;
    }
    // bias towards captured variables inside lambdas
    let base = self.lam_base.last().copied();
    let pref: Vec<usize> = match base {
      Some(b) if self.one_in(2) => (0..ps.len()).filter(|i| ps[*i].2 < b || ps[*i].2 == usize::MAX).collect(),
      _ => vec![],
    };
    let k = if pref.is_empty() { self.rng.below(ps.len()) } else { pref[self.rng.below(pref.len())] };
    let (s, iv, idx) = ps[k].clone();
    if idx == usize::MAX {
      self.note_this_use();
    } else {
      self.note_var_use(idx);
    }
    Some(Ex { s, iv, atom: true, pure_: true })
  }

  fn int_lit(&mut self) -> Ex {
    let v = match self.rng.below(10) {
      0..=4 => self.rng.range(-20, 20),
      5..=7 => {
        let mut v = *self.rng.pick(HOSTILE);
        if self.cfg.allow_overflow && self.one_in(6) {
          v = *self.rng.pick(&[2147483647, -2147483648, 1073741824, -1073741825]);
        }
        v
      }
      _ => self.rng.range(-9999, 9999),
    };
    self.lit(v)
  }
  fn lit(&mut self, v: i64) -> Ex {
    if self.one_in(7) {
      self.feat("str-toInt-hidden-input");
      let s = if self.one_in(3) { format!("\"{v}\".toInt()") } else { format!("Str.fromInt({v}).toInt()") };
      return Ex { s, iv: Iv::pt(v), atom: true, pure_: true };
    }
    Ex { s: format!("{v}"), iv: Iv::pt(v), atom: v >= 0, pure_: true }
  }

  /// make `e` fit into `want` (by construction, using `%`)
  fn fit(&mut self, e: Ex, want: Iv) -> Ex {
    if e.iv.within(want) {
      return e;
    }
    if want.lo <= 0 && want.hi >= 0 {
      let m = (-want.lo).min(want.hi) + 1;
      if m >= 2 {
        let nice: Vec<i64> = [7, 10, 100, 255, 256, 1000, 1023, 10000].iter().copied().filter(|n| *n <= m).collect();
        let n = if nice.is_empty() || self.one_in(4) { m } else { *self.rng.pick(&nice) };
        return Ex { s: format!("{} % {n}", e.p()), iv: e.iv.rem(Iv::pt(n)), atom: false, pure_: e.pure_ };
      }
    }
    let n = want.hi - want.lo + 1;
    let inner = if e.iv.lo >= 0 { format!("{} % {n}", e.p()) } else { format!("(({} % {n}) + {n}) % {n}", e.p()) };
    if want.lo == 0 {
      Ex { s: inner, iv: Iv::new(0, n - 1), atom: false, pure_: e.pure_ }
    } else if want.lo > 0 {
      Ex { s: format!("({inner}) + {}", want.lo), iv: want, atom: false, pure_: e.pure_ }
    } else {
      Ex { s: format!("({inner}) - {}", -want.lo), iv: want, atom: false, pure_: e.pure_ }
    }
  }

  fn arith(&mut self, op: char, mut a: Ex, mut b: Ex) -> Ex {
    let calc = |a: Iv, b: Iv| match op {
      '+' => a.add(b),
      '-' => a.sub(b),
      _ => a.mul(b),
    };
    let mut iv = calc(a.iv, b.iv);
    if !iv.within(SAFE) {
      if self.cfg.allow_overflow && self.one_in(2) {
        self.feat("overflow-possible");
        iv = FULL;
      } else {
        let lim = Iv::new(-30000, 30000);
        a = self.fit(a, lim);
        b = self.fit(b, lim);
        iv = calc(a.iv, b.iv);
      }
    }
    Ex { s: format!("{} {op} {}", a.p(), b.p()), iv, atom: false, pure_: a.pure_ && b.pure_ }
  }

  fn divmod(&mut self, d: usize) -> Ex {
    let a = self.int_raw(d - 1);
    let op = if self.one_in(2) { '/' } else { '%' };
    let b: Ex = match self.rng.below(5) {
      0..=2 => {
        let mut pool: Vec<i64> = vec![1, 2, 3, 4, 5, 7, 8, 10, 16, 255, 256, 1023, -2, -3, -7];
        if a.iv.lo > I32_MIN {
          pool.push(-1);
        }
        let v = *self.rng.pick(&pool);
        Ex { s: format!("{v}"), iv: Iv::pt(v), atom: v >= 0, pure_: true }
      }
      3 => {
        let x = self.int_raw(d - 1);
        let k = *self.rng.pick(&[1i64, 3, 9, 99]);
        let x = self.fit(x, Iv::new(0, k));
        Ex { s: format!("{} + 1", x.p()), iv: x.iv.add(Iv::pt(1)), atom: false, pure_: x.pure_ }
      }
      _ => {
        let v = *self.rng.pick(&[2i64, 3, 7, 255, 256, -5]);
        self.feat("str-toInt-hidden-input");
        Ex { s: format!("Str.fromInt({v}).toInt()"), iv: Iv::pt(v), atom: true, pure_: true }
      }
    };
    let iv = if op == '/' { a.iv.div(b.iv) } else { a.iv.rem(b.iv) };
    let iv = if iv.within(FULL) { iv } else { FULL };
    self.feat(if op == '/' { "int-div" } else { "int-rem" });
    Ex { s: format!("{} {op} {}", a.p(), b.p()), iv, atom: false, pure_: a.pure_ && b.pure_ }
  }

  fn int_raw(&mut self, d: usize) -> Ex {
    if d == 0 || self.one_in(5) {
      if self.one_in(3) {
        return self.int_lit();
      }
      return match self.pick_path(&Ty::Int) {
        Some(e) => e,
        None => self.int_lit(),
      };
    }
    match self.weighted(&[30, 8, 4, 8, 14, 6, 5, 5, 4]) {
      0 => {
        let op = *self.rng.pick(&['+', '+', '-', '-', '*']);
        let a = self.int_raw(d - 1);
        let b = self.int_raw(d - 1);
        self.arith(op, a, b)
      }
      1 => self.divmod(d),
      2 => {
        let a = self.int_raw(d - 1);
        if a.iv.lo > I32_MIN {
          Ex { s: format!("-{}", a.p()), iv: a.iv.neg(), atom: false, pure_: a.pure_ }
        } else {
          a
        }
      }
      3 => {
        let c = self.bool_expr(d - 1);
        let a = self.int_raw(d - 1);
        let b = self.int_raw(d - 1);
        Ex { s: format!("if {} {{ {} }} else {{ {} }}", c.s, a.s, b.s), iv: a.iv.hull(b.iv), atom: false, pure_: c.pure_ && a.pure_ && b.pure_ }
      }
      4 => match self.try_call(&Ty::Int, d) {
        Some(e) => e,
        None => self.int_raw(d - 1),
      },
      5 => match self.try_match(&Ty::Int, d, FULL) {
        Some(e) => e,
        None => self.int_raw(d - 1),
      },
      6 => {
        // block with a local
        let a = self.int_raw(d - 1);
        let n = self.fresh("t");
        let mark = self.scope.len();
        self.push_var(&n, Ty::Int, a.iv);
        let b = self.int_raw(d - 1);
        self.scope.truncate(mark);
        Ex { s: format!("{{ let {n} = {}; {} }}", a.s, b.s), iv: b.iv, atom: true, pure_: a.pure_ && b.pure_ }
      }
      7 => match self.try_fn_var_call(&Ty::Int) {
        Some(e) => e,
        None => self.int_raw(d - 1),
      },
      _ => self.int_misc(d),
    }
  }

  /// ints out of std containers in scope
  fn int_misc(&mut self, d: usize) -> Ex {
    let lists = self.paths(&Ty::List(Box::new(Ty::Int)));
    let opts = self.paths(&Ty::Opt(Box::new(Ty::Int)));
    if !lists.is_empty() && self.one_in(2) {
      let (l, _, idx) = lists[self.rng.below(lists.len())].clone();
      if idx != usize::MAX {
        self.note_var_use(idx);
      }
      self.feat("std.list");
      return Ex { s: format!("{l}.length()"), iv: Iv::new(0, 64), atom: true, pure_: true };
    }
    if !opts.is_empty() {
      let (o, _, idx) = opts[self.rng.below(opts.len())].clone();
      if idx != usize::MAX {
        self.note_var_use(idx);
      }
      self.feat("std.option");
      let x = self.fresh("m");
      let dflt = self.rng.range(-9, 9);
      return Ex { s: format!("(match {o} {{ None -> {dflt}, Some({x}) -> {x} }})"), iv: SMALL, atom: true, pure_: true };
    }
    self.int_raw(d - 1)
  }

  fn bool_expr(&mut self, d: usize) -> Ex {
    if d == 0 {
      if let Some(e) = self.pick_path(&Ty::Bool) {
        if self.one_in(2) {
          return e;
        }
      }
      if self.one_in(4) {
        return Ex::atom(if self.one_in(2) { "true" } else { "false" });
      }
      let a = self.int_raw(0);
      let b = self.int_raw(0);
      return self.cmp(a, b);
    }
    match self.weighted(&[40, 8, 14, 8, 10, 6, 6, 5]) {
      0 => {
        let a = self.int_raw(d - 1);
        let b = self.int_raw(d - 1);
        self.cmp(a, b)
      }
      1 => {
        let a = self.str_expr(d - 1);
        let b = self.str_expr(d - 1);
        let op = if self.one_in(2) { "==" } else { "!=" };
        self.feat("str-eq");
        Ex { s: format!("{} {op} {}", a.p(), b.p()), iv: SMALL, atom: false, pure_: a.pure_ && b.pure_ }
      }
      2 => {
        let a = self.bool_expr(d - 1);
        let mut b = self.bool_expr(d - 1);
        let op = if self.one_in(2) { "&&" } else { "||" };
        if self.pure_only == 0 && self.call_cap >= 2 && self.pct(60) {
          b = self.wrap_pb(b);
          self.feat("short-circuit-effects");
        }
        Ex { s: format!("{} {op} {}", a.p(), b.p()), iv: SMALL, atom: false, pure_: a.pure_ && b.pure_ }
      }
      3 => {
        let a = self.bool_expr(d - 1);
        Ex { s: format!("!{}", a.p()), iv: SMALL, atom: false, pure_: a.pure_ }
      }
      4 => match self.try_call(&Ty::Bool, d) {
        Some(e) => e,
        None => self.bool_expr(d - 1),
      },
      5 => {
        let a = self.bool_expr(d - 1);
        let b = self.bool_expr(d - 1);
        let op = if self.one_in(2) { "==" } else { "!=" };
        Ex { s: format!("{} {op} {}", a.p(), b.p()), iv: SMALL, atom: false, pure_: a.pure_ && b.pure_ }
      }
      6 => match self.try_match(&Ty::Bool, d, SMALL) {
        Some(e) => e,
        None => self.bool_expr(d - 1),
      },
      _ => {
        // std predicates
        let opts: Vec<(String, usize)> = self
          .scope
          .iter()
          .enumerate()
          .filter_map(|(i, v)| match &v.ty {
            Ty::Opt(_) => Some((format!("{}.{}()", v.name, "isSome"), i)),
            Ty::List(_) => Some((format!("{}.isEmpty()", v.name), i)),
            Ty::Res(..) => Some((format!("{}.isOk()", v.name), i)),
            _ => None,
          })
          .collect();
        if opts.is_empty() {
          return self.bool_expr(d - 1);
        }
        let (s, i) = opts[self.rng.below(opts.len())].clone();
        self.note_var_use(i);
        Ex::atom(s)
      }
    }
  }
  fn cmp(&mut self, a: Ex, b: Ex) -> Ex {
    let op = *self.rng.pick(&["<", "<=", ">", ">=", "==", "!="]);
    Ex { s: format!("{} {op} {}", if op == "<" { lt_safe(&a.p()) } else { a.p() }, b.p()), iv: SMALL, atom: false, pure_: a.pure_ && b.pure_ }
  }
  /// route a bool through the printing helper (observes short-circuiting / evaluation order)
  fn wrap_pb(&mut self, b: Ex) -> Ex {
    let f = self.helper_pb();
    let t = self.tag();
    self.cost += 1;
    self.effects = true;
    Ex { s: format!("{}(\"{t}\", {})", f, b.s), iv: SMALL, atom: true, pure_: false }
  }
  fn wrap_pi(&mut self, e: Ex) -> Ex {
    let f = self.helper_pi();
    let t = self.tag();
    self.cost += 1;
    self.effects = true;
    Ex { s: format!("{}(\"{t}\", {})", f, e.s), iv: e.iv, atom: true, pure_: false }
  }

  fn str_expr(&mut self, d: usize) -> Ex {
    if d == 0 || self.one_in(4) {
      if let Some(e) = self.pick_path(&Ty::Str) {
        if self.one_in(2) {
          return e;
        }
      }
      return Ex::atom(self.str_lit());
    }
    match self.weighted(&[30, 25, 8, 12, 8, 8]) {
      0 => {
        let a = self.str_expr(d - 1);
        let b = self.str_expr(d - 1);
        self.feat("str-concat");
        Ex { s: format!("{} :: {}", a.p(), b.p()), iv: SMALL, atom: false, pure_: a.pure_ && b.pure_ }
      }
      1 => {
        let a = self.int_raw(d - 1);
        Ex { s: format!("Str.fromInt({})", a.s), iv: SMALL, atom: true, pure_: a.pure_ }
      }
      2 => {
        let c = self.bool_expr(d - 1);
        let a = self.str_expr(d - 1);
        let b = self.str_expr(d - 1);
        Ex { s: format!("if {} {{ {} }} else {{ {} }}", c.s, a.s, b.s), iv: SMALL, atom: false, pure_: c.pure_ && a.pure_ && b.pure_ }
      }
      3 => match self.try_call(&Ty::Str, d) {
        Some(e) => e,
        None => self.str_expr(d - 1),
      },
      4 => match self.try_match(&Ty::Str, d, SMALL) {
        Some(e) => e,
        None => self.str_expr(d - 1),
      },
      _ => {
        // show something in scope
        let cands: Vec<usize> = (0..self.scope.len()).filter(|i| self.showable(&self.scope[*i].ty) && !matches!(self.scope[*i].ty, Ty::Fun(..) | Ty::Vec(..))).collect();
        if cands.is_empty() {
          return self.str_expr(d - 1);
        }
        let i = cands[self.rng.below(cands.len())];
        self.note_var_use(i);
        let (n, t) = (self.scope[i].name.clone(), self.scope[i].ty.clone());
        let s = self.show(&t, &n);
        Ex { s, iv: SMALL, atom: false, pure_: true }
      }
    }
  }

  fn unit_expr(&mut self, d: usize) -> Ex {
    if self.pure_only > 0 || self.one_in(4) {
      return Ex::atom("{  }");
    }
    let s = self.str_expr(d.min(2));
    let p = self.println(&s.s);
    Ex { s: p, iv: SMALL, atom: true, pure_: false }
  }

  fn expr(&mut self, ty: &Ty, d: usize) -> Ex {
    self.expr_iv(ty, d, SMALL)
  }
  fn expr_iv(&mut self, ty: &Ty, d: usize, want: Iv) -> Ex {
    match ty {
      Ty::Int => {
        let e = self.int_raw(d);
        self.fit(e, want)
      }
      Ty::Bool => self.bool_expr(d),
      Ty::Str => self.str_expr(d),
      Ty::Unit => self.unit_expr(d),
      _ => self.obj_expr(ty, d),
    }
  }
  fn pure_expr(&mut self, ty: &Ty, d: usize) -> Ex {
    self.pure_only += 1;
    let e = self.expr(ty, d);
    self.pure_only -= 1;
    e
  }

  fn obj_expr(&mut self, ty: &Ty, d: usize) -> Ex {
    if self.pct(if d == 0 { 70 } else { 35 }) {
      if let Some(e) = self.pick_path(ty) {
        return e;
      }
    }
    if d > 0 && self.pct(25) {
      if let Some(e) = self.try_call(ty, d) {
        return e;
      }
    }
    if d > 1 && self.pct(8) && !matches!(ty, Ty::Fun(..)) {
      let c = self.bool_expr(d - 1);
      let a = self.obj_expr(ty, d - 1);
      let b = self.obj_expr(ty, d - 1);
      return Ex { s: format!("if {} {{ {} }} else {{ {} }}", c.s, a.s, b.s), iv: SMALL, atom: false, pure_: c.pure_ && a.pure_ && b.pure_ };
    }
    let d1 = d.saturating_sub(1);
    match ty {
      Ty::Tup(ts) => {
        let es: Vec<Ex> = ts.iter().map(|t| self.expr(t, d1)).collect();
        let pure_ = es.iter().all(|e| e.pure_);
        let args = es.iter().map(|e| e.s.clone()).collect::<Vec<_>>().join(", ");
        self.feat(&format!("tuple-{}", if ts.len() <= 6 { ts.len().to_string() } else { "big".to_string() }));
        if ts.len() <= 3 && self.one_in(5) {
          self.feat("std.tuples");
          let n = if ts.len() == 2 { "Pair" } else { "Triple" };
          return Ex { s: format!("{n}.init({args})"), iv: SMALL, atom: true, pure_ };
        }
        Ex { s: format!("({args})"), iv: SMALL, atom: true, pure_ }
      }
      Ty::Cls(c, args) => self.cls_value(*c, args, d),
      Ty::Opt(t) => {
        self.feat("std.option");
        if self.pct(75) {
          let e = self.expr(t, d1);
          Ex { s: format!("Option.Some({})", e.s), iv: SMALL, atom: true, pure_: e.pure_ }
        } else {
          Ex::atom(format!("Option.None<{}>()", self.ty_s(t)))
        }
      }
      Ty::List(t) => {
        self.feat("std.list");
        let n = self.rng.below(5);
        if n == 0 {
          return Ex::atom(format!("List.nil<{}>()", self.ty_s(t)));
        }
        // the elements sit in receiver positions of the cons chain: keep them free of effects
        let first = self.pure_expr(t, d1);
        let mut s = format!("List.of({})", first.s);
        let mut pure_ = first.pure_;
        for _ in 1..n {
          let e = self.pure_expr(t, d1.min(1));
          pure_ &= e.pure_;
          s.push_str(&format!(".cons({})", e.s));
        }
        Ex { s, iv: SMALL, atom: true, pure_ }
      }
      Ty::Res(t, e) => {
        self.feat("std.result");
        let targs = format!("<{}, {}>", self.ty_s(t), self.ty_s(e));
        if self.pct(60) {
          let x = self.expr(t, d1);
          Ex { s: format!("Result.Ok{targs}({})", x.s), iv: SMALL, atom: true, pure_: x.pure_ }
        } else {
          let x = self.expr(e, d1);
          Ex { s: format!("Result.Error{targs}({})", x.s), iv: SMALL, atom: true, pure_: x.pure_ }
        }
      }
      Ty::Fun(ps, r) => self.fn_expr(ps, r, d, false),
      Ty::Vec(t) => {
        if self.one_in(2) {
          Ex::atom(format!("Vec.empty<{}>()", self.ty_s(t)))
        } else {
          let e = self.expr(t, d1);
          Ex { s: format!("Vec.of({})", e.s), iv: SMALL, atom: true, pure_: e.pure_ }
        }
      }
      Ty::Par(_) => match self.pick_path(ty) {
        Some(e) => e,
        None => Ex::atom("Process.panic(\"unreachable: no value of a type parameter\")"),
      },
      _ => unreachable!(),
    }
  }

  /// constructor call for a user class
  fn cls_value(&mut self, c: usize, args: &[Ty], d: usize) -> Ex {
    let cls = self.classes[c].clone();
    let m = self.class_subst(c, args);
    let d1 = d.saturating_sub(1);
    let (ctor, ptys): (String, Vec<Ty>) = match &cls.kind {
      Kind::Struct(fs) => ("init".to_string(), fs.iter().map(|f| f.ty.clone()).collect()),
      Kind::Enum(vs) => {
        let k = if d == 0 && cls.recursive {
          cls.base_variant
        } else {
          self.rng.below(vs.len())
        };
        (vs[k].name.clone(), vs[k].payload.clone())
      }
      _ => unreachable!("value of a plain class"),
    };
    let all_inferable = cls.tps.iter().all(|(p, _)| ptys.iter().any(|t| Self::mentions_par(t, p)));
    let explicit = !cls.tps.is_empty() && (!all_inferable || self.one_in(3));
    let mut s = format!("{}.{ctor}", cls.name);
    if explicit {
      s.push_str(&format!("<{}>", self.tys_s(args)));
      self.feat("type-args-explicit");
    } else if !cls.tps.is_empty() {
      self.feat("type-args-inferred");
    }
    let mut pure_ = true;
    let mut parts = Vec::new();
    for t in &ptys {
      let t = Self::subst(t, &m);
      // a function-typed or nested generic argument has no expected type when type arguments are inferred
      let e = match &t {
        Ty::Fun(ps, r) if !explicit && !cls.tps.is_empty() => self.fn_expr(ps, r, d1, false),
        Ty::Fun(ps, r) => self.fn_expr(ps, r, d1, true),
        _ => self.expr(&t, d1),
      };
      pure_ &= e.pure_;
      parts.push(e.s);
    }
    s.push_str(&format!("({})", parts.join(", ")));
    Ex { s, iv: SMALL, atom: true, pure_ }
  }

  // ---------------------------------------------------------------------------------------------
  // calls
  // ---------------------------------------------------------------------------------------------

  fn callable_ok(&self, f: &Func) -> bool {
    !f.scripted
      && f.cost <= self.call_cap
      && (!f.private || f.cls == self.cur_cls)
      && (self.pure_only == 0 || !f.effects)
      && (self.lam_base.is_empty() || f.cost <= 6)
  }

  /// (func index, receiver text, receiver var index, substitution)
  fn call_candidates(&self, ty: &Ty) -> Vec<(usize, Option<(String, usize)>, Vec<(String, Ty)>)> {
    let mut out = Vec::new();
    for (i, f) in self.funcs.iter().enumerate() {
      if !self.callable_ok(f) {
        continue;
      }
      if !f.method {
        if f.ret == *ty {
          out.push((i, None, vec![]));
        }
        continue;
      }
      // receivers in scope
      for (vi, v) in self.scope.iter().enumerate() {
        if let Ty::Cls(c, args) = &v.ty {
          if *c == f.cls {
            let m = self.class_subst(*c, args);
            if Self::subst(&f.ret, &m) == *ty {
              out.push((i, Some((v.name.clone(), vi)), m));
            }
          }
        }
      }
      if let Some(tc) = self.this_cls {
        if tc == f.cls && f.ret == *ty {
          out.push((i, Some(("this".to_string(), usize::MAX)), vec![]));
        }
      }
    }
    out
  }

  fn try_call(&mut self, ty: &Ty, d: usize) -> Option<Ex> {
    let cands = self.call_candidates(ty);
    if cands.is_empty() {
      return None;
    }
    let (fi, recv, m) = cands[self.rng.below(cands.len())].clone();
    Some(self.gen_call(fi, recv, &m, d))
  }

  fn gen_call(&mut self, fi: usize, recv: Option<(String, usize)>, m: &[(String, Ty)], d: usize) -> Ex {
    let f = self.funcs[fi].clone();
    let d1 = d.saturating_sub(1);
    let mut pure_ = !f.effects;
    let mut parts = Vec::new();
    let observe = self.pure_only == 0 && self.lam_base.is_empty() && f.params.len() >= 2 && self.call_cap >= 4 && self.pct(15);
    for (t, iv) in &f.params {
      let t = Self::subst(t, m);
      let mut e = match &t {
        Ty::Fun(ps, r) => self.fn_expr(ps, r, d1, true),
        _ => self.expr_iv(&t, d1, *iv),
      };
      if observe && t == Ty::Int {
        e = self.wrap_pi(e);
        self.feat("eval-order-args");
      }
      pure_ &= e.pure_;
      parts.push(e.s);
    }
    self.cost += f.cost;
    self.effects |= f.effects;
    let head = match recv {
      None => format!("{}.{}", self.classes[f.cls].name, f.name),
      Some((r, vi)) => {
        if vi == usize::MAX {
          self.note_this_use();
        } else {
          self.note_var_use(vi);
        }
        format!("{r}.{}", f.name)
      }
    };
    let ret_iv = if Self::subst(&f.ret, m) == Ty::Int && Self::has_par(&f.ret) { SMALL } else { f.ret_iv };
    Ex { s: format!("{head}({})", parts.join(", ")), iv: ret_iv, atom: true, pure_ }
  }

  /// call of a function-typed variable in scope that returns `ty`
  fn try_fn_var_call(&mut self, ty: &Ty) -> Option<Ex> {
    if self.pure_only > 0 {
      return None;
    }
    let cands: Vec<usize> = (0..self.scope.len())
      .filter(|i| match &self.scope[*i].ty {
        Ty::Fun(ps, r) => **r == *ty && ps.iter().all(|p| matches!(p, Ty::Int | Ty::Bool | Ty::Str)),
        _ => false,
      })
      .collect();
    if cands.is_empty() {
      return None;
    }
    let i = cands[self.rng.below(cands.len())];
    self.note_var_use(i);
    let (name, ps) = match &self.scope[i].ty {
      Ty::Fun(ps, _) => (self.scope[i].name.clone(), ps.clone()),
      _ => unreachable!(),
    };
    let args: Vec<String> = ps.iter().map(|p| self.expr(p, 1).s).collect();
    self.cost += 4;
    self.effects = true;
    Some(Ex { s: format!("{name}({})", args.join(", ")), iv: SMALL, atom: true, pure_: false })
  }

  /// an expression of function type: lambda, function variable, static function reference or method reference.
  /// `hint`: the context provides the expected type (parameter annotations may be dropped)
  fn fn_expr(&mut self, ps: &[Ty], r: &Ty, d: usize, hint: bool) -> Ex {
    let fty = Ty::Fun(ps.to_vec(), Box::new(r.clone()));
    if self.pct(20) {
      if let Some(e) = self.pick_path(&fty) {
        return e;
      }
    }
    if self.pct(30) && !Self::has_par(&fty) {
      // named function as a value
      let mut cands: Vec<(String, bool)> = Vec::new();
      for f in &self.funcs {
        if f.scripted || f.cost > 6 || (f.private && f.cls != self.cur_cls) {
          continue;
        }
        if !self.classes[f.cls].tps.is_empty() {
          continue;
        }
        let sig_ok = f.params.len() == ps.len()
          && f.params.iter().zip(ps).all(|((t, iv), p)| t == p && (*t != Ty::Int || SMALL.within(*iv)))
          && f.ret == *r
          && (f.ret != Ty::Int || f.ret_iv.within(SMALL));
        if !sig_ok {
          continue;
        }
        if f.method {
          for v in &self.scope {
            if v.ty == Ty::Cls(f.cls, vec![]) {
              cands.push((format!("{}.{}", v.name, f.name), true));
            }
          }
        } else {
          cands.push((format!("{}.{}", self.classes[f.cls].name, f.name), false));
        }
      }
      if !cands.is_empty() {
        let (s, is_m) = cands[self.rng.below(cands.len())].clone();
        self.feat(if is_m { "method-reference-value" } else { "static-function-reference" });
        if is_m {
          if let Some(i) = self.scope.iter().position(|v| s.starts_with(&format!("{}.", v.name))) {
            self.note_var_use(i);
          }
        }
        return Ex::atom(s);
      }
    }
    self.lambda(ps, r, d, hint)
  }

  fn lambda(&mut self, ps: &[Ty], r: &Ty, d: usize, hint: bool) -> Ex {
    let annotate = !hint || self.one_in(3);
    // with an expected type available, annotations may also be given for some parameters only
    let partial = hint && !annotate && ps.len() >= 2 && self.one_in(3);
    let mark = self.scope.len();
    self.lam_base.push(mark);
    self.lam_caps.push((false, false));
    let mut names = Vec::new();
    for p in ps {
      let n = self.fresh("a");
      self.push_var(&n, p.clone(), SMALL);
      let this_one = annotate || (partial && self.one_in(2));
      names.push(if this_one { format!("{n}: {}", self.ty_s(p)) } else { n });
    }
    let saved_cap = self.call_cap;
    self.call_cap = self.call_cap.min(6);
    let saved_cost = self.cost;
    self.cost = 0;
    let body = self.expr(r, d.saturating_sub(1).min(2));
    // a lambda may run several times
    self.cost = saved_cost + 1 + self.cost * 6;
    self.call_cap = saved_cap;
    self.scope.truncate(mark);
    self.lam_base.pop();
    let (cl, ct) = self.lam_caps.pop().unwrap();
    if cl {
      self.feat("closure-captures-local");
      if let Some(c) = self.lam_caps.last_mut() {
        c.0 = true;
      }
    }
    if ct {
      self.feat("closure-captures-this");
      if let Some(c) = self.lam_caps.last_mut() {
        c.1 = true;
      }
    }
    if partial {
      self.feat("lambda-partially-annotated");
    }
    Ex { s: format!("({}) -> {}", names.join(", "), body.s), iv: SMALL, atom: false, pure_: true }
  }

  // ---------------------------------------------------------------------------------------------
  // patterns and match
  // ---------------------------------------------------------------------------------------------

  /// irrefutable pattern for a value of type `t`; bound variables are appended to `binds`
  fn irrefutable(&mut self, t: &Ty, depth: usize, binds: &mut Vec<Var>) -> String {
    if self.pct(20) {
      self.feat("pattern:wildcard");
      return "_".to_string();
    }
    match t {
      Ty::Tup(ts) if depth > 0 && self.pct(60) => {
        self.feat("pattern:tuple");
        let ps: Vec<String> = ts.iter().map(|x| self.irrefutable(x, depth - 1, binds)).collect();
        format!("({})", ps.join(", "))
      }
      Ty::Cls(c, args) if depth > 0 && matches!(self.classes[*c].kind, Kind::Struct(_)) && self.pct(50) => {
        let fs = self.fields_of(&Ty::Cls(*c, args.clone()));
        let mut ps = Vec::new();
        for (f, ft) in fs {
          if self.pct(25) {
            ps.push(format!("{f} as _"));
            self.feat("pattern:struct-as");
          } else if !self.used.contains(&f) && self.pct(40) {
            self.used.insert(f.clone());
            binds.push(Var { name: f.clone(), ty: ft, iv: SMALL });
            ps.push(f);
          } else {
            let n = self.fresh("f");
            binds.push(Var { name: n.clone(), ty: ft, iv: SMALL });
            ps.push(format!("{f} as {n}"));
            self.feat("pattern:struct-as");
          }
        }
        format!("{{ {} }}", ps.join(", "))
      }
      _ => {
        let n = self.fresh("b");
        binds.push(Var { name: n.clone(), ty: t.clone(), iv: SMALL });
        n
      }
    }
  }

  fn variants_of(&self, t: &Ty) -> Option<Vec<Variant>> {
    match t {
      Ty::Cls(c, args) => match &self.classes[*c].kind {
        Kind::Enum(vs) => {
          let m = self.class_subst(*c, args);
          Some(vs.iter().map(|v| Variant { name: v.name.clone(), payload: v.payload.iter().map(|t| Self::subst(t, &m)).collect() }).collect())
        }
        _ => None,
      },
      Ty::Opt(t) => Some(vec![Variant { name: "None".into(), payload: vec![] }, Variant { name: "Some".into(), payload: vec![(**t).clone()] }]),
      Ty::Res(t, e) => Some(vec![Variant { name: "Ok".into(), payload: vec![(**t).clone()] }, Variant { name: "Error".into(), payload: vec![(**e).clone()] }]),
      Ty::List(t) => Some(vec![
        Variant { name: "Nil".into(), payload: vec![] },
        Variant { name: "Cons".into(), payload: vec![(**t).clone(), Ty::List(t.clone())] },
      ]),
      _ => None,
    }
  }

  /// match arms over the variants of `scrut_ty`: list of (pattern, bindings, label)
  fn arm_plan(&mut self, scrut_ty: &Ty) -> Vec<(String, Vec<Var>, String)> {
    let vs = self.variants_of(scrut_ty).unwrap();
    let n = vs.len();
    let mut arms: Vec<(String, Vec<Var>, String)> = Vec::new();
    let mode = self.weighted(&[50, if n >= 2 { 25 } else { 0 }, if n >= 3 { 20 } else { 0 }]);
    let mut i = 0;
    // mode 2: explicit prefix then wildcard
    let explicit = if mode == 2 { self.rng.range(1, n as i64 - 1) as usize } else { n };
    while i < n {
      if i >= explicit {
        self.feat("pattern:wildcard");
        arms.push(("_".to_string(), vec![], "other".to_string()));
        break;
      }
      // or-group?
      let mut group = 1;
      if mode == 1 && i + 1 < explicit {
        group = self.rng.range(1, ((explicit - i) as i64).min(3)) as usize;
      }
      if group > 1 {
        self.feat("pattern:or");
        let members = &vs[i..i + group];
        let bind_int = members.iter().all(|v| v.payload.iter().any(|t| *t == Ty::Int)) && self.pct(70);
        let name = if bind_int { Some(self.fresh("k")) } else { None };
        let mut pats = Vec::new();
        for v in members {
          if v.payload.is_empty() {
            pats.push(v.name.clone());
            continue;
          }
          let mut done = false;
          let ps: Vec<String> = v
            .payload
            .iter()
            .map(|t| {
              if let Some(nm) = &name {
                if !done && *t == Ty::Int {
                  done = true;
                  return nm.clone();
                }
              }
              "_".to_string()
            })
            .collect();
          pats.push(format!("{}({})", v.name, ps.join(", ")));
        }
        let binds = name.iter().map(|nm| Var { name: nm.clone(), ty: Ty::Int, iv: SMALL }).collect();
        let label = members.iter().map(|v| v.name.clone()).collect::<Vec<_>>().join("|");
        arms.push((pats.join(" | "), binds, label));
        i += group;
        continue;
      }
      let v = vs[i].clone();
      i += 1;
      if v.payload.is_empty() {
        arms.push((v.name.clone(), vec![], v.name.clone()));
        continue;
      }
      // nested refutable expansion of one enum-typed payload position
      let nest_pos: Vec<usize> = (0..v.payload.len()).filter(|k| self.variants_of(&v.payload[*k]).map(|x| x.len() >= 2 && x.len() <= 3).unwrap_or(false)).collect();
      if !nest_pos.is_empty() && self.pct(40) {
        self.feat("pattern:nested");
        let k = nest_pos[self.rng.below(nest_pos.len())];
        let inner = self.variants_of(&v.payload[k]).unwrap();
        for iv_ in &inner {
          let mut binds = Vec::new();
          let mut ps = Vec::new();
          for (j, t) in v.payload.iter().enumerate() {
            if j == k {
              if iv_.payload.is_empty() {
                ps.push(iv_.name.clone());
              } else {
                let ips: Vec<String> = iv_.payload.iter().map(|t| self.irrefutable(t, 1, &mut binds)).collect();
                ps.push(format!("{}({})", iv_.name, ips.join(", ")));
              }
            } else {
              ps.push(self.irrefutable(t, 1, &mut binds));
            }
          }
          arms.push((format!("{}({})", v.name, ps.join(", ")), binds, format!("{}.{}", v.name, iv_.name)));
        }
        continue;
      }
      let mut binds = Vec::new();
      let ps: Vec<String> = v.payload.iter().map(|t| self.irrefutable(t, 2, &mut binds)).collect();
      if ps.iter().any(|p| p.starts_with('(') || p.starts_with('{')) {
        self.feat("pattern:nested");
      }
      arms.push((format!("{}({})", v.name, ps.join(", ")), binds, v.name.clone()));
    }
    arms
  }

  /// a `match` on some enum-typed path in scope producing `ty`
  fn try_match(&mut self, ty: &Ty, d: usize, want: Iv) -> Option<Ex> {
    let mut cands: Vec<(String, Ty, usize)> = Vec::new();
    for (i, v) in self.scope.iter().enumerate() {
      if self.variants_of(&v.ty).is_some() && !Self::has_par(&v.ty) {
        cands.push((v.name.clone(), v.ty.clone(), i));
      }
    }
    if let (Some(t), Some(c)) = (self.this_ty(), self.this_cls) {
      if matches!(self.classes[c].kind, Kind::Enum(_)) && self.classes[c].tps.is_empty() {
        cands.push(("this".to_string(), t, usize::MAX));
      }
    }
    if cands.is_empty() {
      return None;
    }
    let (s, t, i) = cands[self.rng.below(cands.len())].clone();
    if i == usize::MAX {
      self.note_this_use();
    } else {
      self.note_var_use(i);
    }
    let prints = self.pure_only == 0 && self.lam_base.is_empty() && self.pct(40);
    Some(self.gen_match(&s, &t, ty, d, want, prints))
  }

  fn gen_match(&mut self, scrut: &str, scrut_ty: &Ty, ty: &Ty, d: usize, want: Iv, prints: bool) -> Ex {
    self.feat("match");
    let arms = self.arm_plan(scrut_ty);
    let mut iv: Option<Iv> = None;
    let mut pure_ = true;
    let mut texts = Vec::new();
    for (pat, binds, label) in arms {
      let mark = self.scope.len();
      for b in binds {
        self.scope.push(b);
      }
      let body = self.expr_iv(ty, d.saturating_sub(1), want);
      self.scope.truncate(mark);
      iv = Some(iv.map(|x| x.hull(body.iv)).unwrap_or(body.iv));
      pure_ &= body.pure_;
      if prints {
        let p = self.println(&format!("\"arm {label}\""));
        pure_ = false;
        texts.push(format!("{pat} -> {{ {p}; {} }}", body.s));
      } else {
        texts.push(format!("{pat} -> {}", body.s));
      }
    }
    Ex { s: format!("match {scrut} {{ {} }}", texts.join(", ")), iv: iv.unwrap_or(SMALL), atom: false, pure_ }
  }

  // ---------------------------------------------------------------------------------------------
  // show: a Str-typed rendering of a value held in an atom path
  // ---------------------------------------------------------------------------------------------

  fn showable(&self, t: &Ty) -> bool {
    match t {
      Ty::Unit => false,
      Ty::Fun(ps, r) => ps.iter().all(|p| matches!(p, Ty::Int | Ty::Bool | Ty::Str)) && matches!(**r, Ty::Int | Ty::Bool | Ty::Str),
      Ty::Tup(ts) => ts.iter().all(|t| self.showable(t)),
      Ty::Vec(t) | Ty::Opt(t) | Ty::List(t) => self.showable(t) && !matches!(**t, Ty::Fun(..)),
      Ty::Res(a, b) => self.showable(a) && self.showable(b),
      Ty::Cls(c, args) => !matches!(self.classes[*c].kind, Kind::Plain | Kind::Iface) && args.iter().all(|t| self.showable(t) && !matches!(t, Ty::Fun(..))),
      _ => true,
    }
  }

  /// expression of type Str (a `::` chain; callers parenthesise when needed)
  fn show(&mut self, t: &Ty, code: &str) -> String {
    match t {
      Ty::Int => format!("Str.fromInt({code})"),
      Ty::Bool => {
        if self.one_in(2) {
          format!("(if {code} {{ \"true\" }} else {{ \"false\" }})")
        } else {
          format!("{}({code})", self.helper_bs())
        }
      }
      Ty::Str => code.to_string(),
      Ty::Unit => "\"unit\"".to_string(),
      Ty::Par(p) => format!("sh{p}({code})"),
      Ty::Cls(_, args) => {
        if args.is_empty() {
          format!("{code}.show()")
        } else {
          let lams: Vec<String> = args
            .iter()
            .map(|a| {
              let x = self.fresh("s");
              let body = self.show(a, &x);
              format!("({x}) -> {body}")
            })
            .collect();
          format!("{code}.show({})", lams.join(", "))
        }
      }
      Ty::Tup(ts) => {
        let mut s = "\"(\"".to_string();
        for (i, x) in ts.iter().enumerate() {
          if i > 0 {
            s.push_str(" :: \",\"");
          }
          let inner = self.show(x, &format!("{code}.e{i}"));
          s.push_str(&format!(" :: {inner}"));
        }
        s.push_str(" :: \")\"");
        format!("({s})")
      }
      Ty::Opt(x) => {
        self.feat("std.option");
        let v = self.fresh("s");
        let inner = self.show(x, &v);
        if self.one_in(4) {
          self.feat("std.option.valueMap");
          format!("{code}.valueMap(\"None\", ({v}) -> \"Some(\" :: {inner} :: \")\")")
        } else {
          format!("(match {code} {{ None -> \"None\", Some({v}) -> \"Some(\" :: {inner} :: \")\" }})")
        }
      }
      Ty::List(x) => {
        self.feat("std.list");
        let (a, v) = (self.fresh("s"), self.fresh("s"));
        let inner = self.show(x, &v);
        format!("({code}.fold(({a}, {v}) -> {a} :: {inner} :: \";\", \"[\") :: \"]\")")
      }
      Ty::Res(x, y) => {
        self.feat("std.result");
        let (v, w) = (self.fresh("s"), self.fresh("s"));
        let (i1, i2) = (self.show(x, &v), self.show(y, &w));
        format!("(match {code} {{ Ok({v}) -> \"Ok(\" :: {i1} :: \")\", Error({w}) -> \"Error(\" :: {i2} :: \")\" }})")
      }
      Ty::Vec(x) => {
        let h = self.helper_show_vec(x);
        format!("{h}({code}, 0, \"\")")
      }
      Ty::Fun(ps, r) => {
        let args: Vec<String> = ps
          .iter()
          .map(|p| match p {
            Ty::Int => format!("{}", self.rng.range(-3, 9)),
            Ty::Bool => "true".to_string(),
            _ => "\"q\"".to_string(),
          })
          .collect();
        let call = format!("{code}({})", args.join(", "));
        self.effects = true;
        self.cost += 3;
        self.show(&r.clone(), &call)
      }
    }
  }

  /// statement printing `label` + rendering of the variable
  fn print_var(&mut self, label: &str, t: &Ty, var: &str) -> String {
    if !self.showable(t) {
      return self.println(&format!("\"{label}\""));
    }
    let s = self.show(t, var);
    self.println(&format!("\"{label}=\" :: {s}"))
  }
}

// -------------------------------------------------------------------------------------------------
// helper functions (scripted, added on demand to the helper class)
// -------------------------------------------------------------------------------------------------

impl<'a> G<'a> {
  fn hname(&self) -> String {
    self.classes[self.helper].name.clone()
  }
  fn add_helper(&mut self, key: &str, text: String, f: Func) -> String {
    let name = format!("{}.{}", self.hname(), f.name);
    if !self.helpers.contains_key(key) {
      self.classes[self.helper].members.push(text);
      self.funcs.push(f);
      self.helpers.insert(key.to_string(), self.funcs.len() - 1);
    }
    name
  }
  fn hfunc(&self, name: &str, params: Vec<(Ty, Iv)>, ret: Ty, ret_iv: Iv, effects: bool, cost: u32, scripted: bool) -> Func {
    Func { cls: self.helper, name: name.to_string(), method: false, private: false, params, ret, ret_iv, effects, cost, scripted }
  }
  /// prints its tag, returns its bool
  fn helper_pb(&mut self) -> String {
    if self.helpers.contains_key("pb") {
      return format!("{}.pb", self.hname());
    }
    let f = self.hfunc("pb", vec![(Ty::Str, SMALL), (Ty::Bool, SMALL)], Ty::Bool, SMALL, true, 1, true);
    self.add_helper("pb", "function pb(t: Str, b: bool): bool = {\n    Process.println(\"pb \" :: t :: (if b { \" T\" } else { \" F\" }));\n    b\n  }".to_string(), f)
  }
  /// prints its tag and int, returns the int
  fn helper_pi(&mut self) -> String {
    if self.helpers.contains_key("pi") {
      return format!("{}.pi", self.hname());
    }
    let f = self.hfunc("pi", vec![(Ty::Str, SMALL), (Ty::Int, FULL)], Ty::Int, FULL, true, 1, true);
    self.add_helper("pi", "function pi(t: Str, i: int): int = {\n    Process.println(\"pi \" :: t :: \" \" :: Str.fromInt(i));\n    i\n  }".to_string(), f)
  }
  fn helper_bs(&mut self) -> String {
    if self.helpers.contains_key("bs") {
      return format!("{}.bs", self.hname());
    }
    let f = self.hfunc("bs", vec![(Ty::Bool, SMALL)], Ty::Str, SMALL, false, 1, false);
    self.add_helper("bs", "function bs(b: bool): Str = if b { \"true\" } else { \"false\" }".to_string(), f)
  }
  /// tail-recursive renderer of a Vec<elem>
  fn helper_show_vec(&mut self, elem: &Ty) -> String {
    let key = format!("showVec:{}", self.ty_s(elem));
    if let Some(i) = self.helpers.get(&key) {
      return format!("{}.{}", self.hname(), self.funcs[*i].name);
    }
    let name = format!("showVec{}", self.helpers.len());
    // reserve the key first: the element renderer may itself need helpers
    let f = self.hfunc(&name, vec![(Ty::Vec(Box::new(elem.clone())), SMALL), (Ty::Int, Iv::new(0, 0)), (Ty::Str, SMALL)], Ty::Str, SMALL, false, 30, true);
    self.funcs.push(f);
    self.helpers.insert(key, self.funcs.len() - 1);
    let inner = self.show(elem, "v.get(i)");
    let h = self.hname();
    let t = self.ty_s(elem);
    self.feat("tail-recursion");
    self.feat("induction-variable");
    self.classes[self.helper].members.push(format!(
      "function {name}(v: Vec<{t}>, i: int, acc: Str): Str =\n    if i >= v.length() {{ acc }} else {{ {h}.{name}(v, i + 1, acc :: {inner} :: \";\") }}"
    ));
    format!("{h}.{name}")
  }
  /// fills a Vec<int> with n derived values (tail recursion, Vec mutation inside a loop)
  fn helper_fill(&mut self) -> String {
    if self.helpers.contains_key("fill") {
      return format!("{}.fill", self.hname());
    }
    let (a, b) = (self.rng.range(1, 9), self.rng.range(-9, 9));
    let h = self.hname();
    let f = self.hfunc("fill", vec![(Ty::Vec(Box::new(Ty::Int)), SMALL), (Ty::Int, SMALL), (Ty::Int, SMALL)], Ty::Unit, SMALL, true, 40, true);
    self.feat("tail-recursion");
    let bs = if b < 0 { format!("- {}", -b) } else { format!("+ {b}") };
    self.add_helper(
      "fill",
      format!("function fill(v: Vec<int>, i: int, n: int): unit =\n    if i < n {{\n      v.push(i * {a} {bs});\n      {h}.fill(v, i + 1, n)\n    }} else {{  }}"),
      f,
    );
    // remember the coefficients through the key
    self.helpers.insert(format!("fillcoef:{a}:{b}"), 0);
    format!("{h}.fill")
  }
  fn helper_sum_vec(&mut self) -> String {
    if self.helpers.contains_key("sumVec") {
      return format!("{}.sumVec", self.hname());
    }
    let h = self.hname();
    let f = self.hfunc("sumVec", vec![(Ty::Vec(Box::new(Ty::Int)), SMALL), (Ty::Int, SMALL), (Ty::Int, SMALL)], Ty::Int, Iv::new(-2_000_000, 2_000_000), false, 40, true);
    self.feat("tail-recursion");
    self.feat("induction-variable");
    let form = self.rng.below(3);
    let text = match form {
      0 => format!("function sumVec(v: Vec<int>, i: int, acc: int): int =\n    if i < v.length() {{ {h}.sumVec(v, i + 1, acc + v.get(i)) }} else {{ acc }}"),
      1 => format!("function sumVec(v: Vec<int>, i: int, acc: int): int =\n    if v.length() <= i {{ acc }} else {{ {h}.sumVec(v, i + 1, v.get(i) + acc) }}"),
      _ => format!("function sumVec(v: Vec<int>, i: int, acc: int): int =\n    if i == v.length() {{ acc }} else {{\n      let e = v.get(i);\n      {h}.sumVec(v, i + 1, acc + e)\n    }}"),
    };
    self.add_helper("sumVec", text, f)
  }
  /// panics when its argument exceeds a limit (deliberate ending inside a callee)
  fn helper_boom(&mut self, msg: &str) -> String {
    let h = self.hname();
    let name = format!("boom{}", self.helpers.len());
    let f = self.hfunc(&name, vec![(Ty::Int, SMALL)], Ty::Int, SMALL, true, 1, true);
    let key = format!("boom{}", self.helpers.len());
    self.add_helper(&key, format!("function {name}(n: int): int = if n > 100 {{ Process.panic({msg}) }} else {{ n }}"), f);
    format!("{h}.{name}")
  }
}

// -------------------------------------------------------------------------------------------------
// classes
// -------------------------------------------------------------------------------------------------

impl<'a> G<'a> {
  fn new_class(&mut self, name: String, kind: Kind, tps: Vec<(String, Option<usize>)>) -> usize {
    let module = self.rng.below(self.n_mod);
    self.classes.push(Class { name, module, tps, kind, impls: vec![], members: vec![], recursive: false, base_variant: 0, n_random: 0 });
    self.classes.len() - 1
  }

  fn data_classes(&self) -> Vec<usize> {
    (0..self.classes.len()).filter(|c| matches!(self.classes[*c].kind, Kind::Struct(_) | Kind::Enum(_)) && self.classes[*c].tps.iter().all(|(_, b)| b.is_none())).collect()
  }

  /// a closed (parameter free) type usable for fields / payloads / params, built from classes < `limit`
  fn closed_ty(&mut self, limit: usize, depth: usize) -> Ty {
    let cands: Vec<usize> = self.data_classes().into_iter().filter(|c| *c < limit).collect();
    let w_cls = if cands.is_empty() { 0 } else { 18 };
    match self.weighted(&[38, 12, 18, w_cls, if depth > 0 { 7 } else { 0 }, if depth > 0 { 5 } else { 0 }, if depth > 0 { 2 } else { 0 }]) {
      0 => Ty::Int,
      1 => Ty::Bool,
      2 => Ty::Str,
      3 => {
        let c = cands[self.rng.below(cands.len())];
        let n = self.classes[c].tps.len();
        let args = (0..n).map(|_| self.simple_ty(limit)).collect();
        Ty::Cls(c, args)
      }
      4 => {
        let n = self.rng.range(2, 3) as usize;
        Ty::Tup((0..n).map(|_| self.closed_ty(limit, 0)).collect())
      }
      5 => Ty::Opt(Box::new(self.simple_ty(limit))),
      _ => Ty::List(Box::new(if self.one_in(2) { Ty::Int } else { Ty::Str })),
    }
  }
  fn simple_ty(&mut self, limit: usize) -> Ty {
    let cands: Vec<usize> = self.data_classes().into_iter().filter(|c| *c < limit && self.classes[*c].tps.is_empty()).collect();
    match self.weighted(&[40, 25, 10, if cands.is_empty() { 0 } else { 25 }]) {
      0 => Ty::Int,
      1 => Ty::Str,
      2 => Ty::Bool,
      _ => Ty::Cls(cands[self.rng.below(cands.len())], vec![]),
    }
  }

  fn field_names(&mut self, n: usize) -> Vec<String> {
    let mut pool: Vec<&str> = FIELD_NAMES.to_vec();
    self.rng.shuffle(&mut pool);
    pool.into_iter().take(n).map(|s| s.to_string()).collect()
  }

  fn mk_struct(&mut self) -> usize {
    let limit = self.classes.len();
    let n = self.rng.range(1, 4) as usize;
    let names = self.field_names(n);
    let fields = names.into_iter().map(|name| Field { name, ty: self.closed_ty(limit, 1) }).collect();
    let name = self.upper(STRUCT_NAMES);
    self.feat("struct-class");
    self.new_class(name, Kind::Struct(fields), vec![])
  }
  fn mk_enum_nullary(&mut self) -> usize {
    let n = self.rng.range(1, 5) as usize;
    let vs = (0..n).map(|_| Variant { name: self.upper(VARIANT_NAMES), payload: vec![] }).collect();
    let name = self.upper(ENUM_NAMES);
    self.new_class(name, Kind::Enum(vs), vec![])
  }
  /// enum whose variants all carry payloads
  fn mk_enum_all_payload(&mut self) -> usize {
    let limit = self.classes.len();
    let n = self.rng.range(2, 3) as usize;
    let vs = (0..n)
      .map(|_| {
        let k = self.rng.range(1, 2) as usize;
        Variant { name: self.upper(VARIANT_NAMES), payload: (0..k).map(|_| self.closed_ty(limit, 0)).collect() }
      })
      .collect();
    let name = self.upper(ENUM_NAMES);
    self.new_class(name, Kind::Enum(vs), vec![])
  }
  fn mk_enum_general(&mut self) -> usize {
    let limit = self.classes.len();
    let n = self.rng.range(2, 5) as usize;
    let mut vs: Vec<Variant> = (0..n)
      .map(|_| {
        let k = *self.rng.pick(&[0usize, 0, 1, 1, 2, 3, 4]);
        Variant { name: self.upper(VARIANT_NAMES), payload: (0..k).map(|_| self.closed_ty(limit, 1)).collect() }
      })
      .collect();
    if self.one_in(3) {
      // make sure a several-payload variant exists
      vs[0].payload = (0..self.rng.range(2, 4)).map(|_| self.closed_ty(limit, 0)).collect();
    }
    let name = self.upper(ENUM_NAMES);
    self.new_class(name, Kind::Enum(vs), vec![])
  }
  /// `r` nullary variants + exactly one variant with exactly one payload of type `p` (None = the enum itself)
  fn mk_enum_single(&mut self, p: Option<Ty>, min_nullary: usize) -> usize {
    let r = self.rng.range(min_nullary as i64, 2) as usize;
    let me = self.classes.len();
    let mut vs: Vec<Variant> = (0..r).map(|_| Variant { name: self.upper(VARIANT_NAMES), payload: vec![] }).collect();
    let recursive = p.is_none();
    let pv = Variant { name: self.upper(VARIANT_NAMES), payload: vec![p.unwrap_or(Ty::Cls(me, vec![]))] };
    let pos = self.rng.below(vs.len() + 1);
    vs.insert(pos, pv);
    let base = (0..vs.len()).find(|i| vs[*i].payload.is_empty()).unwrap_or(0);
    let name = self.upper(ENUM_NAMES);
    let c = self.new_class(name, Kind::Enum(vs), vec![]);
    self.classes[c].recursive = recursive;
    self.classes[c].base_variant = base;
    c
  }

  fn shape_tags(&mut self, c: usize) {
    let vs = match &self.classes[c].kind {
      Kind::Enum(vs) => vs.clone(),
      _ => return,
    };
    self.feat("enum-class");
    let with_payload: Vec<&Variant> = vs.iter().filter(|v| !v.payload.is_empty()).collect();
    if with_payload.is_empty() {
      self.feat("enum:nullary-only");
    }
    if vs.len() > 2 {
      self.feat("enum:>2-variants");
    }
    if vs.len() == 1 && vs[0].payload.len() == 1 {
      self.feat("enum:one-variant-one-payload");
    }
    if vs.iter().any(|v| v.payload.len() >= 2) {
      self.feat("enum:many-payload");
    }
    if with_payload.len() == 1 && with_payload[0].payload.len() == 1 {
      let tag = match &with_payload[0].payload[0] {
        Ty::Cls(p, _) if *p == c => "enum:single-payload-self".to_string(),
        Ty::Cls(p, _) => match &self.classes[*p].kind {
          Kind::Struct(_) => "enum:single-payload-struct".to_string(),
          Kind::Enum(pvs) => {
            let refers_back = pvs.iter().any(|v| v.payload.iter().any(|t| matches!(t, Ty::Cls(q, _) if *q == c)));
            if refers_back {
              "enum:single-payload-mutual".to_string()
            } else if pvs.iter().all(|v| !v.payload.is_empty()) {
              "enum:single-payload-enum-all-payload".to_string()
            } else {
              "enum:single-payload-enum-with-nullary".to_string()
            }
          }
          _ => "enum:single-payload-other".to_string(),
        },
        Ty::Par(_) => "enum:single-payload-generic-param".to_string(),
        Ty::Int => "enum:single-payload-int".to_string(),
        Ty::Str => "enum:single-payload-str".to_string(),
        _ => "enum:single-payload-other".to_string(),
      };
      self.feat(&tag);
    }
  }

  fn gen_classes(&mut self) {
    let target = self.rng.range(2.min(self.cfg.max_classes as i64), self.cfg.max_classes as i64) as usize;
    let eh = self.cfg.enum_heavy;
    let mut made = 0usize;
    while made < target {
      let before = self.classes.len();
      let w: [u32; 7] = if eh { [12, 12, 40, 16, 6, 12, 2] } else { [28, 8, 18, 16, 10, 10, 10] };
      match self.weighted(&w) {
        0 => {
          self.mk_struct();
        }
        1 => {
          self.mk_enum_nullary();
        }
        2 => {
          // single payload shapes
          match self.rng.below(6) {
            0 => {
              let s = self.existing_or(|g| g.mk_struct(), |k| matches!(k, Kind::Struct(_)));
              self.mk_enum_single(Some(Ty::Cls(s, vec![])), 0);
            }
            1 => {
              let p = self.mk_enum_all_payload();
              self.mk_enum_single(Some(Ty::Cls(p, vec![])), 0);
            }
            2 => {
              let p = if self.one_in(2) { self.mk_enum_nullary() } else { self.mk_enum_single(Some(Ty::Int), 1) };
              self.mk_enum_single(Some(Ty::Cls(p, vec![])), 0);
            }
            3 | 4 => {
              self.mk_enum_single(None, 1);
            }
            _ => {
              // mutually recursive pair
              let a = self.mk_enum_single(Some(Ty::Int), 1);
              let b = self.mk_enum_single(Some(Ty::Cls(a, vec![])), 1);
              if let Kind::Enum(vs) = &mut self.classes[a].kind {
                for v in vs.iter_mut() {
                  if !v.payload.is_empty() {
                    v.payload = vec![Ty::Cls(b, vec![])];
                  }
                }
              }
              self.classes[a].recursive = true;
              self.classes[b].recursive = true;
              if self.n_mod >= 2 && self.classes[a].module == self.classes[b].module {
                self.classes[b].module = (self.classes[a].module + 1) % self.n_mod;
              }
            }
          }
        }
        3 => {
          self.mk_enum_general();
        }
        4 => {
          // generic struct
          let extra = self.one_in(2);
          let mut fields = vec![Field { name: "item".to_string(), ty: Ty::Par("T".into()) }];
          if extra {
            fields.push(Field { name: "n".to_string(), ty: Ty::Int });
          }
          let name = self.upper(&["Box", "Cellg", "Holder", "Slot"]);
          self.feat("generic-class");
          self.feat("struct-class");
          self.new_class(name, Kind::Struct(fields), vec![("T".into(), None)]);
        }
        5 => {
          // generic enum, exactly one single-payload variant of the generic parameter
          let r = self.rng.range(0, 2) as usize;
          let mut vs: Vec<Variant> = (0..r).map(|_| Variant { name: self.upper(VARIANT_NAMES), payload: vec![] }).collect();
          let pv = Variant { name: self.upper(VARIANT_NAMES), payload: vec![Ty::Par("T".into())] };
          let pos = self.rng.below(vs.len() + 1);
          vs.insert(pos, pv);
          let name = self.upper(&["Wrap", "Maybe", "Lazy", "Hold"]);
          self.feat("generic-class");
          self.new_class(name, Kind::Enum(vs), vec![("T".into(), None)]);
        }
        _ => {
          // generic recursive list-like enum
          let (nil, cons) = (self.upper(&["Nil", "End", "Stop"]), self.upper(&["Cons", "More", "Link"]));
          let me = self.classes.len();
          let vs = vec![
            Variant { name: nil, payload: vec![] },
            Variant { name: cons, payload: vec![Ty::Par("T".into()), Ty::Cls(me, vec![Ty::Par("T".into())])] },
          ];
          let name = self.upper(&["Chain", "Seq", "Stack"]);
          self.feat("generic-class");
          let c = self.new_class(name, Kind::Enum(vs), vec![("T".into(), None)]);
          self.classes[c].recursive = true;
          self.classes[c].base_variant = 0;
        }
      }
      made += self.classes.len() - before;
    }
    for c in 0..self.classes.len() {
      self.shape_tags(c);
    }
  }

  fn existing_or(&mut self, mk: impl Fn(&mut Self) -> usize, pred: impl Fn(&Kind) -> bool) -> usize {
    let cands: Vec<usize> = (0..self.classes.len()).filter(|c| pred(&self.classes[*c].kind) && self.classes[*c].tps.is_empty()).collect();
    if cands.is_empty() || self.one_in(3) { mk(self) } else { cands[self.rng.below(cands.len())] }
  }

  // ---------------------------------------------------------------------------------------------
  // function contexts
  // ---------------------------------------------------------------------------------------------

  fn begin_fn(&mut self, cls: usize, method: bool) {
    self.scope.clear();
    self.ctr = 0;
    self.used.clear();
    self.cost = 0;
    self.effects = false;
    self.pure_only = 0;
    self.call_cap = 40;
    self.lam_base.clear();
    self.lam_caps.clear();
    self.this_cls = if method { Some(cls) } else { None };
    self.cur_mod = self.classes[cls].module;
    self.cur_cls = cls;
  }

  fn render_fn(&self, private: bool, method: bool, tps: &str, name: &str, params: &[(String, Ty)], ret: &Ty, stmts: &[String], result: Option<&str>) -> String {
    let ps = params.iter().map(|(n, t)| format!("{n}: {}", self.ty_s(t))).collect::<Vec<_>>().join(", ");
    let head = format!("{}{} {tps}{name}({ps}): {} =", if private { "private " } else { "" }, if method { "method" } else { "function" }, self.ty_s(ret));
    if stmts.is_empty() {
      return format!("{head} {}", result.unwrap_or("{  }"));
    }
    let mut s = format!("{head} {{\n");
    for st in stmts {
      s.push_str(&format!("    {st};\n"));
    }
    if let Some(r) = result {
      s.push_str(&format!("    {r}\n"));
    }
    s.push_str("  }");
    s
  }

  // ---------------------------------------------------------------------------------------------
  // scripted members of data classes
  // ---------------------------------------------------------------------------------------------

  fn gen_show(&mut self, c: usize) {
    let cls = self.classes[c].clone();
    self.begin_fn(c, true);
    let generic = !cls.tps.is_empty();
    let params: Vec<(String, Ty)> = cls.tps.iter().map(|(p, _)| (format!("sh{p}"), Ty::Fun(vec![Ty::Par(p.clone())], Box::new(Ty::Str)))).collect();
    let pass = params.iter().map(|(n, _)| n.clone()).collect::<Vec<_>>().join(", ");
    let body = match &cls.kind {
      Kind::Struct(fs) => {
        let mut s = format!("\"{}(\"", cls.name);
        for (i, f) in fs.iter().enumerate() {
          if i > 0 {
            s.push_str(" :: \",\"");
          }
          let inner = self.show_member(&f.ty, &format!("this.{}", f.name), c, &pass);
          s.push_str(&format!(" :: {inner}"));
        }
        s.push_str(" :: \")\"");
        s
      }
      Kind::Enum(vs) => {
        let mut arms = Vec::new();
        for v in vs {
          if v.payload.is_empty() {
            arms.push(format!("{} -> \"{}\"", v.name, v.name));
          } else {
            let names: Vec<String> = v.payload.iter().map(|_| self.fresh("q")).collect();
            let mut s = format!("\"{}(\"", v.name);
            for (i, (n, t)) in names.iter().zip(&v.payload).enumerate() {
              if i > 0 {
                s.push_str(" :: \",\"");
              }
              let inner = self.show_member(t, n, c, &pass);
              s.push_str(&format!(" :: {inner}"));
            }
            s.push_str(" :: \")\"");
            arms.push(format!("{}({}) -> {s}", v.name, names.join(", ")));
          }
        }
        if arms.len() <= 3 { format!("match this {{ {} }}", arms.join(", ")) } else { format!("match this {{\n      {},\n    }}", arms.join(",\n      ")) }
      }
      _ => return,
    };
    let text = self.render_fn(false, true, "", "show", &params, &Ty::Str, &[], Some(&body));
    self.classes[c].members.push(text);
    self.funcs.push(Func {
      cls: c,
      name: "show".into(),
      method: true,
      private: false,
      params: params.iter().map(|(_, t)| (t.clone(), SMALL)).collect(),
      ret: Ty::Str,
      ret_iv: SMALL,
      effects: false,
      cost: if cls.recursive { 12 } else { 3 },
      scripted: generic,
    });
  }
  /// show of a member inside a show method: the class's own type parameters are rendered through the
  /// `shT` function parameters, recursive occurrences pass them on
  fn show_member(&mut self, t: &Ty, code: &str, me: usize, pass: &str) -> String {
    match t {
      Ty::Cls(c, args) if *c == me && !args.is_empty() => format!("{code}.show({pass})"),
      Ty::Cls(_, args) if !args.is_empty() => {
        // generic class instantiated with our own parameter or closed types
        let lams: Vec<String> = args
          .iter()
          .map(|a| match a {
            Ty::Par(p) => format!("sh{p}"),
            _ => {
              let x = self.fresh("s");
              let body = self.show(a, &x);
              format!("({x}) -> {body}")
            }
          })
          .collect();
        format!("{code}.show({})", lams.join(", "))
      }
      _ => self.show(t, code),
    }
  }

  fn gen_generic_members(&mut self, c: usize) {
    let cls = self.classes[c].clone();
    let h = cls.name.clone();
    let t = Ty::Par("T".into());
    let self_ty = Ty::Cls(c, vec![t.clone()]);
    let add = |g: &mut Self, name: &str, text: String, params: Vec<(Ty, Iv)>, ret: Ty, ret_iv: Iv, scripted: bool, cost: u32| {
      g.classes[c].members.push(text);
      g.funcs.push(Func { cls: c, name: name.into(), method: true, private: false, params, ret, ret_iv, effects: false, cost, scripted });
    };
    match &cls.kind {
      Kind::Struct(fs) => {
        add(self, "get", "method get(): T = this.item".into(), vec![], t.clone(), SMALL, false, 1);
        let rest: String = fs.iter().skip(1).map(|f| format!(", this.{}", f.name)).collect();
        add(self, "map", format!("method <R> map(f: (T) -> R): {h}<R> = {h}.init(f(this.item){rest})"), vec![], Ty::Unit, SMALL, true, 3);
        add(self, "replace", format!("method replace(t: T): {h}<T> = {h}.init(t{rest})"), vec![(t.clone(), SMALL)], self_ty.clone(), SMALL, false, 1);
        if fs.len() > 1 {
          add(self, "count", "method count(): int = this.n".into(), vec![], Ty::Int, SMALL, false, 1);
        }
        self.feat("generic-method");
      }
      Kind::Enum(vs) if !cls.recursive => {
        let pv = vs.iter().find(|v| !v.payload.is_empty()).unwrap().name.clone();
        let others: Vec<String> = vs.iter().filter(|v| v.payload.is_empty()).map(|v| v.name.clone()).collect();
        let or_pat = |body: &str| if others.is_empty() { String::new() } else { format!(", {} -> {body}", others.join(" | ")) };
        if others.len() >= 2 {
          self.feat("pattern:or");
        }
        add(self, "getOr", format!("method getOr(d: T): T = match this {{ {pv}(x) -> x{} }}", or_pat("d")), vec![(t.clone(), SMALL)], t.clone(), SMALL, false, 1);
        add(self, "isFull", format!("method isFull(): bool = match this {{ {pv}(_) -> true{} }}", or_pat("false")), vec![], Ty::Bool, SMALL, false, 1);
        let other_arms: String = others.iter().map(|o| format!(", {o} -> {h}.{o}<R>()")).collect();
        add(self, "map", format!("method <R> map(f: (T) -> R): {h}<R> = match this {{ {pv}(x) -> {h}.{pv}(f(x)){other_arms} }}"), vec![], Ty::Unit, SMALL, true, 3);
        self.feat("generic-method");
      }
      Kind::Enum(vs) => {
        // recursive list-like
        let (nil, cons) = (vs[0].name.clone(), vs[1].name.clone());
        add(self, "size", format!("method size(): int = match this {{ {nil} -> 0, {cons}(_, rest) -> 1 + rest.size() }}"), vec![], Ty::Int, Iv::new(0, 64), false, 8);
        add(self, "prepend", format!("method prepend(t: T): {h}<T> = {h}.{cons}(t, this)"), vec![(t.clone(), SMALL)], self_ty.clone(), SMALL, false, 1);
        add(
          self,
          "foldl",
          format!("method <A> foldl(f: (A, T) -> A, acc: A): A = match this {{ {nil} -> acc, {cons}(x, rest) -> rest.foldl(f, f(acc, x)) }}"),
          vec![],
          Ty::Unit,
          SMALL,
          true,
          10,
        );
        self.feat("generic-method");
        self.feat("non-tail-recursion");
      }
      _ => {}
    }
  }

  /// recursive (self / mutual) plain enums: of(n) builder and depth()
  fn gen_recursive_members(&mut self, c: usize) {
    let cls = self.classes[c].clone();
    let vs = match &cls.kind {
      Kind::Enum(vs) => vs.clone(),
      _ => return,
    };
    let base = vs[cls.base_variant].name.clone();
    let pv = vs.iter().find(|v| !v.payload.is_empty()).unwrap().clone();
    let partner = match &pv.payload[0] {
      Ty::Cls(p, _) => *p,
      _ => return,
    };
    let (me, pn) = (cls.name.clone(), self.classes[partner].name.clone());
    let others: Vec<String> = vs.iter().filter(|v| v.payload.is_empty()).map(|v| v.name.clone()).collect();
    let nmax = 12;
    self.classes[c].members.push(format!(
      "function of(n: int): {me} = if n <= 0 {{ {me}.{base}() }} else {{ {me}.{}({pn}.of(n - 1)) }}",
      pv.name
    ));
    self.funcs.push(Func { cls: c, name: "of".into(), method: false, private: false, params: vec![(Ty::Int, Iv::new(-2, nmax))], ret: Ty::Cls(c, vec![]), ret_iv: SMALL, effects: false, cost: 14, scripted: false });
    let zero = if others.len() > 1 { self.feat("pattern:or"); others.join(" | ") } else { others[0].clone() };
    let form = self.rng.below(2);
    self.classes[c].members.push(if form == 0 {
      format!("method depth(): int = match this {{ {zero} -> 0, {}(p) -> 1 + p.depth() }}", pv.name)
    } else {
      format!("method depth(): int = match this {{ {}(p) -> p.depth() + 1, _ -> 0 }}", pv.name)
    });
    self.funcs.push(Func { cls: c, name: "depth".into(), method: true, private: false, params: vec![], ret: Ty::Int, ret_iv: Iv::new(0, 200), effects: false, cost: 14, scripted: false });
    self.feat("non-tail-recursion");
    self.feat("recursive-enum-value");
  }

  // ---------------------------------------------------------------------------------------------
  // random members
  // ---------------------------------------------------------------------------------------------

  fn param_ty(&mut self) -> Ty {
    let limit = self.classes.len();
    if self.pct(8) {
      // function-typed parameter (higher-order function)
      let n = self.rng.range(1, 2) as usize;
      let ps = (0..n).map(|_| if self.one_in(3) { Ty::Str } else { Ty::Int }).collect();
      let r = *self.rng.pick(&[&Ty::Int, &Ty::Int, &Ty::Bool, &Ty::Str]);
      return Ty::Fun(ps, Box::new(r.clone()));
    }
    self.closed_ty(limit, 1)
  }
  fn ret_ty(&mut self) -> Ty {
    let limit = self.classes.len();
    match self.weighted(&[40, 14, 18, 8, 20]) {
      0 => Ty::Int,
      1 => Ty::Bool,
      2 => Ty::Str,
      3 => Ty::Unit,
      _ => {
        if self.pct(10) {
          Ty::Fun(vec![Ty::Int], Box::new(Ty::Int))
        } else {
          self.closed_ty(limit, 1)
        }
      }
    }
  }
  fn fn_name(&mut self, c: usize) -> String {
    self.classes[c].n_random += 1;
    let b = *self.rng.pick(FN_NAMES);
    format!("{b}{}", self.funcs.len())
  }
  fn depth(&self) -> usize {
    self.cfg.max_expr_depth
  }

  fn gen_random_fn(&mut self, c: usize) {
    let is_data = matches!(self.classes[c].kind, Kind::Struct(_) | Kind::Enum(_));
    let method = is_data && self.pct(75);
    let private = self.pct(15);
    let name = self.fn_name(c);
    self.begin_fn(c, method);
    let np = self.rng.below(4);
    let mut params: Vec<(String, Ty)> = Vec::new();
    let mut sig: Vec<(Ty, Iv)> = Vec::new();
    for _ in 0..np {
      let t = self.param_ty();
      let n = self.fresh("p");
      let iv = if t == Ty::Int && self.one_in(4) { Iv::new(0, *self.rng.pick(&[1i64, 9, 100])) } else { SMALL };
      self.push_var(&n, t.clone(), iv);
      if matches!(t, Ty::Fun(..)) {
        self.feat("higher-order-function");
      }
      params.push((n, t.clone()));
      sig.push((t, iv));
    }
    let ret = self.ret_ty();
    let fx = self.pct(55);
    if !fx {
      self.pure_only = 1;
    }
    let mut stmts = Vec::new();
    let ns = self.rng.below(3) + if ret == Ty::Unit { 1 } else { 0 };
    for _ in 0..ns {
      self.simple_stmt(&mut stmts, fx);
    }
    let d = self.depth();
    let res = match &ret {
      Ty::Unit => None,
      Ty::Fun(ps, r) => Some(self.lambda(ps, r, d, true)),
      t => Some(self.expr_iv(t, d, FULL)),
    };
    let ret_iv = res.as_ref().map(|r| r.iv).unwrap_or(SMALL);
    let text = self.render_fn(private, method, "", &name, &params, &ret, &stmts, res.as_ref().map(|r| r.s.as_str()));
    self.classes[c].members.push(text);
    let f = Func { cls: c, name: name.clone(), method, private, params: sig.clone(), ret: ret.clone(), ret_iv, effects: self.effects, cost: 1 + self.cost, scripted: false };
    self.funcs.push(f);
    if private {
      self.feat("private-member");
      // a public way in, so that the private member is reachable from other modules
      let wname = format!("{name}Pub");
      let args = params.iter().map(|(n, _)| n.clone()).collect::<Vec<_>>().join(", ");
      let call = if method { format!("this.{name}({args})") } else { format!("{}.{name}({args})", self.classes[c].name) };
      let text = self.render_fn(false, method, "", &wname, &params, &ret, &[], Some(&call));
      self.classes[c].members.push(text);
      self.funcs.push(Func { cls: c, name: wname, method, private: false, params: sig, ret, ret_iv, effects: self.effects, cost: 2 + self.cost, scripted: false });
    }
  }

  /// closure-returning method that captures `this` (and a parameter)
  fn gen_closure_method(&mut self, c: usize) {
    let ints: Vec<String> = match &self.classes[c].kind {
      Kind::Struct(fs) => fs.iter().filter(|f| f.ty == Ty::Int).map(|f| f.name.clone()).collect(),
      _ => vec![],
    };
    if ints.is_empty() || !self.classes[c].tps.is_empty() {
      return;
    }
    let name = format!("adder{}", self.funcs.len());
    self.begin_fn(c, true);
    let f = ints[self.rng.below(ints.len())].clone();
    let (p, a) = (self.fresh("p"), self.fresh("a"));
    let k = self.rng.range(1, 9);
    let body = match self.rng.below(3) {
      0 => format!("({a}) -> ({a} + this.{f}) % 1000"),
      1 => format!("({a}) -> ({a} * {k} + {p} + this.{f}) % 1000"),
      _ => format!("{{\n      let loc = ({p} * {k}) % 100;\n      ({a}) -> ({a} + loc - this.{f}) % 1000\n    }}"),
    };
    self.feat("closure-captures-this");
    if !body.starts_with("({a}) -> ({a} + this") {
      self.feat("closure-captures-local");
    }
    let fty = Ty::Fun(vec![Ty::Int], Box::new(Ty::Int));
    let text = self.render_fn(false, true, "", &name, &[(p, Ty::Int)], &fty, &[], Some(&body));
    self.classes[c].members.push(text);
    self.funcs.push(Func { cls: c, name, method: true, private: false, params: vec![(Ty::Int, SMALL)], ret: fty, ret_iv: SMALL, effects: false, cost: 1, scripted: false });
  }

  // ---------------------------------------------------------------------------------------------
  // scripted recursion (decreasing counter with a base case)
  // ---------------------------------------------------------------------------------------------

  fn gen_recursion(&mut self, c: usize) {
    let cn = self.classes[c].name.clone();
    let name = format!("rec{}", self.funcs.len());
    let kind = self.rng.below(6);
    let k = self.rng.range(2, 7);
    let m = *self.rng.pick(&[1009i64, 255, 256, 1023, 10007]);
    let c0 = self.rng.range(-3, 5);
    let call1 = format!("{cn}.{name}(n - 1)");
    let (nmax, comb, cost): (i64, String, u32) = match kind {
      0 => (self.rng.range(3, 60), if self.one_in(2) { format!("n + {call1}") } else { format!("{call1} + n") }, 0),
      1 => (self.rng.range(2, 10), if self.one_in(2) { format!("n * {call1}") } else { format!("{call1} * n") }, 0),
      2 => (self.rng.range(3, 40), format!("({call1} * {k} + n) % {m}"), 0),
      3 => (self.rng.range(2, 9), format!("{cn}.{name}(n - 1) + {cn}.{name}(n - 2)"), 120),
      4 => (self.rng.range(3, 30), format!("{call1} - n * {k}"), 0),
      _ => (self.rng.range(2, 6), format!("{{\n      Process.println(\"{name} \" :: Str.fromInt(n));\n      n + {call1}\n    }}"), 0),
    };
    // interval by iterating the recurrence
    let c0 = if kind == 1 { c0.abs().max(1) } else { c0 };
    let mut vals: Vec<Iv> = vec![Iv::pt(c0), Iv::pt(c0)];
    let mut hull = Iv::pt(c0);
    for n in 1..=nmax {
      let prev = vals[vals.len() - 1];
      let prev2 = vals[vals.len() - 2];
      let nv = Iv::pt(n);
      let v = match kind {
        0 | 5 => nv.add(prev),
        1 => nv.mul(prev),
        2 => prev.mul(Iv::pt(k)).add(nv).rem(Iv::pt(m)),
        3 => prev.add(prev2),
        _ => prev.sub(nv.mul(Iv::pt(k))),
      };
      vals.push(v);
      hull = hull.hull(v);
    }
    if !hull.within(SAFE) {
      return;
    }
    let base_cond = if kind == 3 { "n <= 1" } else { "n <= 0" };
    let guard = match self.rng.below(3) {
      0 => format!("if {base_cond} {{ {c0} }} else {{ {comb} }}"),
      1 => format!("if {} {{ {comb} }} else {{ {c0} }}", if kind == 3 { "n > 1" } else { "n > 0" }),
      _ => format!("if {} {{ {c0} }} else {{ {comb} }}", if kind == 3 { "2 > n" } else { "1 > n" }),
    };
    let guard = guard.replace(&format!("{{ {c0} }}"), &if c0 < 0 { format!("{{ 0 - {} }}", -c0) } else { format!("{{ {c0} }}") });
    self.classes[c].members.push(format!("function {name}(n: int): int =\n    {guard}"));
    self.funcs.push(Func {
      cls: c,
      name,
      method: false,
      private: false,
      params: vec![(Ty::Int, Iv::new(-2, nmax))],
      ret: Ty::Int,
      ret_iv: hull,
      effects: kind == 5,
      cost: if cost > 0 { cost } else { nmax as u32 + 1 },
      scripted: false,
    });
    self.feat("non-tail-recursion");
  }

  /// mutual recursion between two classes (an import cycle when they live in different modules)
  fn gen_ping_pong(&mut self, a: usize, b: usize) {
    let (an, bn) = (self.classes[a].name.clone(), self.classes[b].name.clone());
    let (x, y) = (self.rng.range(1, 5), self.rng.range(1, 5));
    let id = self.funcs.len();
    let (pa, pb) = (format!("ping{id}"), format!("pong{id}"));
    self.classes[a].members.push(format!("function {pa}(n: int): int = if n <= 0 {{ 0 }} else {{ {x} + {bn}.{pb}(n - 1) }}"));
    self.classes[b].members.push(format!("function {pb}(n: int): int = if n <= 0 {{ 1 }} else {{ {an}.{pa}(n - 1) * 2 % 1000 + {y} }}"));
    let nmax = 24;
    let mk = |cls: usize, name: String| Func { cls, name, method: false, private: false, params: vec![(Ty::Int, Iv::new(-2, nmax))], ret: Ty::Int, ret_iv: Iv::new(0, 30_000), effects: false, cost: nmax as u32 + 1, scripted: false };
    self.funcs.push(mk(a, pa));
    self.funcs.push(mk(b, pb));
    self.ping = Some((self.funcs.len() - 2, self.funcs.len() - 1));
    self.feat("mutual-recursion");
    self.feat("non-tail-recursion");
  }
}

// -------------------------------------------------------------------------------------------------
// loops: self-tail-recursive functions with induction variables
// -------------------------------------------------------------------------------------------------

impl<'a> G<'a> {
  fn gen_loop(&mut self, c: usize) {
    let cn = self.classes[c].name.clone();
    let name = format!("loop{}", self.funcs.len());
    self.begin_fn(c, false);
    let heavy = self.cfg.loop_heavy;
    let n_trip: i64 = match self.rng.below(10) {
      0 => 0,
      1 => 1,
      2..=6 => self.rng.range(2, 12),
      _ => self.rng.range(13, if heavy { 120 } else { 40 }),
    };
    let stride: i64 = *self.rng.pick(&[1i64, 1, 1, 2, 3, 5, 7, -1, -1, -2, -3, -5]);
    let start: i64 = match self.rng.below(4) {
      0 => *self.rng.pick(HOSTILE),
      1 => self.rng.range(-20, 20),
      2 => *self.rng.pick(HOSTILE) - n_trip * stride,
      _ => self.rng.range(-1000, 1000),
    };
    let end = start + n_trip * stride;
    let i_iv = Iv::new(start, end);
    // guard: continue while ...
    let kind = self.rng.below(3); // 0: strict, 1: non-strict, 2: !=
    let slack = self.rng.below(stride.unsigned_abs() as usize) as i64;
    let (op, bound): (&str, i64) = match (stride > 0, kind) {
      (true, 0) => ("<", end - slack),
      (true, 1) => ("<=", end - slack - 1),
      (false, 0) => (">", end + slack),
      (false, 1) => (">=", end + slack + 1),
      _ => ("!=", end),
    };
    let bound_is_param = self.pct(50);
    let hidden_k = self.pct(40);
    // parameters
    let mut params: Vec<(String, Ty)> = vec![("i".into(), Ty::Int)];
    let mut sig: Vec<(Ty, Iv)> = vec![(Ty::Int, i_iv)];
    self.push_var("i", Ty::Int, i_iv);
    let b_txt = if bound_is_param {
      params.push(("n".into(), Ty::Int));
      sig.push((Ty::Int, Iv::pt(bound)));
      self.push_var("n", Ty::Int, Iv::pt(bound));
      "n".to_string()
    } else if bound < 0 {
      format!("({bound})")
    } else {
      format!("{bound}")
    };
    let kval = self.rng.range(2, 9);
    if hidden_k {
      params.push(("k".into(), Ty::Int));
      sig.push((Ty::Int, Iv::pt(kval)));
      self.push_var("k", Ty::Int, Iv::pt(kval));
    }
    // condition text, both operand orders, continue-form or exit-form
    let flip = |o: &str| match o {
      "<" => ">",
      "<=" => ">=",
      ">" => "<",
      ">=" => "<=",
      x => x,
    }
    .to_string();
    let negate = |o: &str| match o {
      "<" => ">=",
      "<=" => ">",
      ">" => "<=",
      ">=" => "<",
      "!=" => "==",
      _ => "!=",
    }
    .to_string();
    let exit_form = self.one_in(2);
    let swapped = self.one_in(2);
    let the_op = if exit_form { negate(op) } else { op.to_string() };
    let cond = if swapped { format!("{b_txt} {} i", flip(&the_op)) } else { format!("i {the_op} {b_txt}") };
    self.feat(&format!("loop-guard:{}{}", the_op, if swapped { ":swapped" } else { "" }));
    self.feat("tail-recursion");
    self.feat("induction-variable");
    self.feat(if stride > 0 { "loop-stride:positive" } else { "loop-stride:negative" });

    // body statements
    let quiet = n_trip > 12;
    if quiet {
      self.pure_only = 1;
    }
    self.call_cap = 3;
    let mut body: Vec<String> = Vec::new();
    if (bound_is_param || hidden_k) && self.pct(70) {
      // loop-invariant subexpression
      let a = if bound_is_param { "n" } else { "k" };
      let a_iv = if bound_is_param { Iv::pt(bound) } else { Iv::pt(kval) };
      let (m, cc) = (self.rng.range(2, 5), self.rng.range(-9, 9));
      let iv = a_iv.mul(Iv::pt(m)).add(Iv::pt(cc));
      if iv.within(SAFE) && a_iv.mul(Iv::pt(m)).within(SAFE) {
        body.push(format!("let inv = {a} * {m} + {}", if cc < 0 { format!("({cc})") } else { format!("{cc}") }));
        self.push_var("inv", Ty::Int, iv);
        self.feat("loop-invariant-expr");
      }
    }
    if self.pct(75) {
      // derived induction variable i * m + c
      let m_txt = if hidden_k && self.one_in(2) { "k".to_string() } else { format!("{}", self.rng.range(2, 9)) };
      let m_iv = if m_txt == "k" { Iv::pt(kval) } else { Iv::pt(m_txt.parse().unwrap()) };
      let cc = self.rng.range(-20, 20);
      let cs = if cc < 0 { format!("- {}", -cc) } else { format!("+ {cc}") };
      let direct = i_iv.mul(m_iv).add(Iv::pt(cc));
      if direct.within(SAFE) && i_iv.mul(m_iv).within(SAFE) {
        body.push(format!("let dv = i * {m_txt} {cs}"));
        self.push_var("dv", Ty::Int, direct);
      } else if self.cfg.allow_overflow && self.one_in(2) {
        body.push(format!("let dv = i * {m_txt} {cs}"));
        self.push_var("dv", Ty::Int, FULL);
        self.feat("overflow-possible");
      } else {
        let rel = i_iv.sub(Iv::pt(start));
        let ss = if start < 0 { format!("+ {}", -start) } else { format!("- {start}") };
        body.push(format!("let dv = (i {ss}) * {m_txt} {cs}"));
        self.push_var("dv", Ty::Int, rel.mul(m_iv).add(Iv::pt(cc)));
      }
      self.feat("derived-induction-variable");
    }
    if self.pct(45) {
      // dead division / remainder
      let dvs = *self.rng.pick(&[2i64, 3, 7, 16, 255]);
      let src = if self.scope.iter().any(|v| v.name == "dv") && self.one_in(2) { "dv" } else { "i" };
      body.push(format!("let dq = {src} {} {dvs}", if self.one_in(2) { "/" } else { "%" }));
      self.used.insert("dq".into());
      self.feat("dead-div-rem");
    }
    if !quiet && self.pct(50) {
      let p = self.println("\"it \" :: Str.fromInt(i)");
      body.push(p);
    }
    // accumulators
    let n_acc = self.rng.range(1, 3) as usize;
    let mut accs: Vec<(String, Ty, Iv)> = Vec::new(); // name, type, init interval
    let mut updates: Vec<String> = Vec::new();
    for j in 0..n_acc {
      let an = format!("acc{j}");
      let kind = self.weighted(&[40, 25, 12, if n_trip <= 30 { 12 } else { 0 }, 11]);
      match kind {
        0 => {
          let e = self.int_raw(2);
          let lim = *self.rng.pick(&[9i64, 100, 1000]);
          let e = self.fit(e, Iv::new(-lim, lim));
          let init = Iv::new(-50, 50);
          let grow = e.iv.mag() * n_trip;
          let iv = Iv::new(init.lo - grow, init.hi + grow);
          let up = match self.rng.below(3) {
            0 => format!("{an} + {}", e.p()),
            1 => format!("{} + {an}", e.p()),
            _ => format!("{an} - {}", e.p()),
          };
          updates.push(up);
          accs.push((an.clone(), Ty::Int, init));
          params.push((an.clone(), Ty::Int));
          sig.push((Ty::Int, iv));
          self.push_var(&an, Ty::Int, iv);
        }
        1 => {
          let m = *self.rng.pick(&[1009i64, 255, 256, 1023, 10007]);
          let k = self.rng.range(2, 31);
          let e = self.int_raw(1);
          let e = self.fit(e, Iv::new(-30000, 30000));
          let init = Iv::new(-50, 50);
          let iv = init.hull(Iv::new(-(m - 1), m - 1));
          updates.push(format!("({an} * {k} + {}) % {m}", e.p()));
          accs.push((an.clone(), Ty::Int, init));
          params.push((an.clone(), Ty::Int));
          sig.push((Ty::Int, iv));
          self.push_var(&an, Ty::Int, iv);
        }
        2 => {
          let e = self.int_raw(1);
          let e = self.fit(e, Iv::new(-30000, 30000));
          let init = Iv::new(-50, 50);
          let iv = init.hull(e.iv);
          let gt = if self.one_in(2) { ">" } else { "<" };
          updates.push(format!("if {} {gt} {an} {{ {} }} else {{ {an} }}", lt_safe(&e.p()), e.s));
          accs.push((an.clone(), Ty::Int, init));
          params.push((an.clone(), Ty::Int));
          sig.push((Ty::Int, iv));
          self.push_var(&an, Ty::Int, iv);
          if !e.pure_ {
            // the update evaluates e twice: only a pure e keeps the trace meaningful, but both are deterministic
          }
        }
        3 => {
          let e = self.int_raw(1);
          updates.push(format!("{an} :: Str.fromInt({}) :: \",\"", e.s));
          accs.push((an.clone(), Ty::Str, SMALL));
          params.push((an.clone(), Ty::Str));
          sig.push((Ty::Str, SMALL));
          self.push_var(&an, Ty::Str, SMALL);
        }
        _ => {
          let cnd = self.bool_expr(1);
          let up = match self.rng.below(3) {
            0 => format!("{an} && {}", cnd.p()),
            1 => format!("{an} || {}", cnd.p()),
            _ => format!("{an} != {}", cnd.p()),
          };
          updates.push(up);
          accs.push((an.clone(), Ty::Bool, SMALL));
          params.push((an.clone(), Ty::Bool));
          sig.push((Ty::Bool, SMALL));
          self.push_var(&an, Ty::Bool, SMALL);
        }
      }
    }
    // recursive call
    let step = if stride < 0 && self.one_in(2) { format!("i - {}", -stride) } else if stride < 0 { format!("i + ({stride})") } else { format!("i + {stride}") };
    let mut args = vec![step];
    if bound_is_param {
      args.push("n".into());
    }
    if hidden_k {
      args.push("k".into());
    }
    args.extend(updates);
    let recur = format!("{cn}.{name}({})", args.join(", "));
    // result
    let strs: Vec<String> = accs.iter().filter(|a| a.1 == Ty::Str).map(|a| a.0.clone()).collect();
    let ints: Vec<(String, Iv)> = accs.iter().zip(sig.iter().skip(sig.len() - accs.len())).filter(|(a, _)| a.1 == Ty::Int).map(|(a, s)| (a.0.clone(), s.1)).collect();
    let bools: Vec<String> = accs.iter().filter(|a| a.1 == Ty::Bool).map(|a| a.0.clone()).collect();
    let (ret, ret_iv, result): (Ty, Iv, String) = if !strs.is_empty() {
      let mut s = strs.join(" :: ");
      for (n, _) in &ints {
        s.push_str(&format!(" :: \"|\" :: Str.fromInt({n})"));
      }
      for b in &bools {
        s.push_str(&format!(" :: (if {b} {{ \"t\" }} else {{ \"f\" }})"));
      }
      (Ty::Str, SMALL, s)
    } else if ints.is_empty() {
      if bools.len() == 1 { (Ty::Bool, SMALL, bools[0].clone()) } else { (Ty::Bool, SMALL, bools.join(" == ")) }
    } else {
      let mut e = Ex { s: ints[0].0.clone(), iv: ints[0].1, atom: true, pure_: true };
      for (n, iv) in ints.iter().skip(1) {
        let b = Ex { s: n.clone(), iv: *iv, atom: true, pure_: true };
        let op = *self.rng.pick(&['+', '-']);
        e = self.arith(op, e, b);
      }
      for b in &bools {
        let x = Ex { s: format!("if {b} {{ 1 }} else {{ 0 }}"), iv: Iv::new(0, 1), atom: false, pure_: true };
        e = self.arith('+', e, x);
      }
      (Ty::Int, e.iv, e.s)
    };
    let mut text = format!(
      "function {name}({}): {} =\n",
      params.iter().map(|(n, t)| format!("{n}: {}", self.ty_s(t))).collect::<Vec<_>>().join(", "),
      self.ty_s(&ret)
    );
    let mut blk = String::from("{\n");
    for st in &body {
      blk.push_str(&format!("      {st};\n"));
    }
    blk.push_str(&format!("      {recur}\n    }}"));
    if exit_form {
      text.push_str(&format!("    if {cond} {{ {result} }} else {blk}"));
    } else {
      text.push_str(&format!("    if {cond} {blk} else {{ {result} }}"));
    }
    self.classes[c].members.push(text);
    if self.cost > 0 {
      self.feat("call-in-loop");
    }
    let cost = 1 + (n_trip as u32) * (2 + self.cost);
    self.funcs.push(Func { cls: c, name, method: false, private: false, params: sig, ret: ret.clone(), ret_iv, effects: self.effects, cost, scripted: true });
    self.loops.push(LoopInfo {
      func: self.funcs.len() - 1,
      start,
      bound: if bound_is_param { Some(bound) } else { None },
      extra: if hidden_k { Some(kval) } else { None },
      accs: accs.iter().map(|a| (a.1.clone(), a.2)).collect(),
      ret,
    });
  }

  // ---------------------------------------------------------------------------------------------
  // interface + bounded generic function
  // ---------------------------------------------------------------------------------------------

  fn gen_interface(&mut self) {
    let structs: Vec<usize> = self.data_classes().into_iter().filter(|c| self.classes[*c].tps.is_empty()).collect();
    if structs.len() < 2 {
      return;
    }
    let iname = self.upper(&["Shape", "Named", "Thing", "Entity"]);
    let i = self.new_class(iname.clone(), Kind::Iface, vec![]);
    self.classes[i].members.push("method name(): Str".into());
    self.classes[i].members.push("method area(): int".into());
    let mut pool = structs.clone();
    self.rng.shuffle(&mut pool);
    let n = self.rng.range(2, 3.min(pool.len() as i64)) as usize;
    for &c in pool.iter().take(n) {
      self.classes[c].impls.push(i);
      self.begin_fn(c, true);
      let nm = self.str_lit();
      let is_enum = matches!(self.classes[c].kind, Kind::Enum(_));
      let name_body = if is_enum && self.one_in(2) {
        let t = self.this_ty().unwrap();
        self.gen_match("this", &t, &Ty::Str, 1, SMALL, false).s
      } else {
        nm
      };
      self.pure_only = 1;
      let area = self.expr_iv(&Ty::Int, 2, SMALL);
      self.classes[c].members.push(format!("method name(): Str = {name_body}"));
      self.classes[c].members.push(format!("method area(): int = {}", area.s));
      self.funcs.push(Func { cls: c, name: "name".into(), method: true, private: false, params: vec![], ret: Ty::Str, ret_iv: SMALL, effects: false, cost: 2, scripted: false });
      self.funcs.push(Func { cls: c, name: "area".into(), method: true, private: false, params: vec![], ret: Ty::Int, ret_iv: area.iv, effects: false, cost: 2 + self.cost, scripted: false });
      self.iface_impls.push(c);
    }
    self.iface = Some(i);
    let h = self.helper;
    self.classes[h].members.push(format!("function <T: {iname}> describe(s: T): Str = s.name() :: \":\" :: Str.fromInt(s.area())"));
    if self.one_in(2) {
      self.classes[h].members.push(format!("function <A: {iname}, B: {iname}> bigger(a: A, b: B): Str = if a.area() >= b.area() {{ a.name() }} else {{ b.name() }}"));
      self.helpers.insert("bigger".into(), 0);
    }
    self.feat("interface");
    self.feat("interface-bounded-generic");
    if self.pct(35) {
      // generic class with a bounded parameter
      let hn = self.upper(&["Tagged", "Framed"]);
      let implements = self.one_in(2);
      let c = self.new_class(hn, Kind::Struct(vec![Field { name: "item".into(), ty: Ty::Par("T".into()) }]), vec![("T".into(), Some(i))]);
      self.classes[c].members.push("method label(): Str = \"<\" :: this.item.name() :: \">\"".into());
      if implements {
        self.classes[c].impls.push(i);
        self.classes[c].members.push("method name(): Str = \"tagged \" :: this.item.name()".into());
        self.classes[c].members.push("method area(): int = this.item.area() + 1".into());
      }
      self.holder = Some(c);
      self.feat("bounded-generic-class");
    }
  }

  fn gen_generic_fns(&mut self) {
    let h = self.helper;
    let hn = self.hname();
    self.classes[h].members.push("function <T> id(t: T): T = t".into());
    self.classes[h].members.push("function <A, B> apply(f: (A) -> B, a: A): B = f(a)".into());
    self.classes[h].members.push("function <A> twice(f: (A) -> A, a: A): A = f(f(a))".into());
    self.classes[h].members.push("function <A, B> swap(p: Pair<A, B>): Pair<B, A> = (p.e1, p.e0)".into());
    if self.pct(35) {
      self.classes[h].members.push("function <A, B, C> compose(f: (A) -> B, g: (B) -> C): (A) -> C = (x) -> g(f(x))".to_string());
      self.helpers.insert("compose".into(), 0);
    }
    self.classes[h].members.push(format!("function <T> pick(c: bool, a: T, b: T): T = if c {{ a }} else {{ {hn}.id(b) }}"));
    self.helpers.insert("generic-fns".into(), 0);
    self.feat("generic-method");
  }
}

// -------------------------------------------------------------------------------------------------
// statements
// -------------------------------------------------------------------------------------------------

impl<'a> G<'a> {
  /// let + optional print, destructuring, if / match statements with prints
  fn simple_stmt(&mut self, out: &mut Vec<String>, fx: bool) {
    let d = self.depth();
    match self.weighted(&[50, 12, if fx { 14 } else { 0 }, if fx { 12 } else { 0 }, if fx { 8 } else { 0 }]) {
      0 => {
        let limit = self.classes.len();
        let t = if self.one_in(2) { Ty::Int } else { self.closed_ty(limit, 1) };
        let pr = fx && self.rng.chance(3, 4);
        self.stmt_let(out, &t, d, pr);
      }
      1 => self.stmt_destructure(out, fx),
      2 => self.stmt_if(out, d),
      3 => self.stmt_match(out, d),
      _ => self.stmt_iflet(out, d),
    }
  }

  fn stmt_let(&mut self, out: &mut Vec<String>, t: &Ty, d: usize, print: bool) -> String {
    let e = match t {
      Ty::Fun(ps, r) => self.fn_expr(ps, r, d, false),
      _ => self.expr_iv(t, d, FULL),
    };
    let n = self.fresh("v");
    let ann = if self.one_in(5) && !matches!(t, Ty::Fun(..)) { format!(": {}", self.ty_s(t)) } else { String::new() };
    out.push(format!("let {n}{ann} = {}", e.s));
    self.push_var(&n, t.clone(), if *t == Ty::Int { e.iv } else { SMALL });
    if print {
      let p = self.print_var(&n, t, &n);
      out.push(p);
    }
    n
  }

  fn stmt_destructure(&mut self, out: &mut Vec<String>, fx: bool) {
    // prefer something in scope
    let mut cands: Vec<(String, Ty, usize)> = Vec::new();
    for (i, v) in self.scope.iter().enumerate() {
      let is_struct = matches!(&v.ty, Ty::Cls(c, _) if matches!(self.classes[*c].kind, Kind::Struct(_)));
      if (matches!(v.ty, Ty::Tup(_)) || is_struct) && !Self::has_par(&v.ty) {
        cands.push((v.name.clone(), v.ty.clone(), i));
      }
    }
    let (src, t) = if !cands.is_empty() && self.pct(60) {
      let (s, t, i) = cands[self.rng.below(cands.len())].clone();
      self.note_var_use(i);
      (s, t)
    } else {
      let n = self.rng.range(2, 6) as usize;
      let limit = self.classes.len();
      let t = Ty::Tup((0..n).map(|_| self.closed_ty(limit, 0)).collect());
      let e = self.obj_expr(&t, 2);
      (e.s, t)
    };
    let mut binds = Vec::new();
    let mut pat = self.irrefutable(&t, 2, &mut binds);
    if !(pat.starts_with('(') || pat.starts_with('{')) {
      // force a real destructuring
      binds.clear();
      pat = match &t {
        Ty::Tup(ts) => {
          self.feat("pattern:tuple");
          let ps: Vec<String> = ts.iter().map(|x| self.irrefutable(x, 1, &mut binds)).collect();
          format!("({})", ps.join(", "))
        }
        _ => {
          let fs = self.fields_of(&t);
          let ps: Vec<String> = fs
            .iter()
            .map(|(f, ft)| {
              let n = self.fresh("f");
              binds.push(Var { name: n.clone(), ty: ft.clone(), iv: SMALL });
              format!("{f} as {n}")
            })
            .collect();
          self.feat("pattern:struct-as");
          format!("{{ {} }}", ps.join(", "))
        }
      };
    }
    self.feat("destructuring-let");
    out.push(format!("let {pat} = {src}"));
    for b in binds {
      let (n, t) = (b.name.clone(), b.ty.clone());
      self.scope.push(b);
      if fx && self.showable(&t) && self.one_in(2) {
        let p = self.print_var(&n, &t, &n);
        out.push(p);
      }
    }
  }

  /// nested block: a few statements in their own scope, rendered inline
  fn block(&mut self, label: &str, n: usize) -> String {
    let mark = self.scope.len();
    let mut inner: Vec<String> = Vec::new();
    let p = self.println(&format!("\"{label}\""));
    inner.push(p);
    for _ in 0..n {
      let t = if self.one_in(2) { Ty::Int } else { Ty::Str };
      let d = self.depth().min(2);
      self.stmt_let(&mut inner, &t, d, true);
    }
    self.scope.truncate(mark);
    format!("{{ {} }}", inner.join("; "))
  }

  fn stmt_if(&mut self, out: &mut Vec<String>, d: usize) {
    let c = self.bool_expr(d);
    let n = self.rng.below(2);
    let t = self.tag();
    let mut s = format!("if {} {}", c.s, self.block(&format!("{t}:then"), n));
    let chain = self.rng.below(3);
    for k in 0..chain {
      let c2 = self.bool_expr(d.saturating_sub(1));
      let b = self.block(&format!("{t}:elif{k}"), 0);
      s.push_str(&format!(" else if {} {b}", c2.s));
      self.feat("else-if-chain");
    }
    let b = self.block(&format!("{t}:else"), n);
    s.push_str(&format!(" else {b}"));
    out.push(s);
  }

  fn enum_paths(&self) -> Vec<(String, Ty, usize)> {
    let mut cands = Vec::new();
    for (i, v) in self.scope.iter().enumerate() {
      if let Some(vs) = self.variants_of(&v.ty) {
        if !Self::has_par(&v.ty) && !vs.is_empty() {
          cands.push((v.name.clone(), v.ty.clone(), i));
        }
      }
    }
    cands
  }

  fn stmt_match(&mut self, out: &mut Vec<String>, d: usize) {
    let cands = self.enum_paths();
    let (s, t) = if cands.is_empty() || self.one_in(4) {
      // scrutinise a tuple of two fresh values? keep it simple: an Option
      let limit = self.classes.len();
      let inner = self.simple_ty(limit);
      let t = Ty::Opt(Box::new(inner));
      let n = self.stmt_let(out, &t, d, false);
      (n, t)
    } else {
      let (s, t, i) = cands[self.rng.below(cands.len())].clone();
      self.note_var_use(i);
      (s, t)
    };
    self.feat("match");
    let arms = self.arm_plan(&t);
    let tg = self.tag();
    let mut texts = Vec::new();
    for (pat, binds, label) in arms {
      let mark = self.scope.len();
      let mut msg = format!("\"{tg} arm {label}\"");
      for b in &binds {
        if self.showable(&b.ty) {
          let sh = self.show(&b.ty, &b.name);
          msg.push_str(&format!(" :: \" \" :: {sh}"));
        }
      }
      for b in binds {
        self.scope.push(b);
      }
      let p = self.println(&msg);
      self.scope.truncate(mark);
      texts.push(format!("{pat} -> {p}"));
    }
    out.push(format!("match {s} {{ {} }}", texts.join(", ")));
  }

  fn stmt_iflet(&mut self, out: &mut Vec<String>, d: usize) {
    let cands: Vec<(String, Ty, usize)> = self.enum_paths().into_iter().filter(|(_, t, _)| self.variants_of(t).unwrap().len() >= 2).collect();
    let (s, t) = if cands.is_empty() || self.one_in(4) {
      let limit = self.classes.len();
      let inner = if self.one_in(3) { Ty::Tup(vec![Ty::Int, self.simple_ty(limit)]) } else { self.simple_ty(limit) };
      let t = Ty::Opt(Box::new(inner));
      let n = self.stmt_let(out, &t, d, false);
      (n, t)
    } else {
      let (s, t, i) = cands[self.rng.below(cands.len())].clone();
      self.note_var_use(i);
      (s, t)
    };
    let vs = self.variants_of(&t).unwrap();
    let v = vs[self.rng.below(vs.len())].clone();
    let mut binds = Vec::new();
    let pat = if v.payload.is_empty() {
      v.name.clone()
    } else {
      let ps: Vec<String> = v.payload.iter().map(|t| self.irrefutable(t, 2, &mut binds)).collect();
      format!("{}({})", v.name, ps.join(", "))
    };
    let tg = self.tag();
    let mut msg = format!("\"{tg} is {}\"", v.name);
    for b in &binds {
      if self.showable(&b.ty) {
        let sh = self.show(&b.ty, &b.name);
        msg.push_str(&format!(" :: \" \" :: {sh}"));
      }
    }
    let p1 = self.println(&msg);
    let p2 = self.println(&format!("\"{tg} is not {}\"", v.name));
    self.feat("if-let");
    out.push(format!("if let {pat} = {s} {{ {p1} }} else {{ {p2} }}"));
  }
}

// -------------------------------------------------------------------------------------------------
// scenarios of main (straight-line top-level statements)
// -------------------------------------------------------------------------------------------------

impl<'a> G<'a> {
  fn let_print(&mut self, out: &mut Vec<String>, prefix: &str, t: &Ty, e: &Ex) -> String {
    let n = self.fresh(prefix);
    out.push(format!("let {n} = {}", e.s));
    self.push_var(&n, t.clone(), if *t == Ty::Int { e.iv } else { SMALL });
    let p = self.print_var(&n, t, &n);
    out.push(p);
    n
  }

  fn sc_short_circuit(&mut self, out: &mut Vec<String>) {
    let d = self.depth().min(2);
    for _ in 0..self.rng.range(1, 2) {
      let a = self.bool_expr(d);
      let b = self.bool_expr(d);
      let (a, b) = (self.wrap_pb(a), self.wrap_pb(b));
      let op = if self.one_in(2) { "&&" } else { "||" };
      let mut s = format!("{} {op} {}", a.s, b.s);
      if self.one_in(2) {
        let c = self.bool_expr(1);
        let c = self.wrap_pb(c);
        let op2 = if self.one_in(2) { "&&" } else { "||" };
        s = if self.one_in(2) { format!("({s}) {op2} {}", c.s) } else { format!("{} {op2} ({s})", c.s) };
      }
      self.feat("short-circuit-effects");
      let e = Ex { s, iv: SMALL, atom: false, pure_: false };
      self.let_print(out, "sc", &Ty::Bool, &e);
    }
  }

  fn sc_eval_order(&mut self, out: &mut Vec<String>) {
    self.feat("eval-order-args");
    let n = self.rng.range(2, 4) as usize;
    let parts: Vec<Ex> = (0..n)
      .map(|_| {
        let e = self.int_raw(1);
        let e = self.fit(e, Iv::new(-999, 999));
        self.wrap_pi(e)
      })
      .collect();
    match self.rng.below(4) {
      0 => {
        let mut e = parts[0].clone();
        for p in &parts[1..] {
          let op = *self.rng.pick(&['+', '-', '*']);
          e = self.arith(op, e, p.clone());
        }
        self.let_print(out, "eo", &Ty::Int, &e);
      }
      1 => {
        let t = Ty::Tup(vec![Ty::Int; n]);
        let e = Ex { s: format!("({})", parts.iter().map(|p| p.s.clone()).collect::<Vec<_>>().join(", ")), iv: SMALL, atom: true, pure_: false };
        self.feat(&format!("tuple-{n}"));
        self.let_print(out, "eo", &t, &e);
      }
      2 => {
        let s = parts.iter().map(|p| format!("Str.fromInt({})", p.s)).collect::<Vec<_>>().join(" :: \"/\" :: ");
        self.feat("str-concat");
        let e = Ex { s, iv: SMALL, atom: false, pure_: false };
        self.let_print(out, "eo", &Ty::Str, &e);
      }
      _ => {
        // arguments of a comparison chain
        let s = format!("{} < {} || {} >= {}", parts[0].s, parts[1].s, parts[1 % n].s, parts[n - 1].s);
        let e = Ex { s, iv: SMALL, atom: false, pure_: false };
        self.let_print(out, "eo", &Ty::Bool, &e);
      }
    }
  }

  fn wide_lit(&mut self) -> String {
    let v = *self.rng.pick(&[2147483647i64, -2147483648, 1073741824, -1073741825, 1073741823, -1073741824, 1500000000, -2000000001]);
    if self.one_in(4) { format!("Str.fromInt({v}).toInt()") } else { format!("{v}") }
  }

  fn sc_vec(&mut self, out: &mut Vec<String>) {
    let d = self.depth().min(2);
    let classes: Vec<usize> = self.data_classes().into_iter().filter(|c| self.classes[*c].tps.is_empty()).collect();
    let elem = match self.weighted(&[50, 22, if classes.is_empty() { 0 } else { 28 }]) {
      0 => Ty::Int,
      1 => Ty::Str,
      _ => Ty::Cls(classes[self.rng.below(classes.len())], vec![]),
    };
    self.feat("vec");
    self.feat(match &elem {
      Ty::Int => "vec-int",
      Ty::Str => "vec-str",
      _ => "vec-class",
    });
    let wide = elem == Ty::Int && self.cfg.allow_overflow && self.pct(50);
    if wide {
      self.feat("vec-int-wide");
    }
    let vt = Ty::Vec(Box::new(elem.clone()));
    let ts = self.ty_s(&elem);
    let v = self.fresh("vec");
    let mut len = 0usize;
    let elem_expr = |g: &mut Self| -> String {
      if wide && g.one_in(2) { g.wide_lit() } else { g.expr(&elem, d).s }
    };
    match self.rng.below(3) {
      0 => out.push(format!("let {v} = Vec.empty<{ts}>()")),
      1 => {
        let e = elem_expr(self);
        out.push(format!("let {v} = Vec.of({e})"));
        len = 1;
      }
      _ => {
        let n = *self.rng.pick(&[0, 1, 4, 16]);
        out.push(format!("let {v} = Vec.withCapacity<{ts}>({n})"));
      }
    }
    self.push_var(&v, vt.clone(), SMALL);
    let ops = self.rng.range(3, 8);
    for _ in 0..ops {
      let idx = |g: &mut Self, len: usize| -> String {
        if g.one_in(2) {
          format!("{}", g.rng.below(len))
        } else {
          let e = g.int_raw(1);
          g.fit(e, Iv::new(0, len as i64 - 1)).s
        }
      };
      match self.weighted(&[35, if len > 0 { 10 } else { 0 }, if len > 0 { 15 } else { 0 }, if len > 0 { 10 } else { 0 }, 6, 8, if elem == Ty::Int && !wide { 8 } else { 0 }, if elem == Ty::Int { 6 } else { 0 }]) {
        0 => {
          let e = elem_expr(self);
          out.push(format!("{v}.push({e})"));
          len += 1;
        }
        1 => {
          let e = Ex::atom(format!("{v}.pop()"));
          self.let_print(out, "pop", &elem, &e);
          len -= 1;
        }
        2 => {
          let i = idx(self, len);
          let e = Ex::atom(format!("{v}.get({i})"));
          self.let_print(out, "got", &elem, &e);
        }
        3 => {
          let i = idx(self, len);
          let e = elem_expr(self);
          out.push(format!("{v}.set({i}, {e})"));
        }
        4 => {
          let n = *self.rng.pick(&[0, 1, 3, 10, 100]);
          out.push(format!("{v}.reserve({n})"));
        }
        5 => {
          let e = Ex { s: format!("{v}.length()"), iv: Iv::pt(len as i64), atom: true, pure_: true };
          self.let_print(out, "len", &Ty::Int, &e);
        }
        6 => {
          let f = self.helper_fill();
          let n = self.rng.range(0, 12) as usize;
          out.push(format!("{f}({v}, 0, {n})"));
          self.effects = true;
          self.cost += n as u32 + 1;
          len += n;
        }
        _ => {
          // push through a closure that captures the Vec
          let pf = self.fresh("pf");
          let a = self.fresh("a");
          out.push(format!("let {pf} = ({a}: int) -> {v}.push({a})"));
          self.feat("closure-captures-local");
          let k = self.rng.range(1, 2);
          for _ in 0..k {
            let e = elem_expr(self);
            out.push(format!("{pf}({e})"));
            len += 1;
          }
        }
      }
    }
    let p = self.print_var(&v, &vt, &v);
    out.push(p);
    if elem == Ty::Int && !wide && len > 0 && self.pct(60) {
      let f = self.helper_sum_vec();
      let e = Ex { s: format!("{f}({v}, 0, 0)"), iv: Iv::new(-2_000_000, 2_000_000), atom: true, pure_: true };
      self.cost += len as u32;
      self.let_print(out, "sum", &Ty::Int, &e);
    }
    if elem == Ty::Int && self.pct(50) {
      // eq against a copy built from literals
      let n = self.rng.range(0, 4) as usize;
      let lits: Vec<String> = (0..n).map(|_| if wide && self.one_in(2) { self.wide_lit() } else { format!("{}", self.rng.range(-9999, 9999)) }).collect();
      let (a, b) = (self.fresh("va"), self.fresh("vb"));
      out.push(format!("let {a} = Vec.empty<int>()"));
      out.push(format!("let {b} = Vec.withCapacity<int>(2)"));
      for l in &lits {
        out.push(format!("{a}.push({l})"));
      }
      let differ = self.rng.below(3);
      for (i, l) in lits.iter().enumerate() {
        if differ == 1 && i == n - 1 {
          out.push(format!("{b}.push(0 - 7)"));
        } else {
          out.push(format!("{b}.push({l})"));
        }
      }
      if differ == 2 {
        out.push(format!("{b}.push(1)"));
      }
      self.feat("vec-eq");
      let e = Ex::atom(format!("{a}.eq({b})"));
      self.let_print(out, "veq", &Ty::Bool, &e);
    }
    if !self.ended && self.pct(10) && self.min_lines_so_far(out) >= 5 {
      // deliberate out-of-bounds ending (~2% of programs: a third of programs have a Vec scenario)
      self.feat("ending:vec-bounds");
      let k = self.rng.range(0, 3) as usize;
      match self.rng.below(3) {
        0 => out.push(format!("let _ = {v}.get({})", len + k)),
        1 => out.push(format!("let _ = {v}.get(0 - {})", k + 1)),
        _ => out.push(format!("{v}.set({}, {v}.get(0))", len + k)),
      }
      if len == 0 {
        // set(len, get(0)) on an empty Vec also ends in get(0)
      }
      self.ended = true;
      self.min_lines = self.min_lines_so_far(out);
    }
  }

  fn min_lines_so_far(&self, out: &[String]) -> usize {
    out.iter().filter(|s| s.starts_with("Process.println(")).count()
  }

  fn sc_closure(&mut self, out: &mut Vec<String>) {
    let d = self.depth().min(3);
    // a local to capture
    if self.paths(&Ty::Int).is_empty() || self.one_in(2) {
      self.stmt_let(out, &Ty::Int, 1, true);
    }
    let ps: Vec<Ty> = (0..self.rng.range(0, 2)).map(|_| if self.one_in(4) { Ty::Str } else { Ty::Int }).collect();
    let r = (*self.rng.pick(&[&Ty::Int, &Ty::Int, &Ty::Str, &Ty::Bool])).clone();
    let lam = self.lambda(&ps, &r, d, false);
    let f = self.fresh("fn");
    let fty = Ty::Fun(ps.clone(), Box::new(r.clone()));
    if self.one_in(3) {
      out.push(format!("let {f}: {} = {}", self.ty_s(&fty), lam.s));
    } else {
      out.push(format!("let {f} = {}", lam.s));
    }
    self.push_var(&f, fty, SMALL);
    self.feat("lambda");
    for _ in 0..self.rng.range(1, 2) {
      let args: Vec<String> = ps.iter().map(|p| self.expr(p, 1).s).collect();
      let e = Ex { s: format!("{f}({})", args.join(", ")), iv: SMALL, atom: true, pure_: false };
      self.cost += 5;
      self.let_print(out, "cr", &r, &e);
    }
  }

  fn sc_fn_refs(&mut self, out: &mut Vec<String>) {
    // candidates: non-scripted monomorphic callables with printable results
    let cands: Vec<usize> = (0..self.funcs.len())
      .filter(|i| {
        let f = &self.funcs[*i];
        !f.scripted
          && f.cost <= 60
          && (!f.private || f.cls == self.cur_cls)
          && self.classes[f.cls].tps.is_empty()
          && self.showable(&f.ret)
          && !matches!(f.ret, Ty::Fun(..))
          && f.params.iter().all(|(t, _)| !matches!(t, Ty::Fun(..)))
      })
      .collect();
    if cands.is_empty() {
      return;
    }
    for _ in 0..self.rng.range(1, 2) {
      let fi = cands[self.rng.below(cands.len())];
      let f = self.funcs[fi].clone();
      let target = if f.method {
        let t = Ty::Cls(f.cls, vec![]);
        let recv = match self.scope.iter().position(|v| v.ty == t) {
          Some(i) if self.one_in(2) => self.scope[i].name.clone(),
          _ => self.stmt_let(out, &t, 2, false),
        };
        self.feat("method-reference-value");
        format!("{recv}.{}", f.name)
      } else {
        self.feat("static-function-reference");
        format!("{}.{}", self.classes[f.cls].name, f.name)
      };
      let r = self.fresh("ref");
      out.push(format!("let {r} = {target}"));
      self.used.insert(r.clone());
      let args: Vec<String> = f.params.iter().map(|(t, iv)| self.expr_iv(t, 1, *iv).s).collect();
      self.cost += f.cost;
      let e = Ex { s: format!("{r}({})", args.join(", ")), iv: f.ret_iv, atom: true, pure_: false };
      if f.ret == Ty::Unit {
        out.push(e.s);
        self.effects = true;
      } else {
        self.let_print(out, "rr", &f.ret, &e);
      }
    }
  }

  fn inst_ty(&mut self) -> Ty {
    let nongen: Vec<usize> = self.data_classes().into_iter().filter(|c| self.classes[*c].tps.is_empty()).collect();
    let structs: Vec<usize> = nongen.iter().copied().filter(|c| matches!(self.classes[*c].kind, Kind::Struct(_))).collect();
    let rec: Vec<usize> = nongen.iter().copied().filter(|c| self.classes[*c].recursive).collect();
    let enums: Vec<usize> = nongen.iter().copied().filter(|c| matches!(self.classes[*c].kind, Kind::Enum(_)) && !self.classes[*c].recursive).collect();
    let k = self.weighted(&[20, 15, 5, if structs.is_empty() { 0 } else { 15 }, if enums.is_empty() { 0 } else { 20 }, if rec.is_empty() { 0 } else { 15 }, 6, 4]);
    let (t, tag) = match k {
      0 => (Ty::Int, "int"),
      1 => (Ty::Str, "Str"),
      2 => (Ty::Bool, "bool"),
      3 => (Ty::Cls(structs[self.rng.below(structs.len())], vec![]), "struct"),
      4 => {
        let c = enums[self.rng.below(enums.len())];
        let all_payload = matches!(&self.classes[c].kind, Kind::Enum(vs) if vs.iter().all(|v| !v.payload.is_empty()));
        (Ty::Cls(c, vec![]), if all_payload { "enum-all-payload" } else { "enum-with-nullary" })
      }
      5 => (Ty::Cls(rec[self.rng.below(rec.len())], vec![]), "recursive-enum"),
      6 => (Ty::Tup(vec![Ty::Int, Ty::Str]), "tuple"),
      _ => (Ty::Opt(Box::new(Ty::Int)), "option"),
    };
    self.feat(&format!("generic-inst:{tag}"));
    t
  }

  fn sc_generic_class(&mut self, out: &mut Vec<String>) {
    self.sc_generic_class_once(out);
    if self.one_in(2) {
      self.sc_generic_class_once(out);
    }
  }

  fn sc_generic_class_once(&mut self, out: &mut Vec<String>) {
    let gens: Vec<usize> = self.data_classes().into_iter().filter(|c| !self.classes[*c].tps.is_empty() && self.classes[*c].tps[0].1.is_none()).collect();
    if gens.is_empty() {
      return;
    }
    let c = gens[self.rng.below(gens.len())];
    let d = self.depth().min(3);
    let t = self.inst_ty();
    let ct = Ty::Cls(c, vec![t.clone()]);
    let cls = self.classes[c].clone();
    let e = self.cls_value(c, &[t.clone()], d);
    let v = self.let_print(out, "g", &ct, &e);
    let r = (*self.rng.pick(&[&Ty::Int, &Ty::Str, &Ty::Bool])).clone();
    let rt = Ty::Cls(c, vec![r.clone()]);
    match &cls.kind {
      Kind::Struct(_) => {
        let e = Ex::atom(format!("{v}.get()"));
        self.let_print(out, "gg", &t, &e);
        let lam = self.lambda(&[t.clone()], &r, d, true);
        let explicit = self.one_in(3);
        self.feat(if explicit { "type-args-explicit" } else { "type-args-inferred" });
        let e = Ex::atom(format!("{v}.map{}({})", if explicit { format!("<{}>", self.ty_s(&r)) } else { String::new() }, lam.s));
        self.feat("lambda-to-hof");
        self.cost += 6;
        self.let_print(out, "gm", &rt, &e);
        let x = self.expr(&t, 1);
        let e = Ex::atom(format!("{v}.replace({})", x.s));
        self.let_print(out, "gr", &ct, &e);
      }
      Kind::Enum(vs) if !cls.recursive => {
        if let Some(nv) = vs.iter().find(|v| v.payload.is_empty()) {
          let e = Ex::atom(format!("{}.{}<{}>()", cls.name, nv.name, self.ty_s(&t)));
          self.feat("type-args-explicit");
          let w = self.let_print(out, "ge", &ct, &e);
          let dflt = self.expr(&t, 1);
          let e = Ex::atom(format!("{w}.getOr({})", dflt.s));
          self.let_print(out, "go", &t, &e);
        }
        let dflt = self.expr(&t, 1);
        let e = Ex::atom(format!("{v}.getOr({})", dflt.s));
        self.let_print(out, "go", &t, &e);
        let e = Ex::atom(format!("{v}.isFull()"));
        self.let_print(out, "gf", &Ty::Bool, &e);
        let lam = self.lambda(&[t.clone()], &r, d, true);
        let e = Ex::atom(format!("{v}.map({})", lam.s));
        self.feat("lambda-to-hof");
        self.cost += 6;
        self.let_print(out, "gm", &rt, &e);
        self.stmt_match(out, d);
      }
      Kind::Enum(_) => {
        let e = Ex { s: format!("{v}.size()"), iv: Iv::new(0, 64), atom: true, pure_: true };
        self.let_print(out, "gs", &Ty::Int, &e);
        let x = self.expr(&t, 1);
        let e = Ex::atom(format!("{v}.prepend({})", x.s));
        let v2 = self.let_print(out, "gp", &ct, &e);
        let (a, b) = (self.fresh("a"), self.fresh("a"));
        let sh = self.show(&t, &b);
        let e = Ex::atom(format!("{v2}.foldl(({a}, {b}) -> {a} :: {sh} :: \"+\", \"\")"));
        self.feat("lambda-to-hof");
        self.cost += 10;
        self.let_print(out, "gl", &Ty::Str, &e);
      }
      _ => {}
    }
  }

  fn sc_interface(&mut self, out: &mut Vec<String>) {
    let Some(_) = self.iface else { return };
    let h = self.hname();
    let impls = self.iface_impls.clone();
    let mut vars = Vec::new();
    for c in impls {
      let t = Ty::Cls(c, vec![]);
      let e = self.cls_value(c, &[], 2);
      let v = self.fresh("sh");
      out.push(format!("let {v} = {}", e.s));
      self.push_var(&v, t, SMALL);
      let explicit = self.one_in(4);
      let call = if explicit { format!("{h}.describe<{}>({v})", self.classes[c].name) } else { format!("{h}.describe({v})") };
      let p = self.println(&call);
      out.push(p);
      self.cost += 4;
      vars.push((v, c));
    }
    if self.helpers.contains_key("bigger") && vars.len() >= 2 {
      let p = self.println(&format!("\"bigger \" :: {h}.bigger({}, {})", vars[0].0, vars[1].0));
      out.push(p);
    }
    if let Some(hc) = self.holder {
      let (v, c) = vars[self.rng.below(vars.len())].clone();
      let hv = self.fresh("tg");
      out.push(format!("let {hv} = {}.init({v})", self.classes[hc].name));
      self.used.insert(hv.clone());
      let p = self.println(&format!("{hv}.label()"));
      out.push(p);
      if !self.classes[hc].impls.is_empty() {
        let p = self.println(&format!("{h}.describe({hv})"));
        out.push(p);
      }
      let _ = c;
    }
  }

  fn sc_generic_fns(&mut self, out: &mut Vec<String>) {
    if !self.helpers.contains_key("generic-fns") {
      return;
    }
    let h = self.hname();
    let d = self.depth().min(2);
    let limit = self.classes.len();
    for _ in 0..self.rng.range(2, 4) {
      match self.rng.below(6) {
        0 => {
          let t = self.closed_ty(limit, 1);
          let x = self.expr(&t, d);
          let explicit = self.one_in(2);
          self.feat(if explicit { "type-args-explicit" } else { "type-args-inferred" });
          let e = Ex::atom(format!("{h}.id{}({})", if explicit { format!("<{}>", self.ty_s(&t)) } else { String::new() }, x.s));
          self.let_print(out, "gi", &t, &e);
        }
        1 => {
          let (a, b) = (self.simple_ty(limit), (*self.rng.pick(&[&Ty::Int, &Ty::Str, &Ty::Bool])).clone());
          let explicit = self.one_in(2);
          let lam = self.lambda(&[a.clone()], &b, d + 1, explicit);
          let x = self.expr(&a, d);
          self.feat(if explicit { "type-args-explicit" } else { "type-args-inferred" });
          self.feat("lambda-to-hof");
          let e = Ex::atom(format!("{h}.apply{}({}, {})", if explicit { format!("<{}, {}>", self.ty_s(&a), self.ty_s(&b)) } else { String::new() }, lam.s, x.s));
          self.cost += 6;
          self.let_print(out, "ga", &b, &e);
        }
        2 => {
          let a = if self.one_in(2) { Ty::Int } else { Ty::Str };
          let f = self.fn_expr(&[a.clone()], &a, d + 1, false);
          let x = self.expr(&a, d);
          self.feat("lambda-to-hof");
          self.feat("type-args-inferred");
          let e = Ex::atom(format!("{h}.twice({}, {})", f.s, x.s));
          self.cost += 12;
          self.let_print(out, "gt", &a, &e);
        }
        3 => {
          let (a, b) = (self.simple_ty(limit), self.simple_ty(limit));
          let (x, y) = (self.expr(&a, d), self.expr(&b, d));
          self.feat("tuple-2");
          self.feat("std.tuples");
          let (p, q) = (self.fresh("sw"), self.fresh("sw"));
          out.push(format!("let ({p}, {q}) = {h}.swap(({}, {}))", x.s, y.s));
          self.feat("destructuring-let");
          self.feat("pattern:tuple");
          self.push_var(&p, b.clone(), SMALL);
          self.push_var(&q, a.clone(), SMALL);
          let pr = self.print_var(&p, &b, &p);
          out.push(pr);
          let pr = self.print_var(&q, &a, &q);
          out.push(pr);
        }
        4 if self.helpers.contains_key("compose") => {
          let f = self.lambda(&[Ty::Int], &Ty::Int, d + 1, true);
          let g = self.lambda(&[Ty::Int], &Ty::Str, d + 1, true);
          let c = self.fresh("cm");
          out.push(format!("let {c} = {h}.compose<int, int, Str>({}, {})", f.s, g.s));
          self.feat("type-args-explicit");
          self.feat("lambda-to-hof");
          self.push_var(&c, Ty::Fun(vec![Ty::Int], Box::new(Ty::Str)), SMALL);
          let x = self.expr(&Ty::Int, 1);
          self.cost += 12;
          let e = Ex::atom(format!("{c}({})", x.s));
          self.let_print(out, "gc", &Ty::Str, &e);
        }
        _ => {
          let t = self.simple_ty(limit);
          let (c, x, y) = (self.bool_expr(d), self.expr(&t, d), self.expr(&t, d));
          let e = Ex::atom(format!("{h}.pick({}, {}, {})", c.s, x.s, y.s));
          self.feat("type-args-inferred");
          self.let_print(out, "gk", &t, &e);
        }
      }
    }
  }

  fn sc_option(&mut self, out: &mut Vec<String>) {
    self.feat("std.option");
    let d = self.depth().min(3);
    let limit = self.classes.len();
    let t = self.simple_ty(limit);
    let ot = Ty::Opt(Box::new(t.clone()));
    let o = self.stmt_let(out, &ot, d, true);
    for _ in 0..self.rng.range(2, 4) {
      match self.rng.below(8) {
        0 => {
          let r = (*self.rng.pick(&[&Ty::Int, &Ty::Str, &Ty::Bool])).clone();
          let lam = self.lambda(&[t.clone()], &r, d, true);
          self.feat("lambda-to-hof");
          self.cost += 6;
          let e = Ex::atom(format!("{o}.map({})", lam.s));
          self.let_print(out, "om", &Ty::Opt(Box::new(r)), &e);
        }
        1 => {
          let r = if self.one_in(2) { Ty::Int } else { Ty::Str };
          let lam = self.lambda(&[t.clone()], &Ty::Opt(Box::new(r.clone())), d, true);
          self.feat("lambda-to-hof");
          self.cost += 6;
          let e = Ex::atom(format!("{o}.bind({})", lam.s));
          self.let_print(out, "ob", &Ty::Opt(Box::new(r)), &e);
        }
        2 => {
          let lam = self.lambda(&[t.clone()], &Ty::Bool, d, true);
          self.feat("lambda-to-hof");
          self.cost += 6;
          let e = Ex::atom(format!("{o}.filter({})", lam.s));
          self.let_print(out, "of", &ot, &e);
        }
        3 => {
          let e = Ex::atom(format!("{o}.isSome() && !{o}.isNone()"));
          self.let_print(out, "oi", &Ty::Bool, &e);
        }
        4 => {
          if self.pct(40) {
            let r = if self.one_in(2) { Ty::Int } else { Ty::Str };
            let dflt = self.expr(&r, 1);
            let lam = self.lambda(&[t.clone()], &r, d, true);
            self.feat("std.option.valueMap");
            self.feat("lambda-to-hof");
            self.cost += 6;
            let e = Ex::atom(format!("{o}.valueMap({}, {})", dflt.s, lam.s));
            self.let_print(out, "ov", &r, &e);
          }
        }
        5 => {
          let a = self.fresh("a");
          let sh = self.show(&t, &a);
          let p = self.println(&format!("\"iter \" :: {sh}"));
          out.push(format!("{o}.iter(({a}) -> {p})"));
          self.feat("lambda-to-hof");
        }
        6 => {
          let o2 = self.expr(&Ty::Opt(Box::new(Ty::Int)), 2);
          self.feat("tuple-2");
          let e = Ex::atom(format!("Option.both({o}, {})", o2.s));
          self.let_print(out, "ob", &Ty::Opt(Box::new(Ty::Tup(vec![t.clone(), Ty::Int]))), &e);
        }
        _ => self.stmt_iflet(out, d),
      }
    }
  }

  fn sc_list(&mut self, out: &mut Vec<String>) {
    self.feat("std.list");
    let d = self.depth().min(3);
    let t = if self.one_in(3) { Ty::Str } else { Ty::Int };
    let lt = Ty::List(Box::new(t.clone()));
    let mut l = self.stmt_let(out, &lt, d, true);
    for _ in 0..self.rng.range(2, 5) {
      match self.rng.below(8) {
        0 => {
          let r = (*self.rng.pick(&[&Ty::Int, &Ty::Str])).clone();
          let lam = self.lambda(&[t.clone()], &r, d, true);
          self.feat("lambda-to-hof");
          self.cost += 20;
          let e = Ex::atom(format!("{l}.map({})", lam.s));
          let n = self.let_print(out, "lm", &Ty::List(Box::new(r.clone())), &e);
          if r == t {
            l = n;
          }
        }
        1 => {
          let lam = self.lambda(&[t.clone()], &Ty::Bool, d, true);
          self.feat("lambda-to-hof");
          self.cost += 20;
          let e = Ex::atom(format!("{l}.filter({})", lam.s));
          l = self.let_print(out, "lf", &lt, &e);
        }
        2 => {
          // fold with a bounded accumulator
          let (a, b) = (self.fresh("a"), self.fresh("a"));
          let e = if t == Ty::Int {
            let k = self.rng.range(1, 9);
            Ex { s: format!("{l}.fold(({a}, {b}) -> ({a} * {k} + {b}) % 10007, {})", self.rng.range(0, 9)), iv: Iv::new(-10006, 10006), atom: true, pure_: true }
          } else {
            Ex { s: format!("{l}.fold(({a}, {b}) -> {a} + 1, 0)"), iv: Iv::new(0, 64), atom: true, pure_: true }
          };
          self.feat("lambda-to-hof");
          self.cost += 10;
          self.let_print(out, "lo", &Ty::Int, &e);
        }
        3 => {
          let e = Ex::atom(format!("{l}.reverse()"));
          l = self.let_print(out, "lr", &lt, &e);
        }
        4 => {
          let e = Ex { s: format!("{l}.length()"), iv: Iv::new(0, 64), atom: true, pure_: true };
          self.let_print(out, "ll", &Ty::Int, &e);
        }
        5 => {
          let x = self.expr(&t, 1);
          let e = Ex::atom(format!("{l}.cons({})", x.s));
          l = self.let_print(out, "lc", &lt, &e);
        }
        6 => {
          let e = Ex::atom(format!("{l}.first()"));
          self.feat("std.option");
          self.let_print(out, "lh", &Ty::Opt(Box::new(t.clone())), &e);
        }
        _ => {
          let a = self.fresh("a");
          let sh = self.show(&t, &a);
          let p = self.println(&format!("\"each \" :: {sh}"));
          out.push(format!("{l}.iter(({a}) -> {p})"));
          self.feat("lambda-to-hof");
        }
      }
    }
  }

  fn sc_result(&mut self, out: &mut Vec<String>) {
    self.feat("std.result");
    let d = self.depth().min(3);
    let (t, e) = (if self.one_in(2) { Ty::Int } else { Ty::Str }, if self.one_in(2) { Ty::Str } else { Ty::Int });
    let rt = Ty::Res(Box::new(t.clone()), Box::new(e.clone()));
    let r = self.stmt_let(out, &rt, d, true);
    for _ in 0..self.rng.range(1, 3) {
      match self.rng.below(6) {
        0 => {
          let x = Ex::atom(format!("{r}.isOk() || {r}.isError()"));
          self.let_print(out, "ri", &Ty::Bool, &x);
        }
        1 => {
          let q = if self.one_in(2) { Ty::Int } else { Ty::Str };
          let lam = self.lambda(&[t.clone()], &q, d, true);
          self.feat("lambda-to-hof");
          self.cost += 6;
          let x = Ex::atom(format!("{r}.map({})", lam.s));
          self.let_print(out, "rm", &Ty::Res(Box::new(q), Box::new(e.clone())), &x);
        }
        2 => {
          let lam = self.lambda(&[e.clone()], &Ty::Str, d, true);
          self.feat("lambda-to-hof");
          self.cost += 6;
          let x = Ex::atom(format!("{r}.mapError({})", lam.s));
          self.let_print(out, "re", &Ty::Res(Box::new(t.clone()), Box::new(Ty::Str)), &x);
        }
        3 => {
          self.feat("std.option");
          let x = Ex::atom(format!("{r}.ok()"));
          self.let_print(out, "ro", &Ty::Opt(Box::new(t.clone())), &x);
        }
        4 => {
          self.feat("std.option");
          let o = self.expr(&Ty::Opt(Box::new(Ty::Int)), 2);
          let msg = self.str_lit();
          let x = Ex::atom(format!("Result.fromOption({}, {msg})", o.s));
          self.let_print(out, "rf", &Ty::Res(Box::new(Ty::Int), Box::new(Ty::Str)), &x);
        }
        _ => self.stmt_match(out, d),
      }
    }
  }

  fn sc_tuples(&mut self, out: &mut Vec<String>) {
    let limit = self.classes.len();
    let n = match self.rng.below(12) {
      0 => self.rng.range(7, 16) as usize,
      k => 2 + (k as usize - 1) % 5,
    };
    let t = Ty::Tup((0..n).map(|_| if n > 6 { if self.one_in(3) { Ty::Str } else { Ty::Int } } else { self.closed_ty(limit, 0) }).collect());
    let v = self.stmt_let(out, &t, 2, true);
    // field access
    let ts = match &t {
      Ty::Tup(ts) => ts.clone(),
      _ => unreachable!(),
    };
    let k = self.rng.below(n);
    let e = Ex::atom(format!("{v}.e{k}"));
    self.let_print(out, "tf", &ts[k], &e);
    self.stmt_destructure(out, true);
    if self.one_in(2) {
      self.feat("std.tuples");
      let (a, b) = (self.expr(&Ty::Int, 1), self.expr(&Ty::Str, 1));
      let e = Ex::atom(format!("Pair.init({}, {})", a.s, b.s));
      let p = self.let_print(out, "tp", &Ty::Tup(vec![Ty::Int, Ty::Str]), &e);
      let e = Ex::atom(format!("{p}.second() :: Str.fromInt({p}.first())"));
      self.feat("tuple-2");
      self.let_print(out, "ts", &Ty::Str, &e);
    }
    if self.one_in(2) {
      // match on a pair of options with or-patterns
      self.feat("std.option");
      let (o1, o2) = (self.expr(&Ty::Opt(Box::new(Ty::Int)), 2), self.expr(&Ty::Opt(Box::new(Ty::Int)), 2));
      let (a, b, c) = (self.fresh("m"), self.fresh("m"), self.fresh("m"));
      self.feat("pattern:or");
      self.feat("pattern:nested");
      self.feat("pattern:tuple");
      self.feat("tuple-2");
      self.feat("match");
      let e = Ex {
        s: format!("match ({}, {}) {{ (Some({a}), None) | (None, Some({a})) -> {a}, (Some({b}), Some({c})) -> {b} + {c}, (None, None) -> 0 }}", o1.s, o2.s),
        iv: Iv::new(-19998, 19998),
        atom: false,
        pure_: false,
      };
      self.let_print(out, "tm", &Ty::Int, &e);
    }
  }

  fn sc_strings(&mut self, out: &mut Vec<String>) {
    let d = self.depth().min(3);
    for _ in 0..self.rng.range(1, 3) {
      match self.rng.below(5) {
        0 => {
          let e = self.int_raw(d);
          self.feat("str-toInt-hidden-input");
          let x = Ex { s: format!("Str.fromInt({}).toInt()", e.s), iv: e.iv, atom: true, pure_: e.pure_ };
          self.let_print(out, "si", &Ty::Int, &x);
        }
        1 => {
          let v = *self.rng.pick(&[0i64, 7, -1, 255, 256, 1023, 2147483647, -2147483648, 1073741823, -1073741824, 42]);
          self.feat("str-toInt-hidden-input");
          let x = Ex { s: format!("\"{v}\".toInt()"), iv: if v == I32_MIN { FULL } else { Iv::pt(v) }, atom: true, pure_: true };
          self.let_print(out, "sn", &Ty::Int, &x);
        }
        2 => {
          let (a, b) = (self.str_expr(d), self.str_expr(1));
          self.feat("str-concat");
          let x = Ex { s: format!("{} :: {} :: {}", a.p(), b.p(), a.p()), iv: SMALL, atom: false, pure_: false };
          self.let_print(out, "sc", &Ty::Str, &x);
        }
        3 => {
          let a = self.str_lit();
          let b = if self.one_in(2) { a.clone() } else { self.str_lit() };
          self.feat("str-eq");
          let x = Ex { s: format!("({a} :: \"\") == {b}"), iv: SMALL, atom: false, pure_: true };
          self.let_print(out, "se", &Ty::Bool, &x);
        }
        _ => {
          let s = self.str_lit();
          let p = self.println(&s);
          out.push(p);
        }
      }
    }
  }

  fn sc_loops(&mut self, out: &mut Vec<String>) {
    let loops = self.loops.clone();
    for li in loops {
      if self.cost > 2500 {
        break;
      }
      let f = self.funcs[li.func].clone();
      let hide = |g: &mut Self, v: i64| -> String {
        if g.one_in(2) {
          g.feat("str-toInt-hidden-input");
          format!("Str.fromInt({v}).toInt()")
        } else {
          format!("{v}")
        }
      };
      let mut args = vec![hide(self, li.start)];
      if let Some(b) = li.bound {
        args.push(hide(self, b));
      }
      if let Some(k) = li.extra {
        args.push(format!("Str.fromInt({k}).toInt()"));
        self.feat("str-toInt-hidden-input");
      }
      for (t, iv) in &li.accs {
        let e = match t {
          Ty::Str => Ex::atom("\"\""),
          _ => self.expr_iv(t, 1, *iv),
        };
        args.push(e.s);
      }
      self.cost += f.cost;
      self.effects |= f.effects;
      let e = Ex { s: format!("{}.{}({})", self.classes[f.cls].name, f.name, args.join(", ")), iv: f.ret_iv, atom: true, pure_: false };
      self.let_print(out, "lp", &li.ret, &e);
    }
  }

  /// call generated callables that nothing has called yet
  fn sc_calls(&mut self, out: &mut Vec<String>, max: usize) {
    let d = self.depth();
    let mut idx: Vec<usize> = (0..self.funcs.len()).collect();
    self.rng.shuffle(&mut idx);
    let mut done = 0;
    for fi in idx {
      if done >= max || self.cost > 2500 {
        break;
      }
      let f = self.funcs[fi].clone();
      if f.scripted || f.cost > 300 || (f.private && f.cls != self.cur_cls) || !self.classes[f.cls].tps.is_empty() {
        continue;
      }
      if matches!(self.classes[f.cls].kind, Kind::Plain) && f.cls == self.helper {
        continue;
      }
      let recv = if f.method {
        let t = Ty::Cls(f.cls, vec![]);
        let name = match self.scope.iter().position(|v| v.ty == t) {
          Some(i) if self.pct(70) => self.scope[i].name.clone(),
          _ => self.stmt_let(out, &t, 2, true),
        };
        let i = self.scope.iter().position(|v| v.name == name).unwrap();
        Some((name, i))
      } else {
        None
      };
      let saved = self.call_cap;
      self.call_cap = 300;
      let e = self.gen_call(fi, recv, &[], d.min(2));
      self.call_cap = saved;
      match &f.ret {
        Ty::Unit => out.push(e.s),
        Ty::Fun(ps, r) => {
          let fv = self.fresh("fv");
          out.push(format!("let {fv} = {}", e.s));
          self.push_var(&fv, f.ret.clone(), SMALL);
          let args: Vec<String> = ps.iter().map(|p| self.expr(p, 1).s).collect();
          let x = Ex { s: format!("{fv}({})", args.join(", ")), iv: SMALL, atom: true, pure_: false };
          self.feat("closure-call");
          if self.showable(r) && **r != Ty::Unit {
            self.let_print(out, "cv", &r.clone(), &x);
          } else {
            out.push(x.s);
          }
        }
        t => {
          self.let_print(out, "r", t, &e);
        }
      }
      done += 1;
    }
  }

  fn sc_ending_panic(&mut self, out: &mut Vec<String>) {
    self.feat("ending:panic");
    let msg = self.str_lit();
    match self.rng.below(3) {
      0 => out.push(format!("Process.panic<unit>({msg})")),
      1 => {
        let b = self.helper_boom(&msg);
        let pi = self.helper_pi();
        let t = self.tag();
        out.push(format!("let _ = {pi}(\"{t}\", 1) + {b}(Str.fromInt(101).toInt()) + {pi}(\"{t}2\", 2)"));
        self.feat("str-toInt-hidden-input");
      }
      _ => {
        let c = self.bool_expr(1);
        let v = self.fresh("pz");
        out.push(format!("let {v}: int = if {} || true {{ Process.panic({msg}) }} else {{ 3 }}", c.p()));
        self.used.insert(v);
      }
    }
    self.min_lines = self.min_lines_so_far(out);
    self.ended = true;
  }
}

// -------------------------------------------------------------------------------------------------
// whole program
// -------------------------------------------------------------------------------------------------

impl<'a> G<'a> {
  fn build(&mut self) {
    let cfg = self.cfg;
    self.n_mod = self.rng.range(1, cfg.max_modules.max(1) as i64) as usize;
    // helper class and utility classes
    let hn = self.upper(&["Hx", "Lib", "Aux"]);
    self.helper = self.new_class(hn, Kind::Plain, vec![]);
    let n_util = self.rng.range(1, 2) as usize;
    let mut utils = Vec::new();
    for _ in 0..n_util {
      let un = self.upper(&["Util", "Ops", "Algo", "Calc"]);
      utils.push(self.new_class(un, Kind::Plain, vec![]));
    }
    self.gen_classes();
    // show for every data class (registered before any body is generated: bodies refer to each other)
    for c in self.data_classes() {
      self.gen_show(c);
    }
    for c in self.data_classes() {
      if !self.classes[c].tps.is_empty() {
        self.gen_generic_members(c);
      } else if self.classes[c].recursive {
        self.gen_recursive_members(c);
      }
    }
    if self.pct(45) {
      self.gen_interface();
    }
    if self.pct(50) {
      self.gen_generic_fns();
    }
    // members, interleaved over the classes so that classes (and modules) reference each other
    let mut work: Vec<usize> = Vec::new();
    for c in 0..self.classes.len() {
      let k = &self.classes[c].kind;
      if matches!(k, Kind::Iface) || !self.classes[c].tps.is_empty() || c == self.helper {
        continue;
      }
      let n = self.rng.range(if matches!(k, Kind::Plain) { 1 } else { 0 }, cfg.max_fn_per_class as i64) as usize;
      for _ in 0..n {
        work.push(c);
      }
    }
    self.rng.shuffle(&mut work);
    let n_loops = if cfg.loop_heavy { self.rng.range(2, 5) } else { [0, 0, 1, 1, 2][self.rng.below(5)] } as usize;
    let n_rec = if cfg.loop_heavy { self.rng.range(0, 1) } else { self.rng.range(0, 2) } as usize;
    let mut special: Vec<u8> = Vec::new();
    special.extend(std::iter::repeat(0u8).take(n_loops));
    special.extend(std::iter::repeat(1u8).take(n_rec));
    if self.pct(if self.n_mod >= 2 { 45 } else { 15 }) {
      special.push(2);
    }
    if cfg.loop_heavy {
      work.truncate(work.len() / 2 + 1);
    }
    // scatter the special members between the random ones
    let mut plan: Vec<(u8, usize)> = work.into_iter().map(|c| (9u8, c)).collect();
    for s in special {
      let pos = self.rng.below(plan.len() + 1);
      let u = utils[self.rng.below(utils.len())];
      plan.insert(pos, (s, u));
    }
    for (k, c) in plan {
      match k {
        0 => self.gen_loop(c),
        1 => self.gen_recursion(c),
        2 => {
          // partner class in another module when possible
          let others: Vec<usize> = (0..self.classes.len())
            .filter(|o| *o != c && !matches!(self.classes[*o].kind, Kind::Iface) && self.classes[*o].tps.is_empty() && *o != self.helper && self.classes[*o].module != self.classes[c].module)
            .collect();
          let b = if others.is_empty() { c } else { others[self.rng.below(others.len())] };
          self.gen_ping_pong(c, b);
        }
        _ => {
          if matches!(self.classes[c].kind, Kind::Struct(_)) && self.pct(25) {
            self.gen_closure_method(c);
          } else {
            self.gen_random_fn(c);
          }
        }
      }
    }
    self.gen_main();
  }

  fn gen_main(&mut self) {
    let cfg = self.cfg;
    let mname = "Main".to_string();
    self.main_cls = self.new_class(mname, Kind::Plain, vec![]);
    let mc = self.main_cls;
    self.classes[mc].module = self.n_mod - 1;
    self.begin_fn(mc, false);
    self.call_cap = 300;
    let mut out: Vec<String> = Vec::new();
    // scenario menu: (id, percent)
    let lh = cfg.loop_heavy;
    let menu: Vec<(u8, u32)> = vec![
      (0, 60),                      // plain lets
      (1, 35),                      // short circuit
      (2, 35),                      // evaluation order
      (3, if lh { 15 } else { 35 }), // vec
      (4, 40),                      // closures
      (5, 35),                      // function references
      (6, 60),                      // generic class
      (7, 90),                      // interface
      (8, 70),                      // generic functions
      (9, if lh { 10 } else { 30 }),  // option
      (10, if lh { 10 } else { 25 }), // list
      (11, if lh { 8 } else { 20 }),  // result
      (12, if lh { 10 } else { 35 }), // tuples
      (13, 35),                     // strings
      (14, 45),                     // if / else-if
      (15, 45),                     // match statement
      (16, 35),                     // if let
      (17, 35),                     // destructuring
    ];
    let mut chosen: Vec<u8> = menu.iter().filter(|(_, p)| self.rng.chance(*p, 100)).map(|(i, _)| *i).collect();
    self.rng.shuffle(&mut chosen);
    let budget = (cfg.max_stmts / 3).clamp(2, 6);
    chosen.truncate(budget);
    // loops and calls of everything generated are always there, somewhere in the middle
    let pos = self.rng.below(chosen.len() + 1);
    chosen.insert(pos, 100);
    let pos = self.rng.below(chosen.len() + 1);
    chosen.insert(pos, 101);
    let want_panic = self.pct(5);
    let panic_at = if chosen.len() > 2 { self.rng.range(2, chosen.len() as i64) as usize } else { chosen.len() };
    for (k, id) in chosen.into_iter().enumerate() {
      if want_panic && !self.ended && k >= panic_at && self.min_lines_so_far(&out) >= 5 {
        self.sc_ending_panic(&mut out);
      }
      if self.cost > 3000 {
        break;
      }
      let d = self.depth();
      match id {
        0 => {
          for _ in 0..self.rng.range(1, 3) {
            self.simple_stmt(&mut out, true);
          }
        }
        1 => self.sc_short_circuit(&mut out),
        2 => self.sc_eval_order(&mut out),
        3 => self.sc_vec(&mut out),
        4 => self.sc_closure(&mut out),
        5 => self.sc_fn_refs(&mut out),
        6 => self.sc_generic_class(&mut out),
        7 => self.sc_interface(&mut out),
        8 => self.sc_generic_fns(&mut out),
        9 => self.sc_option(&mut out),
        10 => self.sc_list(&mut out),
        11 => self.sc_result(&mut out),
        12 => self.sc_tuples(&mut out),
        13 => self.sc_strings(&mut out),
        14 => self.stmt_if(&mut out, d),
        15 => self.stmt_match(&mut out, d),
        16 => self.stmt_iflet(&mut out, d),
        17 => self.stmt_destructure(&mut out, true),
        100 => self.sc_loops(&mut out),
        _ => self.sc_calls(&mut out, cfg.max_stmts / 3 + 2),
      }
    }
    // never fewer than a handful of lines
    while self.min_lines_so_far(&out) < 6 {
      let t = if self.one_in(2) { Ty::Int } else { Ty::Str };
      self.stmt_let(&mut out, &t, 2, true);
    }
    if want_panic && !self.ended {
      self.sc_ending_panic(&mut out);
      let p = self.println("\"after the end\"");
      out.push(p);
    }
    if !self.ended {
      self.min_lines = self.min_lines_so_far(&out);
    }
    let text = self.render_fn(false, false, "", "main", &[], &Ty::Unit, &out, None);
    self.classes[mc].members.push(text);
  }

  fn finish(mut self) -> GenProgram {
    // module texts
    let std_classes: Vec<(&str, &str)> = vec![("Option", "std.option"), ("List", "std.list"), ("Result", "std.result"), ("Pair", "std.tuples"), ("Triple", "std.tuples")];
    let mut std_map: BTreeMap<String, String> = std_classes.into_iter().map(|(a, b)| (a.to_string(), b.to_string())).collect();
    for k in 4..=16 {
      std_map.insert(format!("Tuple{k}"), "std.tuples".to_string());
    }
    let class_mod: BTreeMap<String, usize> = self.classes.iter().map(|c| (c.name.clone(), c.module)).collect();
    let mut modules: Vec<(String, String)> = Vec::new();
    let mut deps: Vec<BTreeSet<usize>> = vec![BTreeSet::new(); self.n_mod];
    for m in 0..self.n_mod {
      let mut body = String::new();
      let mut order: Vec<usize> = (0..self.classes.len()).filter(|c| self.classes[*c].module == m).collect();
      if self.rng.one_in_plain(2) {
        order.reverse();
      }
      for c in order {
        let cls = &self.classes[c];
        let tps = if cls.tps.is_empty() {
          String::new()
        } else {
          format!(
            "<{}>",
            cls.tps.iter().map(|(n, b)| match b {
              Some(i) => format!("{n}: {}", self.classes[*i].name),
              None => n.clone(),
            }).collect::<Vec<_>>().join(", ")
          )
        };
        let def = match &cls.kind {
          Kind::Struct(fs) => format!("({})", fs.iter().map(|f| format!("val {}: {}", f.name, self.ty_s(&f.ty))).collect::<Vec<_>>().join(", ")),
          Kind::Enum(vs) => format!(
            "({})",
            vs.iter().map(|v| if v.payload.is_empty() { v.name.clone() } else { format!("{}({})", v.name, self.tys_s(&v.payload)) }).collect::<Vec<_>>().join(", ")
          ),
          _ => String::new(),
        };
        let sup = if cls.impls.is_empty() {
          String::new()
        } else {
          format!(" : {}", cls.impls.iter().map(|i| self.classes[*i].name.clone()).collect::<Vec<_>>().join(", "))
        };
        let kw = if matches!(cls.kind, Kind::Iface) { "interface" } else { "class" };
        body.push_str(&format!("{kw} {}{tps}{def}{sup} {{\n", cls.name));
        for (i, mem) in cls.members.iter().enumerate() {
          if i > 0 {
            body.push('\n');
          }
          body.push_str(&format!("  {mem}\n"));
        }
        body.push_str("}\n\n");
      }
      // imports by scanning the identifiers outside string literals
      let mut imports: BTreeMap<String, BTreeSet<String>> = BTreeMap::new();
      for id in upper_idents(&body) {
        if let Some(sm) = std_map.get(&id) {
          imports.entry(sm.clone()).or_default().insert(id);
        } else if let Some(cm) = class_mod.get(&id) {
          if *cm != m {
            imports.entry(format!("gen.M{cm}")).or_default().insert(id);
            deps[m].insert(*cm);
          }
        }
      }
      let mut head = String::new();
      for (from, names) in &imports {
        head.push_str(&format!("import {{ {} }} from {from};\n", names.iter().cloned().collect::<Vec<_>>().join(", ")));
      }
      if !imports.is_empty() {
        head.push('\n');
      }
      modules.push((format!("gen.M{m}"), format!("{head}{body}")));
    }
    if self.n_mod >= 2 {
      self.feats.insert("multi-module".to_string());
    }
    if has_cycle(&deps) {
      self.feats.insert("import-cycle".to_string());
    }
    GenProgram { project: Project { modules }, entry: format!("gen.M{}", self.n_mod - 1), features: self.feats, lines_expected_min: self.min_lines }
  }
}

trait RngExt {
  fn one_in_plain(&mut self, n: u32) -> bool;
}
impl RngExt for Rng {
  fn one_in_plain(&mut self, n: u32) -> bool {
    self.chance(1, n)
  }
}

/// `a.b < c` is parsed as the start of explicit type arguments: parenthesise a left operand that ends in a field access
fn lt_safe(s: &str) -> String {
  let tail: String = s.chars().rev().take_while(|c| c.is_ascii_alphanumeric() || *c == '_').collect();
  if !tail.is_empty() && s.len() > tail.len() && s[..s.len() - tail.len()].ends_with('.') { format!("({s})") } else { s.to_string() }
}

/// upper-case identifiers of a module text, outside string literals
fn upper_idents(text: &str) -> BTreeSet<String> {
  let b: Vec<char> = text.chars().collect();
  let mut out = BTreeSet::new();
  let mut i = 0;
  while i < b.len() {
    let c = b[i];
    if c == '"' {
      i += 1;
      while i < b.len() && b[i] != '"' {
        if b[i] == '\\' {
          i += 1;
        }
        i += 1;
      }
      i += 1;
    } else if c.is_ascii_alphabetic() || c == '_' {
      let s = i;
      while i < b.len() && (b[i].is_ascii_alphanumeric() || b[i] == '_') {
        i += 1;
      }
      if b[s].is_ascii_uppercase() {
        out.insert(b[s..i].iter().collect());
      }
    } else {
      i += 1;
    }
  }
  out
}

fn has_cycle(deps: &[BTreeSet<usize>]) -> bool {
  // 0 = unvisited, 1 = on stack, 2 = done
  fn dfs(n: usize, deps: &[BTreeSet<usize>], st: &mut [u8]) -> bool {
    st[n] = 1;
    for &m in &deps[n] {
      if st[m] == 1 || (st[m] == 0 && dfs(m, deps, st)) {
        return true;
      }
    }
    st[n] = 2;
    false
  }
  let mut st = vec![0u8; deps.len()];
  (0..deps.len()).any(|n| st[n] == 0 && dfs(n, deps, &mut st))
}
