//! Shared driver of the three backend properties:
//!  C01 emitted wasm = reference semantics, C03 accepted programs never go wrong,
//!  C04 emitted TS = emitted wasm. Subprocess workers generate programs, run every executor,
//! judge, delta-debug violations and derive cause-oriented signatures.
use crate::corpus::Corpus;
use crate::diffexec::{self, Outcome};
use crate::evidence::{Run, env_seed, env_tier, hash_str};
use crate::front::Project;
use crate::mutate;
use crate::pgen::{self, GenConfig, StringPool};
use crate::pool::{self, DriveOpts, WorkerCtx};
use crate::rng::Rng;
use crate::trace::Ending;
use serde_json::{Value, json};
use std::collections::{BTreeMap, BTreeSet};
use std::time::{Duration, Instant};

fn total(prop: &str, tier: &str) -> u64 {
  match (prop, tier) {
    (_, "thorough") => 24_000,
    ("C03", _) => 1_400,
    _ => 1_000,
  }
}

/// run-time operator tables (operands hidden from constant folding behind toInt)
pub fn operator_table(rng: &mut Rng) -> Project {
  let pool: [i64; 25] = [0, 1, -1, 2, -2, 3, 7, -7, 10, -10, 255, 1024, -1024, 46341, 1073741823, -1073741824, 1073741824, -1073741825, 2147483647, -2147483648, 65536, -65536, 32767, -46341, 536870912];
  // half of the tables use literal operands (constant folding, literal lowering paths), the other
  // half hide them from the optimizer behind toInt
  let literal = rng.chance(1, 2);
  let mut body = String::new();
  let n = 10 + rng.below(14);
  for k in 0..n {
    let (a, b) = (*rng.pick(&pool), *rng.pick(&pool));
    let h = |v: i64| if literal { format!("{v}") } else { format!("Str.fromInt({v}).toInt()") };
    body.push_str(&format!("    let a{k} = {};\n    let b{k} = {};\n", h(a), h(b)));
    for op in ["<", "<=", ">", ">=", "==", "!="] {
      body.push_str(&format!("    Process.println(\"{a}{op}{b}=\" :: Main.b(a{k} {op} b{k}));\n"));
    }
    if b != 0 && !(a == -2147483648 && b == -1) {
      body.push_str(&format!("    Process.println(\"{a}/{b}=\" :: Str.fromInt(a{k} / b{k}));\n    Process.println(\"{a}%{b}=\" :: Str.fromInt(a{k} % b{k}));\n"));
    }
    if a.abs() < 40000 && b.abs() < 40000 {
      body.push_str(&format!("    Process.println(\"{a}*{b}=\" :: Str.fromInt(a{k} * b{k}));\n"));
    }
    if a.abs() < 1 << 30 && b.abs() < 1 << 30 {
      body.push_str(&format!("    Process.println(\"{a}+{b}=\" :: Str.fromInt(a{k} + b{k}) :: \" \" :: Str.fromInt(a{k} - b{k}) :: \" \" :: Str.fromInt(-a{k}));\n"));
    }
    // Vec element round trips (int, Str)
    if literal {
      // literals written directly at the use sites (element boxing decided at compile time)
      body.push_str(&format!("    let w{k} = Vec.of({a});\n    w{k}.push({b});\n    w{k}.set(0, {b});\n    Process.println(\"lit vec \" :: Str.fromInt(w{k}.get(0)) :: \",\" :: Str.fromInt(w{k}.get(1)) :: \" \" :: Main.b({a} < {b}) :: Main.b({a} == {b}));\n"));
    }
    // comparisons of a constant with `variable + constant` (the optimizer moves constants across
    // the comparison); only when nothing overflows at source level
    for (tname, tval) in [("tc", 7i64), ("th", -3i64)] {
      if (b + tval).abs() < (1i64 << 31) - 1 && a.abs() < (1i64 << 31) - 1 {
        let tdef = if tname == "tc" { format!("{{ let t = {tval}; t }}") } else { format!("Str.fromInt({tval}).toInt()") };
        let mut line = format!("    Process.println(\"cmpc {a} {b} {tname} \"");
        for op in ["<", "<=", ">", ">=", "==", "!="] {
          line.push_str(&format!(" :: Main.b(({a}) {op} ({tdef} + ({b}))) :: Main.b(({tdef} + ({b})) {op} ({a}))"));
        }
        line.push_str(");\n");
        body.push_str(&line);
      }
    }
    // the same elements once written as literals and once arriving as run-time values: every Vec
    // operation must treat them alike (boxing of elements is decided in two different places)
    body.push_str(&format!("    let lv{k} = Vec.of({a});\n    lv{k}.push({b});\n    let hv{k} = Vec.of(Str.fromInt({a}).toInt());\n    hv{k}.push(Str.fromInt({b}).toInt());\n    Process.println(\"veq \" :: Main.b(lv{k}.eq(hv{k})) :: Main.b(hv{k}.eq(lv{k})) :: Main.b(lv{k}.eq(lv{k})) :: Main.b(hv{k}.eq(hv{k})));\n    hv{k}.set(0, {b});\n    lv{k}.set(0, Str.fromInt({b}).toInt());\n    Process.println(\"veq2 \" :: Main.b(lv{k}.eq(hv{k})) :: Str.fromInt(hv{k}.pop()) :: Str.fromInt(lv{k}.pop()) :: Main.b(hv{k}.eq(lv{k})));\n"));
    body.push_str(&format!("    let v{k} = Vec.of(a{k});\n    v{k}.push(b{k});\n    Process.println(\"vec \" :: Str.fromInt(v{k}.get(0)) :: \",\" :: Str.fromInt(v{k}.get(1)) :: \" len=\" :: Str.fromInt(v{k}.length()));\n"));
    body.push_str(&format!("    let s{k} = Str.fromInt(a{k}) :: \"|\" :: Str.fromInt(b{k});\n    Process.println(s{k} :: \" eq=\" :: Main.b(s{k} == Str.fromInt({a}) :: \"|\" :: Str.fromInt({b})) :: \" toInt=\" :: Str.fromInt(Str.fromInt(a{k}).toInt()));\n"));
  }
  let text = format!("class Main {{\n  function b(x: bool): Str = if x {{ \"T\" }} else {{ \"F\" }}\n  function main(): unit = {{\n{body}  }}\n}}\n");
  Project::single("ops.Table", &text)
}

fn pgen_config(prop: &str, seed: u64, rng: &mut Rng) -> GenConfig {
  let mut cfg = GenConfig::default_for(seed);
  match prop {
    "C01" => match rng.below(3) {
      0 => cfg.enum_heavy = true,
      1 => cfg.loop_heavy = true,
      _ => {}
    },
    "C03" => {
      if rng.chance(1, 3) {
        cfg.string_pool = StringPool::Nasty;
      }
    }
    _ => {
      cfg.allow_overflow = false;
    }
  }
  cfg
}

struct Case {
  kind: String,
  label: String,
  user: Project,
  entry: String,
  features: BTreeSet<String>,
}

fn gen_case(prop: &str, seed: u64, i: u64, corpus: &Corpus) -> Case {
  let mut rng = Rng::new(seed.wrapping_mul(0x9E3779B97F4A7C15) ^ i.wrapping_mul(0xD1B54A32D192ED03));
  if i == 0 {
    // the maintainers' own end-to-end program
    let mut p = Project::default();
    p.modules.extend(corpus.tests.iter().cloned());
    return Case { kind: "corpus".into(), label: "tests.AllTests".into(), user: p, entry: "tests.AllTests".into(), features: BTreeSet::new() };
  }
  if i >= 2 {
    // reproducers of defects found earlier: a fixed regression workload
    let regs = crate::corpus::regressions();
    if let Some((n, t)) = regs.get((i - 2) as usize) {
      let mut p = Project::default();
      p.modules.push(("Main".into(), t.clone()));
      return Case { kind: "regression".into(), label: n.clone(), user: p, entry: "Main".into(), features: BTreeSet::new() };
    }
  }
  if i % 20 == 13 {
    // closures capturing `this` and several other variables, members reached through an interface
    let text = crate::exprgen::order_zoo(&mut rng);
    return Case { kind: "order-zoo".into(), label: format!("order zoo {i}"), user: Project::single("Zoo", &text), entry: "Zoo".into(), features: BTreeSet::new() };
  }
  if i % 20 == 7 {
    // string literals by adjacency of escape sequences and target-language special characters:
    // printed, concatenated and compared (the window of the enumeration moves with seed and i)
    let total = crate::exprgen::string_literal_count(true);
    // consecutive windows: the tables of one quick run together cover the whole enumeration
    let start = (seed as usize).wrapping_mul(7919).wrapping_add((i / 20) as usize * 96) % total;
    let mut body = String::new();
    for k in 0..96 {
      let lit = crate::exprgen::string_literal(start + k, true);
      let next = crate::exprgen::string_literal(start + k + 1, true);
      body.push_str(&format!("    Process.println(\"[\" :: {lit} :: \"]\");\n    Process.println(Main.b({lit} == {next}) :: Main.b({lit} :: \"\" == {lit}) :: Main.b(Main.id({lit}) == {lit}));\n"));
      // equal contents, one side assembled at run time (a different object: compared byte by byte)
      body.push_str(&format!("    Process.println(Main.b((Str.fromInt(7) :: {lit}) == (\"7\" :: {lit})) :: Main.b(({lit} :: Str.fromInt(7)) == ({lit} :: \"7\")) :: Main.b((Str.fromInt(7) :: {lit}) != (\"7\" :: {next})));\n"));
    }
    let text = format!("class Main {{\n  function b(x: bool): Str = if x {{ \"T\" }} else {{ \"F\" }}\n  function id(s: Str): Str = s\n  function main(): unit = {{\n{body}  }}\n}}\n");
    return Case { kind: "string-table".into(), label: format!("string literals {start}..{}", start + 96), user: Project::single("str.Table", &text), entry: "str.Table".into(), features: BTreeSet::new() };
  }
  let table_every = if prop == "C04" { 12 } else { 60 };
  if i % table_every == 1 {
    let p = operator_table(&mut rng);
    return Case { kind: "operator-table".into(), label: format!("table {i}"), user: p, entry: "ops.Table".into(), features: BTreeSet::new() };
  }
  if prop == "C03" && i % 9 == 4 {
    // a module of binding constructs with one ill-formed pattern: a correct checker rejects it
    // (counted), but if it is accepted it must still compile and run without going wrong
    let base = crate::exprgen::binder_zoo(&mut rng);
    let faults = crate::exprgen::pattern_faults(&base, &mut rng);
    if !faults.is_empty() {
      let (op, text) = faults[rng.below(faults.len())].clone();
      return Case { kind: "pattern-fault-mutant".into(), label: op.to_string(), user: Project::single("Zoo", &text), entry: "Zoo".into(), features: BTreeSet::new() };
    }
  }
  if prop == "C03" && i % 3 == 2 {
    // accepted mutant of a sample program: mutate one tests file, run its `run()` from a new Main
    let runnable: Vec<&(String, String)> = corpus.tests.iter().filter(|(n, t)| t.contains("function run(): unit") && n != "tests.AllTests" && n != "tests.Benchmark").collect();
    let f = runnable[rng.below(runnable.len())];
    let class = f.1.lines().rev().find_map(|l| l.trim().strip_prefix("class ").and_then(|r| r.split(|c: char| !c.is_ascii_alphanumeric()).next().map(|s| s.to_string()))).unwrap_or_default();
    let nedit = 1 + rng.below(2);
    let (m, d) = if rng.chance(1, 4) { mutate::range_mutation(&f.1, &f.1.clone(), &mut rng) } else { mutate::token_mutation(&f.1, &mut rng, nedit) };
    let mut p = Project::default();
    for t in &corpus.tests {
      if t.0 == f.0 {
        p.modules.push((t.0.clone(), m.clone()));
      } else if t.0 != "tests.AllTests" {
        p.modules.push(t.clone());
      }
    }
    // find the class that owns run() in the mutated text
    let owner = owner_of_run(&m).unwrap_or(class);
    p.modules.push(("mut.Main".into(), format!("import {{ {owner} }} from {}\nclass Main {{ function main(): unit = {owner}.run() }}\n", f.0)));
    return Case { kind: "accepted-mutant".into(), label: format!("{}: {d}", f.0), user: p, entry: "mut.Main".into(), features: BTreeSet::new() };
  }
  let pseed = seed.wrapping_mul(1_000_003).wrapping_add(i);
  if prop != "C03" && i % 5 == 3 {
    // counted-loop family aimed at the loop optimizer (no values near the 32-bit limits: source-level
    // overflow is undefined for the reference and wraps differently in TypeScript)
    let g = crate::loopgen::generate(pseed, false);
    return Case { kind: "loop-family".into(), label: format!("loopgen seed {pseed}"), user: g.project, entry: g.entry, features: g.shapes.iter().cloned().collect() };
  }
  let cfg = pgen_config(prop, pseed, &mut rng);
  let g = pgen::generate(pseed, &cfg);
  Case { kind: "generated".into(), label: format!("pgen seed {pseed}"), user: g.project, entry: g.entry, features: g.features }
}

/// `let x = a + b;` -> `let x = (a + b) | 0;`, `a * b` -> `Math.imul(a, b)` (only the rigid
/// statement shape the emitter produces; used to attribute a disagreement, never to judge)
pub fn wrap_arithmetic(js: &str) -> String {
  let mut out = String::with_capacity(js.len() + 256);
  for line in js.lines() {
    let t = line.trim_start();
    let indent = &line[..line.len() - t.len()];
    let mut done = false;
    if let Some(rest) = t.strip_prefix("let ").or_else(|| if t.starts_with('_') { Some(t) } else { None }) {
      if let Some((lhs, rhs)) = rest.split_once(" = ") {
        let rhs = rhs.trim_end_matches(';');
        let parts: Vec<&str> = rhs.split(' ').collect();
        let operand = |s: &str| !s.is_empty() && s.chars().all(|c| c.is_ascii_alphanumeric() || c == '_' || c == '-' || c == '$');
        if parts.len() == 3 && operand(parts[0]) && operand(parts[2]) && operand(lhs.trim()) {
          let kw = if t.starts_with("let ") { "let " } else { "" };
          match parts[1] {
            "+" | "-" => {
              out.push_str(&format!("{indent}{kw}{lhs} = ({} {} {}) | 0;\n", parts[0], parts[1], parts[2]));
              done = true;
            }
            "*" => {
              out.push_str(&format!("{indent}{kw}{lhs} = Math.imul({}, {});\n", parts[0], parts[2]));
              done = true;
            }
            _ => {}
          }
        }
      }
    }
    if !done {
      out.push_str(line);
      out.push('\n');
    }
  }
  out
}

fn owner_of_run(text: &str) -> Option<String> {
  let mut cur = None;
  for l in text.lines() {
    let t = l.trim_start();
    let t = t.strip_prefix("private ").unwrap_or(t);
    if let Some(r) = t.strip_prefix("class ") {
      cur = r.split(|c: char| !c.is_ascii_alphanumeric()).next().map(|s| s.to_string());
    }
    if l.contains("function run(): unit") && !l.contains("private function run") {
      return cur;
    }
  }
  None
}

fn judge(prop: &str, o: &Outcome) -> Vec<(String, String)> {
  match prop {
    "C01" => diffexec::judge_c01(o).into_iter().collect(),
    "C04" => diffexec::judge_c04(o).into_iter().collect(),
    _ => diffexec::judge_c03(o),
  }
}

fn needs_ts(prop: &str) -> bool {
  prop != "C01"
}

/// signature = symptom, plus structural cause tags of the minimised program for symptoms that
/// carry no location of their own
fn signature(symptom: &str, minimised: &Project) -> String {
  if symptom.starts_with("wasm-differs") || symptom.starts_with("ts-vs-wasm") || symptom.starts_with("wasm-fault") || symptom == "wasm-no-arm-matched" || symptom.starts_with("ts-fault") {
    let tags = diffexec::cause_tags(minimised);
    format!("{symptom}|{}", tags.into_iter().collect::<Vec<_>>().join("+"))
  } else {
    symptom.to_string()
  }
}

fn worker(prop: &str, ctx: WorkerCtx) {
  let corpus = Corpus::load();
  let n = total(prop, &ctx.tier);
  let lim = diffexec::limits();
  let start = Instant::now();
  let min_budget = Duration::from_secs(if ctx.tier == "thorough" { 900 } else { 75 });
  let mut min_spent = Duration::ZERO;
  let mut seen_symptoms: BTreeMap<String, u32> = BTreeMap::new();
  let mut pending: Vec<(u64, Case, Outcome)> = Vec::new();
  let mut i = ctx.only_case.unwrap_or(ctx.start_case);
  let flush = |pending: &mut Vec<(u64, Case, Outcome)>, min_spent: &mut Duration, seen: &mut BTreeMap<String, u32>| {
    if needs_ts(prop) {
      let mut refs: Vec<&mut Outcome> = pending.iter_mut().map(|x| &mut x.2).collect();
      diffexec::run_ts_batch(&mut refs, &lim, 3000);
    }
    for (i, case, o) in pending.drain(..) {
      ctx.begin(i, &format!("judging {} {}", case.kind, case.label));
      let big = case.kind == "corpus" || case.kind == "accepted-mutant";
      let mut v = json!({
        "t": "r", "case": i, "kind": case.kind, "hash": format!("{:016x}", hash_str(&diffexec::render_project(&case.user))),
        "accepted": o.rejected.is_none() && o.front_panic.is_none(),
        "ref_lines": o.ref_trace.as_ref().map(|t| t.lines.len()).unwrap_or(0),
        "ref_ending": o.ref_trace.as_ref().map(|t| format!("{:?}", t.ending).chars().take(30).collect::<String>()),
        "ref_comparable": diffexec::ref_comparable(&o).is_ok(),
        "ref_excluded": diffexec::ref_comparable(&o).err(),
        "compiled": o.compile_panic.is_none() && o.compile_diag.is_none() && o.rejected.is_none(),
        "validated": o.wasm_trace.is_some(),
        "wasm_ending": o.wasm_trace.as_ref().map(|t| match &t.ending { Ending::Fault { kind, .. } => format!("Fault({kind})"), e => format!("{e:?}").chars().take(24).collect() }),
        "ts_ran": o.ts_trace.is_some(),
        "erase_refused": o.erase_err.as_ref().map(|e| !e.starts_with("lex:")).unwrap_or(false),
        "wasm_instrs": o.wasm_instrs,
        "features": case.features,
      });
      if let Some(p) = &o.front_panic {
        v["front_panic"] = json!(p);
      }
      let mut fails = Vec::new();
      // the real engine against the interpreter (calibration of the monitor itself), then the
      // property judged once more with the real engine's run in place of the interpreter's
      let mut judged = judge(prop, &o);
      if let (Some(w), Some(r)) = (&o.wasm_trace, &o.v8_trace) {
        if matches!(r.ending, Ending::StepLimit | Ending::Harness(_)) {
          v["v8"] = json!("unfinished");
        } else if diffexec::engines_agree(w, r) {
          v["v8"] = json!("agree");
        } else {
          v["v8"] = json!("differ");
          v["v8_detail"] = json!({"what": diffexec::describe_diff("the wasm interpreter", w, "node", r), "replay": diffexec::render_project(&case.user)});
        }
        if !matches!(r.ending, Ending::StepLimit | Ending::Harness(_)) {
          let mut o2 = o.clone();
          o2.wasm_trace = Some(r.clone());
          for (sym, what) in judge(prop, &o2) {
            if !judged.iter().any(|(s0, _)| *s0 == sym) {
              judged.push((sym, format!("{what} (observed under node's WebAssembly engine; the interpreter did not show it)")));
            }
          }
        }
      }
      if let (Some(t), Some(r)) = (&o.ts_trace, &o.ts_native_trace) {
        if matches!(r.ending, Ending::StepLimit | Ending::Harness(_)) {
          v["ts_native"] = json!("unfinished");
        } else if diffexec::engines_agree(t, r) {
          v["ts_native"] = json!("agree");
        } else {
          v["ts_native"] = json!("differ");
          v["ts_native_detail"] = json!({"what": diffexec::describe_diff("the type-erased TypeScript", t, "the TypeScript under --experimental-strip-types", r), "replay": diffexec::render_project(&case.user)});
        }
      }
      // several entry points at once, one of them reachable from the other (C03): the compiler
      // must not crash, the module must validate, and each entry must behave as when compiled alone
      if prop == "C03" && case.kind == "generated" && i % 4 == 0 && o.wasm_trace.as_ref().map(|t| matches!(t.ending, Ending::Return)).unwrap_or(false) {
        let mut p2 = case.user.clone();
        p2.modules.push(("multi.Helper".into(), format!("import {{ Main }} from {}\nclass Helper {{ function run(): unit = Main.main() }}\n", case.entry)));
        p2.modules.push(("multi.Second".into(), "import { Helper } from multi.Helper\nclass Main { function main(): unit = { Helper.run(); Process.println(\"second entry point\"); } }\n".into()));
        let full = p2.clone().with_std();
        let mut multi = json!({});
        for (order, entries) in [("entry-first", vec![case.entry.as_str(), "multi.Second"]), ("entry-second", vec!["multi.Second", case.entry.as_str()])] {
          match pool::catch(std::panic::AssertUnwindSafe(|| crate::front::compile_project_multi(&full, &entries))) {
            Err(e) => judged.push((format!("compile-panic:multi-entry:{}", e.rsplit(" @ ").next().unwrap_or("").replace("/repo/", "")), format!("compile_sources panicked with two entry points ({order}), one calling the other's main: {}", e.chars().take(300).collect::<String>()))),
            Ok(Err(d)) => judged.push(("compile-rejected:multi-entry".into(), format!("two entry points ({order}) are rejected although each module is accepted: {}", d.chars().take(200).collect::<String>()))),
            Ok(Ok((wasm, per))) => match crate::wasmi::validate(&wasm) {
              Err(e) => judged.push(("wasm-invalid:multi-entry".into(), format!("two entry points ({order}): the emitted module is invalid: {e}"))),
              Ok(()) => {
                let want = o.wasm_trace.as_ref().unwrap();
                for (k, (_, main_fn)) in per.iter().enumerate() {
                  let (t, _) = crate::wasmi::run(&wasm, main_fn, &lim);
                  let is_entry = entries[k] == case.entry;
                  let mut expect = want.lines.clone();
                  if !is_entry {
                    expect.push("second entry point".into());
                  }
                  if matches!(t.ending, Ending::StepLimit | Ending::Harness(_)) {
                    continue;
                  }
                  // what is printed is C01's subject (and the optimizer may legitimately take other
                  // decisions with a second caller); C03 asks that neither entry ends in an engine fault
                  let _ = expect;
                  if matches!(t.ending, Ending::Fault { .. } | Ending::NoArmMatched) {
                    judged.push((format!("wasm-fault:multi-entry:{}", match &t.ending { Ending::Fault { kind, .. } => kind.clone(), _ => "NoArmMatched".into() }), format!("two entry points ({order}): main of {} ends {:?} after {} lines; compiled alone the program prints {} lines and returns", entries[k], t.ending, t.lines.len(), want.lines.len())));
                  }
                }
                multi[order] = json!("ok");
              }
            },
          }
        }
        v["multi_entry"] = multi;
      }
      for (symptom, what) in judged {
        // cause attribution by intervention: if replacing the emitted `Math.floor(a / b)` by
        // `Math.trunc(a / b)` makes the TypeScript agree with the wasm, the disagreement is exactly
        // the rounding direction of integer division
        if symptom.starts_with("ts-vs-wasm") {
          if let (Some(js), Some(w)) = (&o.js, &o.wasm_trace) {
            let rerun = |patched: String| -> Option<crate::trace::Trace> {
              let mut o2 = o.clone();
              o2.js = Some(patched);
              o2.ts_trace = None;
              let mut refs: Vec<&mut Outcome> = vec![&mut o2];
              diffexec::run_ts_batch(&mut refs, &lim, 20000);
              o2.ts_trace
            };
            let trunc = js.replace("Math.floor(", "Math.trunc(");
            let mut classified = false;
            let mut inconclusive = false;
            if trunc != *js {
              match rerun(trunc.clone()) {
                Some(t) if !t.conclusive() => inconclusive = true,
                Some(t) if diffexec::same(w, &t) => {
                  fails.push(json!({"sig": "ts-vs-wasm:integer-division-rounds-down-in-ts", "what": format!("{what} (agrees once Math.floor is replaced by Math.trunc in the emitted TypeScript)"), "replay": diffexec::render_project(&case.user)}));
                  classified = true;
                }
                _ => {}
              }
            }
            if !classified && !inconclusive {
              // second intervention: make `let x = a op b;` wrap to 32 bits as wasm does
              match rerun(wrap_arithmetic(&trunc)) {
                Some(t) if !t.conclusive() => inconclusive = true,
                Some(t) if diffexec::same(w, &t) => {
                  fails.push(json!({"sig": "ts-vs-wasm:ts-arithmetic-does-not-wrap-to-32-bits", "what": format!("{what} (agrees once + - * in the emitted TypeScript wrap to 32 bits; the source-level run does not overflow, the optimised code relies on wrap-around)"), "replay": diffexec::render_project(&case.user)}));
                  classified = true;
                }
                _ => {}
              }
            }
            if inconclusive {
              fails.push(json!({"unclassified": format!("{symptom} (patched TypeScript run was inconclusive)"), "what": what}));
              continue;
            }
            if classified {
              continue;
            }
          }
        }
        // cause attribution by intervention for wasm-vs-reference differences: recompile with one
        // loop sub-pass disabled (hook); if the emitted wasm then agrees, that sub-pass is the cause
        if symptom.starts_with("wasm-differs") {
          use samlang_optimization::verif as hook;
          let mut attributed = None;
          // narrowest first: only the guard operator of the eliminated loop is corrected
          hook::set_loop_guard_operator_corrected(true);
          let o2 = diffexec::run_all_but_ts(&case.user, &case.entry, &lim);
          hook::set_loop_guard_operator_corrected(false);
          if o2.wasm_trace.is_some() && diffexec::judge_c01(&o2).is_none() {
            fails.push(json!({"sig": "wasm-differs:caused-by:loop-guard-operator-of-eliminated-induction-variable", "what": format!("{what} (agrees once induction variable elimination rebuilds the guard with the matching operator instead of `<`)"), "replay": diffexec::render_project(&case.user)}));
            continue;
          }
          for (mask, name) in [(hook::LOOP_INDUCTION_VARIABLE_ELIMINATION, "loop-induction-variable-elimination"), (hook::LOOP_ALGEBRAIC_OPTIMIZATION, "loop-algebraic-optimization")] {
            hook::set_disabled_loop_subpasses(mask);
            let o2 = diffexec::run_all_but_ts(&case.user, &case.entry, &lim);
            hook::set_disabled_loop_subpasses(0);
            if o2.wasm_trace.is_some() && diffexec::judge_c01(&o2).is_none() {
              attributed = Some(name);
              break;
            }
          }
          if let Some(name) = attributed {
            fails.push(json!({"sig": format!("wasm-differs:caused-by:{name}"), "what": format!("{what} (agrees once the {name} sub-pass is disabled)"), "replay": diffexec::render_project(&case.user)}));
            continue;
          }
        }
        let count = seen.entry(symptom.clone()).or_insert(0);
        *count += 1;
        let location_only = !(symptom.starts_with("wasm-differs") || symptom.starts_with("ts-vs-wasm") || symptom.starts_with("wasm-fault") || symptom == "wasm-no-arm-matched" || symptom.starts_with("ts-fault"));
        // location-carrying symptoms: minimise only the first two per worker (for the replay)
        let want_min = if location_only { *count <= 1 } else { true };
        if want_min && *min_spent > min_budget {
          if location_only {
            fails.push(json!({"sig": symptom, "what": what, "replay": diffexec::render_project(&case.user)}));
          } else {
            fails.push(json!({"unclassified": symptom, "what": what}));
          }
          continue;
        }
        if !want_min || big && !location_only && false {
          fails.push(json!({"sig": symptom, "what": what, "replay": diffexec::render_project(&case.user)}));
          continue;
        }
        let t0 = Instant::now();
        let entry = case.entry.clone();
        let want = symptom.clone();
        let with_ts = needs_ts(prop);
        let prop2 = prop.to_string();
        ctx.begin(i, &format!("minimising {} for {}", case.label, symptom));
        let min = diffexec::minimise(&case.user, if big { 150 } else { 500 }, &mut |p| {
          if !p.modules.iter().any(|(n, _)| *n == entry) {
            return false;
          }
          let o2 = diffexec::run_full(p, &entry, &lim, with_ts);
          judge(&prop2, &o2).iter().any(|(s, _)| *s == want)
        });
        *min_spent += t0.elapsed();
        let sig = signature(&symptom, &min);
        fails.push(json!({"sig": sig, "what": what, "replay": format!("# minimised program (entry {})\n{}\n# ---- original program ----\n# {}", case.entry, diffexec::render_project(&min), diffexec::render_project(&case.user).replace('\n', "\n# "))}));
      }
      if !fails.is_empty() {
        v["fails"] = Value::Array(fails);
      }
      if i % 173 == 3 {
        v["sample"] = json!({"program_head": diffexec::render_project(&case.user).chars().take(500).collect::<String>(), "printed_head": o.ref_trace.as_ref().map(|t| t.lines.iter().take(6).cloned().collect::<Vec<_>>())});
      }
      pool::emit(&v);
      ctx.end(i);
    }
  };
  while i < n {
    if ctx.mine(i) {
      let case = gen_case(prop, ctx.seed, i, &corpus);
      ctx.begin(i, &format!("{} {}", case.kind, case.label));
      let lim2 = if case.kind == "corpus" { crate::trace::Limits { max_steps: 2_000_000_000, max_depth: 4000, max_lines: 100_000 } } else { lim };
      let o = diffexec::run_all_but_ts(&case.user, &case.entry, &lim2);
      pending.push((i, case, o));
      if pending.len() >= 24 {
        flush(&mut pending, &mut min_spent, &mut seen_symptoms);
      }
    }
    if ctx.only_case.is_some() {
      break;
    }
    i += 1;
  }
  flush(&mut pending, &mut min_spent, &mut seen_symptoms);
  let _ = start;
}

fn vcore_verif() -> &'static str {
  crate::evidence::VERIF
}

pub fn main_for(prop: &str) {
  let args: Vec<String> = std::env::args().collect();
  // real-engine legs: the emitted wasm under node >= 22 (all three), the emitted TypeScript natively (C04)
  diffexec::REAL_ENGINE_LEGS.store(if prop == "C04" { 3 } else { 1 }, std::sync::atomic::Ordering::SeqCst);
  if let Some(ctx) = WorkerCtx::from_args(&args) {
    pool::install_hook();
    worker(prop, ctx);
    return;
  }
  let tier = args.get(1).cloned().unwrap_or_else(|| env_tier("quick"));
  let seed = env_seed();
  if let Some(p) = args.iter().position(|a| a == "--replay") {
    let text = std::fs::read_to_string(&args[p + 1]).expect("replay file");
    let (proj, entry) = diffexec::parse_rendered(&text);
    pool::install_hook();
    let o = diffexec::run_full(&proj, &entry, &diffexec::limits(), true);
    let j = judge(prop, &o);
    println!("ref: {:?}\nwasm: {:?}\nts: {:?}\ncompile_panic: {:?}\nwasm_invalid: {:?}\njudgement: {:?}", o.ref_trace.as_ref().map(|t| (&t.lines, &t.ending)), o.wasm_trace.as_ref().map(|t| (&t.lines, &t.ending)), o.ts_trace.as_ref().map(|t| (&t.lines, &t.ending)), o.compile_panic, o.wasm_invalid, j);
    std::process::exit(if j.is_empty() { 0 } else { 1 });
  }
  let level = if prop == "C03" { "exploration" } else { "translation_validation" };
  let mut run = Run::new(prop, &tier, seed, level);
  let thorough = tier == "thorough";
  let opts = DriveOpts {
    nshards: 16,
    tier: tier.clone(),
    seed,
    stall: Duration::from_secs(240),
    overall: Duration::from_secs(if thorough { 3000 } else { 900 }),
    extra: vec![],
    env: vec![("RAYON_NUM_THREADS".into(), "2".into())],
    max_deaths_per_shard: 30,
  };
  let (res, timed_out) = pool::drive(&opts);
  if timed_out {
    run.inconclusive("overall wall-clock cap reached before all programs ran");
  }
  let mut kinds: BTreeMap<String, u64> = BTreeMap::new();
  let mut features: BTreeMap<String, u64> = BTreeMap::new();
  let mut wasm_endings: BTreeMap<String, u64> = BTreeMap::new();
  let mut excluded: BTreeMap<String, u64> = BTreeMap::new();
  let (mut accepted, mut compiled, mut validated, mut ts_ran, mut compared, mut erase_refused, mut instrs) = (0u64, 0u64, 0u64, 0u64, 0u64, 0u64, 0u64);
  let mut nt: BTreeSet<String> = BTreeSet::new();
  let mut disagreements = 0u64;
  let mut real_engine: BTreeMap<String, u64> = BTreeMap::new();
  let mut engine_mismatches: Vec<Value> = Vec::new();
  for v in &res.events {
    if v["t"].as_str() != Some("r") {
      continue;
    }
    run.evaluations += 1;
    *kinds.entry(v["kind"].as_str().unwrap_or("").to_string()).or_insert(0) += 1;
    for (key, name) in [("v8", "wasm: interpreter vs node"), ("ts_native", "typescript: erased vs native")] {
      if let Some(st) = v[key].as_str() {
        *real_engine.entry(format!("{name}: {st}")).or_insert(0) += 1;
        if st == "differ" {
          let d = &v[format!("{key}_detail")];
          let what = d["what"].as_str().unwrap_or("").to_string();
          run.inconclusive(&format!("{name} disagree on a program (the monitor's own executors need attention; the property is judged with both)"));
          if engine_mismatches.len() < 8 {
            let path = format!("{}/replays/{prop}/engine-mismatch-{:016x}.txt", vcore_verif(), hash_str(d["replay"].as_str().unwrap_or("")));
            let _ = std::fs::create_dir_all(format!("{}/replays/{prop}", vcore_verif()));
            let _ = std::fs::write(&path, format!("# {name}: {what}\n{}", d["replay"].as_str().unwrap_or("")));
            engine_mismatches.push(json!({"what": what.chars().take(300).collect::<String>(), "replay": path}));
          }
        }
      }
    }
    if v["accepted"].as_bool() == Some(true) {
      accepted += 1;
    }
    if let Some(p) = v.get("front_panic") {
      run.inconclusive(&format!("front end panicked on a generated program (C05's subject): {}", p.as_str().unwrap_or("").chars().take(80).collect::<String>()));
    }
    if v["compiled"].as_bool() == Some(true) {
      compiled += 1;
    }
    if v["validated"].as_bool() == Some(true) {
      validated += 1;
    }
    if v["ts_ran"].as_bool() == Some(true) {
      ts_ran += 1;
    }
    if v["erase_refused"].as_bool() == Some(true) {
      erase_refused += 1;
    }
    instrs += v["wasm_instrs"].as_u64().unwrap_or(0);
    if let Some(e) = v["wasm_ending"].as_str() {
      *wasm_endings.entry(e.split('(').next().unwrap_or(e).to_string() + if e.starts_with("Fault") { e.trim_start_matches("Fault") } else { "" }).or_insert(0) += 1;
    }
    if let Some(e) = v["ref_excluded"].as_str() {
      *excluded.entry(e.chars().take(60).collect()).or_insert(0) += 1;
    }
    for f in v["features"].as_array().cloned().unwrap_or_default() {
      *features.entry(f.as_str().unwrap_or("").to_string()).or_insert(0) += 1;
    }
    let comparable = match prop {
      "C01" => v["ref_comparable"].as_bool() == Some(true) && v["validated"].as_bool() == Some(true),
      "C04" => v["validated"].as_bool() == Some(true) && v["ts_ran"].as_bool() == Some(true),
      _ => v["accepted"].as_bool() == Some(true),
    };
    if comparable {
      compared += 1;
      if v["ref_lines"].as_u64().unwrap_or(0) >= 5 {
        nt.insert(v["hash"].as_str().unwrap_or("").to_string());
      }
    }
    for f in v["fails"].as_array().cloned().unwrap_or_default() {
      if let Some(u) = f.get("unclassified") {
        run.inconclusive(&format!("disagreement not classified, minimisation budget exhausted: {}", u.as_str().unwrap_or("")));
        continue;
      }
      disagreements += 1;
      run.violation(f["sig"].as_str().unwrap_or("").to_string(), format!("{} [{} case {}]", f["what"].as_str().unwrap_or(""), v["kind"].as_str().unwrap_or(""), v["case"]), f["replay"].as_str().unwrap_or("").to_string());
    }
    if let Some(s) = v.get("sample") {
      run.sample(s.clone());
    }
  }
  let corpus = Corpus::load();
  for d in &res.deaths {
    match d.case {
      None => run.harness_errors.push(format!("worker shard {} died outside any case: {} {}", d.shard, d.how, d.stderr_tail.lines().last().unwrap_or(""))),
      Some(case) => {
        let c = gen_case(prop, seed, case, &corpus);
        if d.hang {
          run.inconclusive(&format!("worker made no progress for {}s on {} {}", opts.stall.as_secs(), c.kind, c.label));
        } else if prop == "C03" {
          run.violation(format!("compiler-abort:{}", d.how), format!("worker died ({}) on {} {}: {}", d.how, c.kind, c.label, d.stderr_tail.lines().rev().find(|l| !l.trim().is_empty()).unwrap_or("")), diffexec::render_project(&c.user));
        } else {
          run.inconclusive(&format!("worker died ({}) on {} {} (C03's subject)", d.how, c.kind, c.label));
        }
      }
    }
  }
  run.distinct_nontrivial = nt.len() as u64;
  run.rule = "programs: tests.AllTests, well-typed-by-construction multi-module programs from the seeded generator (pgen) with property-specific knobs, run-time operator tables with operands hidden behind toInt, and (C03) checker-accepted token/range mutants of the sample programs; each is run by the reference interpreter, compiled with the real compile_sources, validated and run by the WasmGC interpreter and, when a node >= 22 is installed, by node's WebAssembly engine with the emitted loader, and (C03/C04) as erased TypeScript under node (C04: also natively with --experimental-strip-types); non-trivial = distinct program (content hash) that was compared and prints >= 5 lines".into();
  run.cov("programs", json!(run.evaluations));
  run.cov("disagreements_checked", json!(disagreements));
  run.cov("programs_per_kind", json!(kinds));
  run.cov("accepted_by_checker", json!(accepted));
  run.cov("compiled", json!(compiled));
  run.cov("wasm_validated_and_run", json!(validated));
  run.cov("typescript_run", json!(ts_ran));
  run.cov("typescript_eraser_refusals_inconclusive", json!(erase_refused));
  run.cov("compared", json!(compared));
  run.cov("wasm_instructions_executed", json!(instrs));
  run.cov("wasm_endings", json!(wasm_endings));
  run.cov("excluded_from_comparison", json!(excluded));
  run.cov("real_engine_leg", json!({"node": crate::v8run::node().map(|p| p.display().to_string()), "outcomes": real_engine, "mismatches": engine_mismatches}));
  run.cov("generator_features_used", json!(features));
  run.assumptions = vec![
    "the reference interpreter (refint) is the language's evaluation rules; it, the WasmGC interpreter and the TS eraser+node are calibrated against tests/snapshot.txt".into(),
    "runs in which the reference interpreter saw 32-bit overflow, division by zero, a non-canonical toInt, Vec.capacity or == on objects are excluded from comparison".into(),
    "cause tags in signatures are structural facts of the delta-debugged program".into(),
  ];
  std::process::exit(run.finish());
}
