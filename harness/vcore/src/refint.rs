//! Reference (big-step) interpreter for samlang over the *checked source AST*.
//!
//! This is the oracle of the harness: it implements the language's evaluation rules as written in
//! `packages/samlang-website/spec.md` (sections 4-8 and 10) directly on
//! `samlang_ast::source::Module<Arc<Type>>`.  Nothing here is derived from the compiler's
//! lowering (HIR/MIR/LIR); the only things taken from the checker's output are the facts that are
//! part of the *resolved program*: which module a class name refers to (`E::ClassId`), and whether
//! `a.b` is a field access or a member (method / function) access.  Field and variant positions
//! (`field_order`, `tag_order`) computed by the checker are deliberately NOT used: fields and
//! variants are resolved by name against the class definition, and lambdas capture their whole
//! lexical environment instead of the checker's `captured` set.
//!
//! Places where the spec and the implementation are known to disagree, and what is done here:
//!  * call evaluation order: spec 6.7.5 / 6.15 say "arguments, then callee"; every stage of the
//!    implementation (and the e2e snapshot) evaluates the CALLEE expression first and then the
//!    arguments left to right.  We follow the implementation: callee (for `obj.m(args)`: `obj`),
//!    then arguments left to right.
//!  * `==` / `!=` on values that are not int / bool / unit / Str: the spec (6.9) promises
//!    structural equality, the implementation compares references, so the result is
//!    representation dependent.  The plan was to end such runs with
//!    `Ending::Harness("== on non-primitive")`, but std.map (hence tests.AllTests and its
//!    snapshot) uses `==` on tree nodes as a physical-equality shortcut.  Therefore the default
//!    ([`Options::object_identity_eq`] = true) is REFERENCE IDENTITY: `Rc::ptr_eq` for class
//!    instances, function values and Vec; two payload-free variants of the same enum class are
//!    equal iff they are the same variant (they have no identity; structural equality and every
//!    representation agree).  Every such comparison is counted in `RefStats::object_eq`, and in
//!    `RefStats::ambiguous_object_eq` when identity answered "different" for two values that
//!    could be structurally equal (the only case where spec and implementation can disagree).
//!    With `object_identity_eq = false` the run ends with `Harness("== on non-primitive")`.
//!    `Vec.eq` compares elements the same way (value for int/bool/unit/Str, identity otherwise,
//!    spec 5.12).
//!  * integer overflow and division by zero are implementation defined: we compute with wrapping
//!    i32 arithmetic and raise `ub.overflow`; `/` and `%` by zero (and INT_MIN / -1, INT_MIN % -1)
//!    raise `ub.div_zero` and END the run with `Ending::ArithTrap("div by zero")`.
//!  * `toInt` on a non canonical numeral: `ub.bad_to_int`, value 0, run continues.
//!  * string literals: the AST holds the text between the quotes with only `\"` unescaped by the
//!    parser.  The language (spec 2.2) defines escapes, so literals are evaluated through
//!    [`unescape_literal`]; `RefStats::escape_literals` / `quote_literals` count evaluated literals
//!    that contained a backslash / a (formerly escaped) double quote, because the backends are
//!    known to disagree on those.
//!  * literal patterns (spec 8.3) do not exist in the AST (the parser has no such production), so
//!    there is nothing to interpret.
//!  * shadowing (spec 6.13.1 `let x = 1; let x = x + 1;`) and struct patterns that omit fields
//!    (spec 8.5) are implemented as the spec says (newest binding wins / omitted fields are
//!    ignored), but the real type checker rejects both ("Name `x` collides with a previously
//!    defined name", "The pattern does not bind all fields"), so checked programs never contain
//!    them.
//!  * `Vec.withCapacity(n)` / `reserve(n)` with n <= 0: "at least n elements" is trivially
//!    satisfied, so they succeed (no flag); `capacity()` answers max(requested, length) and
//!    raises `ub.capacity_observed`.
//!
//! Stack depth / tail calls.  The implementation rewrites *self tail calls* into loops, so deep
//! self tail recursion never exhausts the stack of compiled code.  The interpreter models that
//! with a real trampoline: a call that is in tail position of the function currently executing
//! (function body; final expression of a block; branch of `if`; arm of `match`; right operand of
//! `&&` / `||` - i.e. the expression whose value *is* the function's result) and whose resolved
//! target (after dynamic dispatch for methods) is that same class member does not recurse and
//! does not count towards the depth: the arguments are rebound and the body is re-entered.
//! Lambda bodies are never trampolined (neither does the implementation).  `let r = f(..); r` is
//! not treated as a tail call.  Every other call (functions, methods, closures) adds 1 to the
//! depth; depth > `limits.max_depth` ends the run with `Ending::StackExhausted`.
//! The interpreter itself is host-recursive; it runs on a dedicated thread with a 2 GiB stack
//! (falling back to smaller sizes if the mapping is refused), and additionally checks the host
//! stack actually used at every call: if less than 1/16 of the stack remains the run also ends
//! with `StackExhausted` instead of crashing the process.  Values are dropped iteratively (custom
//! `Drop`), so million-element linked structures cannot overflow the stack when released.
//! When a run ends with `StackExhausted`, `RefStats::exhausted_frames` names the innermost frames.
//! Any internal invariant failure (including a host panic) becomes `Ending::Harness`.
//!
//! Threading note: values are `Rc` based and not `Send`; they are moved to and from the
//! interpreter thread inside `AssertSend`, which is sound because the calling thread is blocked in
//! `join` for the whole life of the interpreter thread.  Function values returned by
//! `run_function` are opaque and cannot be fed back in (`run_function` accepts only
//! unit/int/bool/Str arguments).

use crate::trace::{Ending, Limits, Trace, UbFlags};
use samlang_ast::source::{
  ClassMemberDefinition, Literal, Module, Toplevel, TypeDefinition, expr, pattern,
};
use samlang_checker::type_::Type;
use samlang_heap::{Heap, ModuleReference, PStr};
use std::cell::RefCell;
use std::collections::HashMap;
use std::hash::{BuildHasherDefault, Hasher};
use std::rc::Rc;
use std::sync::Arc;

type T = Arc<Type>;
type E = expr::E<T>;
type Pat = pattern::MatchingPattern<T>;

// ------------------------------------------------------------------------------------------------
// public data
// ------------------------------------------------------------------------------------------------

#[derive(Clone, Debug, Default, PartialEq, Eq)]
pub struct RefStats {
  /// expression nodes evaluated
  pub steps: u64,
  /// deepest call depth reached (self tail calls do not count)
  pub max_depth: usize,
  /// calls of class members (functions + methods), including trampolined ones
  pub calls: u64,
  /// `match` expressions evaluated
  pub matches: u64,
  /// calls of function values (lambdas, method / function references)
  pub closures_called: u64,
  /// self tail calls executed as loop iterations
  pub tail_calls: u64,
  /// evaluated string literals whose text contains a backslash (escape sequence)
  pub escape_literals: u64,
  /// evaluated string literals whose text contains `"` (was `\"` in the source)
  pub quote_literals: u64,
  /// `==` / `!=` / `Vec.eq` element comparisons on heap values (class instances, functions, Vec),
  /// decided by reference identity
  pub object_eq: u64,
  /// those among `object_eq` whose outcome is representation dependent: the two values are
  /// distinct objects that are not obviously different (not two different variants of one enum),
  /// so structural equality (spec 6.9) or an unboxed representation could say "equal" where
  /// identity said "different".  Runs with a non-zero count depend on unspecified behaviour if
  /// the program's output depends on these comparisons.
  pub ambiguous_object_eq: u64,
  /// largest host stack use observed (bytes)
  pub host_stack_bytes: usize,
  /// diagnostics for `Ending::StackExhausted`: the innermost frames (innermost last), as
  /// `Class.member` or `<lambda>`; empty otherwise
  pub exhausted_frames: Vec<String>,
}

impl RefStats {
  /// true if some evaluated literal needed escape processing (backslash or escaped quote)
  pub fn saw_escaped_literal(&self) -> bool {
    self.escape_literals > 0 || self.quote_literals > 0
  }
}

/// static description of a class, shared by all its instances (class identity = `id`)
#[derive(Debug)]
pub struct ClassMeta {
  /// unique per (module, class name) within one run
  pub id: u32,
  pub module: String,
  pub name: String,
  /// struct classes: field names in declaration order
  pub fields: Vec<String>,
  /// enum classes: variant names in declaration order
  pub variants: Vec<String>,
}

/// heap object of a struct class (tag = 0) or an enum class (tag = variant index)
pub struct Obj {
  pub meta: Rc<ClassMeta>,
  pub tag: u32,
  pub fields: Vec<Value>,
}

/// growable vector object; `cap` is only a hint used to answer `capacity()`
pub struct VecObj {
  pub items: Vec<Value>,
  pub cap: usize,
}

#[derive(Clone, Copy, Debug, PartialEq, Eq)]
enum Builtin {
  Println,
  Panic,
  FromInt,
  ToInt,
  VecEmpty,
  VecOf,
  VecWithCapacity,
  VecLength,
  VecCapacity,
  VecReserve,
  VecPush,
  VecPop,
  VecGet,
  VecSet,
  VecEq,
}

#[derive(Clone, Copy, Debug, PartialEq, Eq)]
enum Callable {
  /// user function / method, index into Program::fns
  Fn(usize),
  /// `Class.init` (tag None) or `Class.Variant` (tag Some(i)); class index into Program::classes
  Ctor { class: usize, tag: Option<u32> },
  Builtin(Builtin),
}

enum CloKind {
  /// lambda expression + the lexical environment at its creation.  The raw pointer points into
  /// the checked AST that `run` borrows; it is only dereferenced inside that same `run`.
  Lambda { lam: *const expr::Lambda<T>, env: Vec<(PStr, Value)> },
  /// `Class.function`, `Class.init`, `Class.Variant`, builtin, or `obj.method` (recv = Some)
  Member { callable: Callable, recv: Option<Value>, label: String },
}

/// opaque function value
pub struct Closure {
  kind: CloKind,
}

#[derive(Clone)]
pub enum Value {
  Unit,
  Int(i32),
  Bool(bool),
  Str(Rc<str>),
  /// instance of a struct class (tuples are instances of std.tuples.Pair/Triple/TupleN)
  Struct(Rc<Obj>),
  /// instance of an enum class
  Variant(Rc<Obj>),
  Closure(Rc<Closure>),
  Vec(Rc<RefCell<VecObj>>),
}

impl Value {
  pub fn str(s: &str) -> Value {
    Value::Str(Rc::from(s))
  }

  /// debugging rendering (bounded in depth and width)
  pub fn render(&self) -> String {
    let mut out = String::new();
    self.render_into(&mut out, 0);
    out
  }

  fn render_into(&self, out: &mut String, depth: usize) {
    const MAX_DEPTH: usize = 24;
    const MAX_WIDTH: usize = 64;
    if out.len() > 1 << 16 {
      out.push('…');
      return;
    }
    match self {
      Value::Unit => out.push_str("{}"),
      Value::Int(i) => out.push_str(&i.to_string()),
      Value::Bool(b) => out.push_str(if *b { "true" } else { "false" }),
      Value::Str(s) => out.push_str(&format!("{:?}", &**s)),
      Value::Struct(o) => {
        out.push_str(&o.meta.name);
        out.push('{');
        if depth >= MAX_DEPTH {
          out.push('…');
        } else {
          for (i, f) in o.fields.iter().enumerate() {
            if i > 0 {
              out.push_str(", ");
            }
            if i >= MAX_WIDTH {
              out.push('…');
              break;
            }
            if let Some(n) = o.meta.fields.get(i) {
              out.push_str(n);
              out.push_str(": ");
            }
            f.render_into(out, depth + 1);
          }
        }
        out.push('}');
      }
      Value::Variant(o) => {
        out.push_str(&o.meta.name);
        out.push('.');
        match o.meta.variants.get(o.tag as usize) {
          Some(n) => out.push_str(n),
          None => out.push_str(&format!("#{}", o.tag)),
        }
        out.push('(');
        if depth >= MAX_DEPTH {
          out.push('…');
        } else {
          for (i, f) in o.fields.iter().enumerate() {
            if i > 0 {
              out.push_str(", ");
            }
            if i >= MAX_WIDTH {
              out.push('…');
              break;
            }
            f.render_into(out, depth + 1);
          }
        }
        out.push(')');
      }
      Value::Closure(c) => match &c.kind {
        CloKind::Lambda { env, .. } => out.push_str(&format!("<lambda env={}>", env.len())),
        CloKind::Member { label, recv, .. } => {
          out.push_str("<fn ");
          out.push_str(label);
          if recv.is_some() {
            out.push_str(" bound");
          }
          out.push('>');
        }
      },
      Value::Vec(v) => match v.try_borrow() {
        Ok(v) => {
          out.push_str("Vec[");
          if depth >= MAX_DEPTH {
            out.push('…');
          } else {
            for (i, f) in v.items.iter().enumerate() {
              if i > 0 {
                out.push_str(", ");
              }
              if i >= MAX_WIDTH {
                out.push('…');
                break;
              }
              f.render_into(out, depth + 1);
            }
          }
          out.push(']');
        }
        Err(_) => out.push_str("Vec[<borrowed>]"),
      },
    }
  }

  /// value equality for the types on which `==` is defined independently of representation
  fn primitive_eq(&self, other: &Value) -> Option<bool> {
    match (self, other) {
      (Value::Unit, Value::Unit) => Some(true),
      (Value::Int(a), Value::Int(b)) => Some(a == b),
      (Value::Bool(a), Value::Bool(b)) => Some(a == b),
      (Value::Str(a), Value::Str(b)) => Some(a == b),
      _ => None,
    }
  }

  /// Reference identity for heap values: (equal, ambiguous).  Payload-free variants have no
  /// identity of their own: two such values of the same class are equal iff they are the same
  /// variant (structural equality and every representation agree on that).  `ambiguous` is set
  /// when identity says "different" although the values might be structurally equal.
  fn identity_eq(&self, other: &Value) -> (bool, bool) {
    match (self, other) {
      (Value::Struct(a), Value::Struct(b)) => {
        let same = Rc::ptr_eq(a, b);
        (same, !same)
      }
      (Value::Variant(a), Value::Variant(b)) => {
        if Rc::ptr_eq(a, b) {
          (true, false)
        } else if a.meta.id == b.meta.id && a.tag != b.tag {
          (false, false)
        } else if a.meta.id == b.meta.id && a.fields.is_empty() && b.fields.is_empty() {
          (true, false)
        } else {
          (false, true)
        }
      }
      (Value::Closure(a), Value::Closure(b)) => {
        let same = Rc::ptr_eq(a, b);
        (same, !same)
      }
      (Value::Vec(a), Value::Vec(b)) => {
        let same = Rc::ptr_eq(a, b);
        (same, !same)
      }
      _ => (false, true),
    }
  }
}

impl std::fmt::Debug for Value {
  fn fmt(&self, f: &mut std::fmt::Formatter<'_>) -> std::fmt::Result {
    f.write_str(&self.render())
  }
}

// Iterative destruction: releasing a long linked structure must not recurse on the host stack.
fn drain_values(mut stack: Vec<Value>) {
  while let Some(v) = stack.pop() {
    match v {
      Value::Struct(rc) | Value::Variant(rc) => {
        if let Ok(mut o) = Rc::try_unwrap(rc) {
          stack.append(&mut o.fields);
        }
      }
      Value::Closure(rc) => {
        if let Ok(mut c) = Rc::try_unwrap(rc) {
          match &mut c.kind {
            CloKind::Lambda { env, .. } => stack.extend(env.drain(..).map(|(_, v)| v)),
            CloKind::Member { recv, .. } => {
              if let Some(r) = recv.take() {
                stack.push(r)
              }
            }
          }
        }
      }
      Value::Vec(rc) => {
        if let Ok(cell) = Rc::try_unwrap(rc) {
          let mut vo = cell.into_inner();
          stack.append(&mut vo.items);
        }
      }
      Value::Unit | Value::Int(_) | Value::Bool(_) | Value::Str(_) => {}
    }
  }
}

fn is_heap_value(v: &Value) -> bool {
  matches!(v, Value::Struct(_) | Value::Variant(_) | Value::Closure(_) | Value::Vec(_))
}

impl Drop for Obj {
  fn drop(&mut self) {
    if self.fields.iter().any(is_heap_value) {
      drain_values(std::mem::take(&mut self.fields));
    }
  }
}

impl Drop for VecObj {
  fn drop(&mut self) {
    if self.items.iter().any(is_heap_value) {
      drain_values(std::mem::take(&mut self.items));
    }
  }
}

impl Drop for Closure {
  fn drop(&mut self) {
    match &mut self.kind {
      CloKind::Lambda { env, .. } => {
        if env.iter().any(|(_, v)| is_heap_value(v)) {
          drain_values(env.drain(..).map(|(_, v)| v).collect());
        }
      }
      CloKind::Member { recv, .. } => {
        if let Some(r) = recv.take() {
          drain_values(vec![r]);
        }
      }
    }
  }
}

/// The escape sequences of the language (spec 2.2): `\n \t \\ \0 \b \f \v \"`; `\r` is accepted
/// by the lexer as well and given its universal meaning.  `raw` is the literal text as stored in
/// the AST (the parser has already turned `\"` into `"`).  An unknown escape (the lexer rejects
/// those) is kept verbatim.
pub fn unescape_literal(raw: &str) -> String {
  if !raw.contains('\\') {
    return raw.to_string();
  }
  let mut out = String::with_capacity(raw.len());
  let mut it = raw.chars();
  while let Some(c) = it.next() {
    if c != '\\' {
      out.push(c);
      continue;
    }
    match it.next() {
      Some('n') => out.push('\n'),
      Some('t') => out.push('\t'),
      Some('\\') => out.push('\\'),
      Some('0') => out.push('\0'),
      Some('b') => out.push('\u{8}'),
      Some('f') => out.push('\u{c}'),
      Some('v') => out.push('\u{b}'),
      Some('r') => out.push('\r'),
      Some('"') => out.push('"'),
      Some(other) => {
        out.push('\\');
        out.push(other);
      }
      None => out.push('\\'),
    }
  }
  out
}

/// canonical decimal numeral of an i32: optional '-', no leading zeros except "0", no '+'
pub fn parse_canonical_int(s: &str) -> Option<i32> {
  let digits = s.strip_prefix('-').unwrap_or(s);
  if digits.is_empty() || digits.len() > 10 || !digits.bytes().all(|b| b.is_ascii_digit()) {
    return None;
  }
  if digits.len() > 1 && digits.starts_with('0') {
    return None;
  }
  if s == "-0" {
    return None;
  }
  s.parse::<i32>().ok()
}

// ------------------------------------------------------------------------------------------------
// program tables
// ------------------------------------------------------------------------------------------------

#[derive(Default)]
struct FastHasher(u64);

impl Hasher for FastHasher {
  fn finish(&self) -> u64 {
    // the multiplication leaves the low bits weak (pointer keys are 8-aligned): rotate
    self.0.rotate_left(26)
  }
  fn write(&mut self, bytes: &[u8]) {
    for chunk in bytes.chunks(8) {
      let mut b = [0u8; 8];
      b[..chunk.len()].copy_from_slice(chunk);
      self.write_u64(u64::from_le_bytes(b));
    }
  }
  fn write_u64(&mut self, i: u64) {
    self.0 = (self.0.rotate_left(5) ^ i).wrapping_mul(0x517c_c1b7_2722_0a95);
  }
  fn write_u128(&mut self, i: u128) {
    self.write_u64(i as u64);
    self.write_u64((i >> 64) as u64);
  }
  fn write_usize(&mut self, i: usize) {
    self.write_u64(i as u64);
  }
  fn write_u32(&mut self, i: u32) {
    self.write_u64(i as u64);
  }
  fn write_u8(&mut self, i: u8) {
    self.write_u64(i as u64);
  }
}

type FastMap<K, V> = HashMap<K, V, BuildHasherDefault<FastHasher>>;

enum ClassKind {
  Struct { fields: Vec<PStr> },
  Enum { variants: Vec<(PStr, usize)> },
  Plain,
}

struct ClassInfo {
  meta: Rc<ClassMeta>,
  name: PStr,
  kind: ClassKind,
  functions: FastMap<PStr, usize>,
  methods: FastMap<PStr, usize>,
}

struct FnInfo<'a> {
  class: usize,
  name: PStr,
  is_method: bool,
  params: Vec<PStr>,
  body: &'a E,
}

struct Program<'a> {
  classes: Vec<ClassInfo>,
  class_index: FastMap<(ModuleReference, PStr), usize>,
  fns: Vec<FnInfo<'a>>,
}

impl<'a> Program<'a> {
  fn build(heap: &Heap, checked: &'a HashMap<ModuleReference, Module<T>>) -> Program<'a> {
    let mut prog =
      Program { classes: Vec::new(), class_index: FastMap::default(), fns: Vec::new() };
    // deterministic class numbering
    let mut modules: Vec<_> = checked.iter().collect();
    modules.sort_by_key(|(m, _)| **m);
    for (mod_ref, module) in modules {
      for toplevel in &module.toplevels {
        let Toplevel::Class(c) = toplevel else { continue };
        let class_idx = prog.classes.len();
        let (kind, field_names, variant_names) = match &c.type_definition {
          Some(TypeDefinition::Struct { fields, .. }) => (
            ClassKind::Struct { fields: fields.iter().map(|f| f.name.name).collect() },
            fields.iter().map(|f| f.name.name.as_str(heap).to_string()).collect(),
            Vec::new(),
          ),
          Some(TypeDefinition::Enum { variants, .. }) => (
            ClassKind::Enum {
              variants: variants
                .iter()
                .map(|v| {
                  (
                    v.name.name,
                    v.associated_data_types.as_ref().map(|l| l.annotations.len()).unwrap_or(0),
                  )
                })
                .collect(),
            },
            Vec::new(),
            variants.iter().map(|v| v.name.name.as_str(heap).to_string()).collect(),
          ),
          None => (ClassKind::Plain, Vec::new(), Vec::new()),
        };
        let meta = Rc::new(ClassMeta {
          id: class_idx as u32,
          module: mod_ref.pretty_print(heap),
          name: c.name.name.as_str(heap).to_string(),
          fields: field_names,
          variants: variant_names,
        });
        let mut info = ClassInfo {
          meta,
          name: c.name.name,
          kind,
          functions: FastMap::default(),
          methods: FastMap::default(),
        };
        for member in &c.members.members {
          let ClassMemberDefinition { decl, body } = member;
          let fn_idx = prog.fns.len();
          prog.fns.push(FnInfo {
            class: class_idx,
            name: decl.name.name,
            is_method: decl.is_method,
            params: decl.parameters.parameters.iter().map(|p| p.name.name).collect(),
            body,
          });
          if decl.is_method {
            info.methods.insert(decl.name.name, fn_idx);
          } else {
            info.functions.insert(decl.name.name, fn_idx);
          }
        }
        prog.class_index.insert((*mod_ref, c.name.name), class_idx);
        prog.classes.push(info);
      }
    }
    prog
  }
}

// ------------------------------------------------------------------------------------------------
// interpreter
// ------------------------------------------------------------------------------------------------

/// non-local exits; kept pointer-sized so that `R<Value>` stays small on the hot path
enum Ctl {
  End(Box<Ending>),
  /// self tail call: rebind the parameters of the running function and re-enter its body; the
  /// new receiver and arguments are parked in `Interp::pending_tail`
  TailCall,
}

fn end<V>(e: Ending) -> R<V> {
  Err(Ctl::End(Box::new(e)))
}

type R<V> = Result<V, Ctl>;

fn harness<V>(msg: impl Into<String>) -> R<V> {
  end(Ending::Harness(msg.into()))
}

type Env = Vec<(PStr, Value)>;

struct Interp<'a, 'p> {
  heap: &'a Heap,
  prog: &'p Program<'a>,
  limits: Limits,
  lines: Vec<String>,
  ub: UbFlags,
  stats: RefStats,
  depth: usize,
  literal_cache: FastMap<PStr, Rc<str>>,
  /// call site (address of the MethodAccess node) -> resolved static member
  static_site_cache: FastMap<usize, Callable>,
  pending_tail: Option<(Option<Value>, Vec<Value>)>,
  /// fn ids of the active calls (usize::MAX = lambda), for diagnostics only
  frames: Vec<usize>,
  object_identity_eq: bool,
  stack_base: usize,
  stack_budget: usize,
}

#[inline(always)]
fn stack_pointer_estimate() -> usize {
  let marker = 0u8;
  std::hint::black_box(&marker) as *const u8 as usize
}

impl<'a, 'p> Interp<'a, 'p> {
  fn name(&self, p: PStr) -> String {
    p.as_str(self.heap).to_string()
  }

  fn fn_label(&self, id: usize) -> String {
    let f = &self.prog.fns[id];
    format!("{}.{}", self.prog.classes[f.class].meta.name, self.name(f.name))
  }

  // ---- calls -----------------------------------------------------------------------------------

  /// account for one more active call (`frame`: fn id, or usize::MAX for a lambda).  On error
  /// nothing is left to undo.
  fn enter(&mut self, frame: usize) -> R<()> {
    let used = self.stack_base.saturating_sub(stack_pointer_estimate());
    if used > self.stats.host_stack_bytes {
      self.stats.host_stack_bytes = used;
    }
    if self.depth + 1 > self.limits.max_depth || used > self.stack_budget {
      let mut names: Vec<String> = self
        .frames
        .iter()
        .rev()
        .take(11)
        .map(|f| if *f == usize::MAX { "<lambda>".to_string() } else { self.fn_label(*f) })
        .collect();
      names.reverse();
      names.push(if frame == usize::MAX { "<lambda>".to_string() } else { self.fn_label(frame) });
      self.stats.exhausted_frames = names;
      self.stats.max_depth = self.stats.max_depth.max(self.depth + 1);
      return end(Ending::StackExhausted);
    }
    self.depth += 1;
    self.frames.push(frame);
    if self.depth > self.stats.max_depth {
      self.stats.max_depth = self.depth;
    }
    Ok(())
  }

  fn leave(&mut self) {
    self.depth -= 1;
    self.frames.pop();
  }

  #[inline(never)]
  fn call_fn(&mut self, id: usize, mut this: Option<Value>, mut args: Vec<Value>) -> R<Value> {
    let prog = self.prog;
    let f = &prog.fns[id];
    self.enter(id)?;
    let mut env: Env = Vec::with_capacity(args.len() + 6);
    let result = loop {
      self.stats.calls += 1;
      if args.len() != f.params.len() {
        break harness(format!(
          "arity mismatch calling {}: {} parameters, {} arguments",
          self.fn_label(id),
          f.params.len(),
          args.len()
        ));
      }
      env.clear();
      match (f.is_method, this.take()) {
        (true, Some(t)) => env.push((PStr::THIS, t)),
        (false, None) => {}
        (true, None) => break harness(format!("method {} called without receiver", self.fn_label(id))),
        (false, Some(_)) => {
          break harness(format!("function {} called with receiver", self.fn_label(id)));
        }
      }
      for (p, a) in f.params.iter().zip(args.drain(..)) {
        env.push((*p, a));
      }
      match self.eval(f.body, &mut env, Some(id)) {
        Err(Ctl::TailCall) => {
          self.stats.tail_calls += 1;
          match self.pending_tail.take() {
            Some((t, a)) => {
              this = t;
              args = a;
            }
            None => break harness("tail call without pending arguments"),
          }
        }
        other => break other,
      }
    };
    self.leave();
    result
  }

  /// invoke a resolved callable; `tail` = the function whose tail position this call is in
  fn invoke(
    &mut self,
    callable: Callable,
    recv: Option<Value>,
    args: Vec<Value>,
    tail: Option<usize>,
  ) -> R<Value> {
    match callable {
      Callable::Fn(id) => {
        if tail == Some(id) {
          // self tail call: handled by the loop in call_fn of the running activation
          self.pending_tail = Some((recv, args));
          return Err(Ctl::TailCall);
        }
        self.call_fn(id, recv, args)
      }
      Callable::Ctor { class, tag } => self.construct(class, tag, args),
      Callable::Builtin(b) => self.call_builtin(b, recv, args),
    }
  }

  fn construct(&mut self, class: usize, tag: Option<u32>, args: Vec<Value>) -> R<Value> {
    let prog = self.prog;
    let info = &prog.classes[class];
    match (&info.kind, tag) {
      (ClassKind::Struct { fields }, None) => {
        if fields.len() != args.len() {
          return harness(format!(
            "{}.init: {} fields, {} arguments",
            info.meta.name,
            fields.len(),
            args.len()
          ));
        }
        Ok(Value::Struct(Rc::new(Obj { meta: info.meta.clone(), tag: 0, fields: args })))
      }
      (ClassKind::Enum { variants }, Some(t)) => {
        let Some((_, arity)) = variants.get(t as usize) else {
          return harness("variant index out of range");
        };
        if *arity != args.len() {
          return harness(format!(
            "{}.{}: arity {}, {} arguments",
            info.meta.name, info.meta.variants[t as usize], arity, args.len()
          ));
        }
        Ok(Value::Variant(Rc::new(Obj { meta: info.meta.clone(), tag: t, fields: args })))
      }
      _ => harness(format!("bad constructor for class {}", info.meta.name)),
    }
  }

  #[inline(never)]
  fn call_closure(&mut self, f: Value, args: Vec<Value>) -> R<Value> {
    let Value::Closure(c) = f else {
      return harness(format!("call of a non-function value {}", f.render()));
    };
    self.stats.closures_called += 1;
    match &c.kind {
      CloKind::Lambda { lam, env } => {
        // SAFETY: `lam` was created from a `&'a expr::Lambda` of the checked AST borrowed for the
        // whole run by this very interpreter instance (closures cannot enter from outside:
        // `run_function` rejects closure arguments).
        let lam: &'a expr::Lambda<T> = unsafe { &**lam };
        let params = &lam.parameters.parameters;
        if params.len() != args.len() {
          return harness(format!(
            "lambda arity mismatch: {} parameters, {} arguments",
            params.len(),
            args.len()
          ));
        }
        self.enter(usize::MAX)?;
        let mut new_env: Env = Vec::with_capacity(env.len() + args.len() + 4);
        new_env.extend(env.iter().cloned());
        for (p, a) in params.iter().zip(args) {
          new_env.push((p.name.name, a));
        }
        let r = self.eval(&lam.body, &mut new_env, None);
        self.leave();
        match r {
          Err(Ctl::TailCall) => harness("tail call escaped a lambda body"),
          other => other,
        }
      }
      CloKind::Member { callable, recv, .. } => self.invoke(*callable, recv.clone(), args, None),
    }
  }

  // ---- member resolution -----------------------------------------------------------------------

  fn resolve_static(&self, module: ModuleReference, class: PStr, member: PStr) -> R<Callable> {
    if module == ModuleReference::ROOT {
      let b = if class == PStr::PROCESS_TYPE {
        if member == PStr::PRINTLN {
          Some(Builtin::Println)
        } else if member == PStr::PANIC {
          Some(Builtin::Panic)
        } else {
          None
        }
      } else if class == PStr::STR_TYPE {
        if member == PStr::FROM_INT { Some(Builtin::FromInt) } else { None }
      } else if class == PStr::VEC_TYPE {
        if member == PStr::EMPTY_FN {
          Some(Builtin::VecEmpty)
        } else if member == PStr::OF {
          Some(Builtin::VecOf)
        } else if member == PStr::WITH_CAPACITY {
          Some(Builtin::VecWithCapacity)
        } else {
          None
        }
      } else {
        None
      };
      return match b {
        Some(b) => Ok(Callable::Builtin(b)),
        None => harness(format!(
          "unsupported: builtin function {}.{}",
          self.name(class),
          self.name(member)
        )),
      };
    }
    let Some(&ci) = self.prog.class_index.get(&(module, class)) else {
      return harness(format!(
        "unsupported: class {}.{} is not among the checked sources",
        module.pretty_print(self.heap),
        self.name(class)
      ));
    };
    let prog = self.prog;
    let info = &prog.classes[ci];
    if let Some(&f) = info.functions.get(&member) {
      return Ok(Callable::Fn(f));
    }
    match &info.kind {
      ClassKind::Struct { .. } if member == PStr::INIT => {
        return Ok(Callable::Ctor { class: ci, tag: None });
      }
      ClassKind::Enum { variants } => {
        if let Some(i) = variants.iter().position(|(n, _)| *n == member) {
          return Ok(Callable::Ctor { class: ci, tag: Some(i as u32) });
        }
      }
      _ => {}
    }
    harness(format!("no static member {}.{}", info.meta.name, self.name(member)))
  }

  /// dynamic dispatch on the run-time class of the receiver
  fn resolve_method(&self, recv: &Value, member: PStr) -> R<Callable> {
    match recv {
      Value::Struct(o) | Value::Variant(o) => {
        let prog = self.prog;
        let info = &prog.classes[o.meta.id as usize];
        match info.methods.get(&member) {
          Some(&f) => Ok(Callable::Fn(f)),
          None => harness(format!("class {} has no method {}", info.meta.name, self.name(member))),
        }
      }
      Value::Str(_) => {
        if member == PStr::TO_INT {
          Ok(Callable::Builtin(Builtin::ToInt))
        } else {
          harness(format!("unsupported: Str method {}", self.name(member)))
        }
      }
      Value::Vec(_) => {
        let b = if member == PStr::LENGTH {
          Builtin::VecLength
        } else if member == PStr::CAPACITY {
          Builtin::VecCapacity
        } else if member == PStr::RESERVE {
          Builtin::VecReserve
        } else if member == PStr::PUSH {
          Builtin::VecPush
        } else if member == PStr::POP {
          Builtin::VecPop
        } else if member == PStr::GET {
          Builtin::VecGet
        } else if member == PStr::SET {
          Builtin::VecSet
        } else if member == PStr::STR_EQ {
          Builtin::VecEq
        } else {
          return harness(format!("unsupported: Vec method {}", self.name(member)));
        };
        Ok(Callable::Builtin(b))
      }
      other => harness(format!(
        "method {} called on a value without methods: {}",
        self.name(member),
        other.render()
      )),
    }
  }

  // ---- builtins --------------------------------------------------------------------------------

  fn println(&mut self, s: &str) -> R<()> {
    if self.lines.len() >= self.limits.max_lines {
      return end(Ending::StepLimit);
    }
    self.lines.push(s.to_string());
    Ok(())
  }

  #[inline(never)]
  fn call_builtin(&mut self, b: Builtin, recv: Option<Value>, mut args: Vec<Value>) -> R<Value> {
    fn arity<V>(b: Builtin, args: &[V], n: usize) -> R<()> {
      if args.len() == n { Ok(()) } else { harness(format!("builtin {b:?}: bad arity")) }
    }
    fn int_arg(b: Builtin, v: &Value) -> R<i32> {
      match v {
        Value::Int(i) => Ok(*i),
        other => harness(format!("builtin {b:?}: expected int, got {}", other.render())),
      }
    }
    fn str_arg(b: Builtin, v: &Value) -> R<Rc<str>> {
      match v {
        Value::Str(s) => Ok(s.clone()),
        other => harness(format!("builtin {b:?}: expected Str, got {}", other.render())),
      }
    }
    fn vec_recv(b: Builtin, v: &Option<Value>) -> R<Rc<RefCell<VecObj>>> {
      match v {
        Some(Value::Vec(v)) => Ok(v.clone()),
        _ => harness(format!("builtin {b:?}: receiver is not a Vec")),
      }
    }
    match b {
      Builtin::Println => {
        arity(b, &args, 1)?;
        let s = str_arg(b, &args[0])?;
        self.println(&s)?;
        Ok(Value::Unit)
      }
      Builtin::Panic => {
        arity(b, &args, 1)?;
        let s = str_arg(b, &args[0])?;
        end(Ending::Panic(s.to_string()))
      }
      Builtin::FromInt => {
        arity(b, &args, 1)?;
        let i = int_arg(b, &args[0])?;
        Ok(Value::Str(Rc::from(i.to_string())))
      }
      Builtin::ToInt => {
        arity(b, &args, 0)?;
        let Some(Value::Str(s)) = &recv else {
          return harness("toInt: receiver is not a Str");
        };
        match parse_canonical_int(s) {
          Some(i) => Ok(Value::Int(i)),
          None => {
            // implementation defined (spec 10.1): flag it, continue with 0
            self.ub.bad_to_int = true;
            Ok(Value::Int(0))
          }
        }
      }
      Builtin::VecEmpty => {
        arity(b, &args, 0)?;
        Ok(Value::Vec(Rc::new(RefCell::new(VecObj { items: Vec::new(), cap: 0 }))))
      }
      Builtin::VecOf => {
        arity(b, &args, 1)?;
        let v = args.pop().unwrap();
        Ok(Value::Vec(Rc::new(RefCell::new(VecObj { items: vec![v], cap: 1 }))))
      }
      Builtin::VecWithCapacity => {
        arity(b, &args, 1)?;
        // "sized to hold at least n elements": any n <= 0 is trivially satisfied
        let n = int_arg(b, &args[0])?.max(0) as usize;
        Ok(Value::Vec(Rc::new(RefCell::new(VecObj { items: Vec::new(), cap: n }))))
      }
      Builtin::VecLength => {
        arity(b, &args, 0)?;
        let v = vec_recv(b, &recv)?;
        let n = v.borrow().items.len();
        Ok(Value::Int(n as i32))
      }
      Builtin::VecCapacity => {
        arity(b, &args, 0)?;
        let v = vec_recv(b, &recv)?;
        // advisory value (spec 5.12: "backends may round up"): flag the observation
        self.ub.capacity_observed = true;
        let v = v.borrow();
        Ok(Value::Int(v.cap.max(v.items.len()) as i32))
      }
      Builtin::VecReserve => {
        arity(b, &args, 1)?;
        let v = vec_recv(b, &recv)?;
        let n = int_arg(b, &args[0])?.max(0) as usize;
        let mut v = v.borrow_mut();
        if v.cap < n {
          v.cap = n;
        }
        Ok(Value::Unit)
      }
      Builtin::VecPush => {
        arity(b, &args, 1)?;
        let v = vec_recv(b, &recv)?;
        let x = args.pop().unwrap();
        let mut v = v.borrow_mut();
        if v.items.len() >= i32::MAX as usize {
          return harness("Vec larger than i32::MAX");
        }
        v.items.push(x);
        if v.items.len() > v.cap {
          v.cap = (v.cap * 2).max(v.items.len()).max(4);
        }
        Ok(Value::Unit)
      }
      Builtin::VecPop => {
        arity(b, &args, 0)?;
        let v = vec_recv(b, &recv)?;
        let popped = v.borrow_mut().items.pop();
        match popped {
          Some(x) => Ok(x),
          None => end(Ending::VecBounds),
        }
      }
      Builtin::VecGet => {
        arity(b, &args, 1)?;
        let v = vec_recv(b, &recv)?;
        let i = int_arg(b, &args[0])?;
        let v = v.borrow();
        if i < 0 || i as usize >= v.items.len() {
          return end(Ending::VecBounds);
        }
        Ok(v.items[i as usize].clone())
      }
      Builtin::VecSet => {
        arity(b, &args, 2)?;
        let v = vec_recv(b, &recv)?;
        let i = int_arg(b, &args[0])?;
        let x = args.pop().unwrap();
        let mut v = v.borrow_mut();
        if i < 0 || i as usize >= v.items.len() {
          return end(Ending::VecBounds);
        }
        v.items[i as usize] = x;
        Ok(Value::Unit)
      }
      Builtin::VecEq => {
        arity(b, &args, 1)?;
        let v = vec_recv(b, &recv)?;
        let Value::Vec(o) = &args[0] else {
          return harness("Vec.eq: argument is not a Vec");
        };
        if Rc::ptr_eq(&v, o) {
          return Ok(Value::Bool(true));
        }
        let (a, c) = (v.borrow(), o.borrow());
        if a.items.len() != c.items.len() {
          return Ok(Value::Bool(false));
        }
        let mut eq = true;
        for (x, y) in a.items.iter().zip(c.items.iter()) {
          let same = match x.primitive_eq(y) {
            Some(r) => r,
            None => {
              let (same, ambiguous) = x.identity_eq(y);
              self.stats.object_eq += 1;
              self.stats.ambiguous_object_eq += ambiguous as u64;
              same
            }
          };
          if !same {
            eq = false;
            break;
          }
        }
        Ok(Value::Bool(eq))
      }
    }
  }

  // ---- patterns --------------------------------------------------------------------------------

  /// try to match `v` against `p`, pushing bindings on `env`.  On failure the caller truncates
  /// `env` back (bindings pushed by a partially matched pattern are discarded).
  fn match_pattern(&mut self, p: &'a Pat, v: &Value, env: &mut Env) -> R<bool> {
    match p {
      Pat::Wildcard { .. } => Ok(true),
      Pat::Id(id, _) => {
        env.push((id.name, v.clone()));
        Ok(true)
      }
      Pat::Tuple(tp) => {
        let Value::Struct(o) = v else {
          return harness(format!("tuple pattern against non-tuple value {}", v.render()));
        };
        if o.fields.len() != tp.elements.len() {
          return harness(format!(
            "tuple pattern of size {} against {} with {} fields",
            tp.elements.len(),
            o.meta.name,
            o.fields.len()
          ));
        }
        for (el, fv) in tp.elements.iter().zip(o.fields.iter()) {
          if !self.match_pattern(&el.pattern, fv, env)? {
            return Ok(false);
          }
        }
        Ok(true)
      }
      Pat::Object { elements, .. } => {
        let Value::Struct(o) = v else {
          return harness(format!("struct pattern against non-struct value {}", v.render()));
        };
        let prog = self.prog;
        let info = &prog.classes[o.meta.id as usize];
        let ClassKind::Struct { fields } = &info.kind else {
          return harness("struct pattern against a non-struct class");
        };
        for el in elements {
          // fields are matched by NAME (spec 8.5)
          let Some(idx) = fields.iter().position(|f| *f == el.field_name.name) else {
            return harness(format!(
              "class {} has no field {}",
              info.meta.name,
              self.name(el.field_name.name)
            ));
          };
          if !self.match_pattern(&el.pattern, &o.fields[idx], env)? {
            return Ok(false);
          }
        }
        Ok(true)
      }
      Pat::Variant(vp) => {
        let Value::Variant(o) = v else {
          return harness(format!("variant pattern against non-enum value {}", v.render()));
        };
        let prog = self.prog;
        let info = &prog.classes[o.meta.id as usize];
        let ClassKind::Enum { variants } = &info.kind else {
          return harness("variant pattern against a non-enum class");
        };
        let Some((tag_name, _)) = variants.get(o.tag as usize) else {
          return harness("variant tag out of range");
        };
        if !variants.iter().any(|(n, _)| *n == vp.tag.name) {
          return harness(format!(
            "class {} has no variant {}",
            info.meta.name,
            self.name(vp.tag.name)
          ));
        }
        if *tag_name != vp.tag.name {
          return Ok(false);
        }
        if let Some(data) = &vp.data_variables {
          if data.elements.len() != o.fields.len() {
            return harness(format!(
              "variant pattern {}: {} sub-patterns for {} payload values",
              self.name(vp.tag.name),
              data.elements.len(),
              o.fields.len()
            ));
          }
          for (el, fv) in data.elements.iter().zip(o.fields.iter()) {
            if !self.match_pattern(&el.pattern, fv, env)? {
              return Ok(false);
            }
          }
        }
        Ok(true)
      }
      Pat::Or { patterns, .. } => {
        // first matching alternative determines the bindings (spec 8.9)
        let mark = env.len();
        for alt in patterns {
          if self.match_pattern(alt, v, env)? {
            return Ok(true);
          }
          env.truncate(mark);
        }
        Ok(false)
      }
    }
  }

  // ---- expressions -----------------------------------------------------------------------------

  fn lookup(&self, env: &Env, name: PStr) -> R<Value> {
    for (n, v) in env.iter().rev() {
      if *n == name {
        return Ok(v.clone());
      }
    }
    harness(format!("unbound variable {}", self.name(name)))
  }

  fn eval_args(&mut self, list: &'a expr::ParenthesizedExpressionList<T>, env: &mut Env) -> R<Vec<Value>> {
    let mut out = Vec::with_capacity(list.expressions.len());
    for a in &list.expressions {
      out.push(self.eval(a, env, None)?);
    }
    Ok(out)
  }

  /// `tail`: Some(f) iff `e` is in tail position of the class member `f` being executed
  fn eval(&mut self, e: &'a E, env: &mut Env, tail: Option<usize>) -> R<Value> {
    self.stats.steps += 1;
    if self.stats.steps > self.limits.max_steps {
      return end(Ending::StepLimit);
    }
    match e {
      E::Literal(_, Literal::Int(i)) => Ok(Value::Int(*i)),
      E::Literal(_, Literal::Bool(b)) => Ok(Value::Bool(*b)),
      E::Literal(_, lit) => self.eval_literal(lit),
      E::LocalId(_, id) => self.lookup(env, id.name),
      E::ClassId(_, _, id) => harness(format!(
        "unsupported: class reference {} used as a value",
        self.name(id.name)
      )),
      E::Tuple(_, list) => self.eval_tuple(list, env),
      E::FieldAccess(fa) => self.eval_field_access(fa, env),
      E::MethodAccess(ma) => self.eval_method_access(ma, env),
      E::Unary(u) => self.eval_unary(u, env),
      E::Call(c) => self.eval_call(c, env, tail),
      E::Binary(b) => self.eval_binary(b, env, tail),
      E::IfElse(ie) => self.eval_if_else(ie, env, tail),
      E::Match(m) => self.eval_match(m, env, tail),
      E::Lambda(l) => Ok(Value::Closure(Rc::new(Closure {
        // lambdas capture their lexical environment; all bindings are immutable, so capturing
        // the values is the same as capturing the variables
        kind: CloKind::Lambda { lam: l as *const _, env: env.clone() },
      }))),
      E::Block(b) => self.eval_block(b, env, tail),
    }
  }

  #[inline(never)]
  fn eval_literal(&mut self, lit: &Literal) -> R<Value> {
    match lit {
      Literal::Bool(b) => Ok(Value::Bool(*b)),
      Literal::Int(i) => Ok(Value::Int(*i)),
      Literal::String(p) => {
        if let Some(s) = self.literal_cache.get(p) {
          let s = s.clone();
          // keep the statistics exact even on cache hits
          let raw = p.as_str(self.heap);
          if raw.contains('\\') {
            self.stats.escape_literals += 1;
          }
          if raw.contains('"') {
            self.stats.quote_literals += 1;
          }
          return Ok(Value::Str(s));
        }
        let raw = p.as_str(self.heap);
        if raw.contains('\\') {
          self.stats.escape_literals += 1;
        }
        if raw.contains('"') {
          self.stats.quote_literals += 1;
        }
        let s: Rc<str> = Rc::from(unescape_literal(raw));
        self.literal_cache.insert(*p, s.clone());
        Ok(Value::Str(s))
      }
    }
  }

  #[inline(never)]
  fn eval_tuple(&mut self, list: &'a expr::ParenthesizedExpressionList<T>, env: &mut Env) -> R<Value> {
    let n = list.expressions.len();
    let class_name = match n {
      2 => PStr::PAIR,
      3 => PStr::TRIPLE,
      4 => PStr::TUPLE_4,
      5 => PStr::TUPLE_5,
      6 => PStr::TUPLE_6,
      7 => PStr::TUPLE_7,
      8 => PStr::TUPLE_8,
      9 => PStr::TUPLE_9,
      10 => PStr::TUPLE_10,
      11 => PStr::TUPLE_11,
      12 => PStr::TUPLE_12,
      13 => PStr::TUPLE_13,
      14 => PStr::TUPLE_14,
      15 => PStr::TUPLE_15,
      16 => PStr::TUPLE_16,
      _ => return harness(format!("unsupported: tuple of size {n}")),
    };
    let Some(&ci) = self.prog.class_index.get(&(ModuleReference::STD_TUPLES, class_name)) else {
      return harness(format!(
        "unsupported: std.tuples.{} is not among the checked sources",
        self.name(class_name)
      ));
    };
    let fields = self.eval_args(list, env)?;
    self.construct(ci, None, fields)
  }

  #[inline(never)]
  fn eval_field_access(&mut self, fa: &'a expr::FieldAccess<T>, env: &mut Env) -> R<Value> {
    let obj = self.eval(&fa.object, env, None)?;
    let Value::Struct(o) = &obj else {
      return harness(format!(
        "field {} of a non-struct value {}",
        self.name(fa.field_name.name),
        obj.render()
      ));
    };
    let prog = self.prog;
    let info = &prog.classes[o.meta.id as usize];
    let ClassKind::Struct { fields } = &info.kind else {
      return harness("field access on a non-struct class");
    };
    match fields.iter().position(|f| *f == fa.field_name.name) {
      Some(i) => Ok(o.fields[i].clone()),
      None => harness(format!(
        "class {} has no field {}",
        info.meta.name,
        self.name(fa.field_name.name)
      )),
    }
  }

  /// `Class.function` / `obj.method` used as a value
  #[inline(never)]
  fn eval_method_access(&mut self, ma: &'a expr::MethodAccess<T>, env: &mut Env) -> R<Value> {
    let member = ma.method_name.name;
    if let E::ClassId(_, module, class) = &*ma.object {
      let callable = self.resolve_static(*module, class.name, member)?;
      let label = format!("{}.{}", self.name(class.name), self.name(member));
      return Ok(Value::Closure(Rc::new(Closure {
        kind: CloKind::Member { callable, recv: None, label },
      })));
    }
    let recv = self.eval(&ma.object, env, None)?;
    let callable = self.resolve_method(&recv, member)?;
    let label = format!("_.{}", self.name(member));
    Ok(Value::Closure(Rc::new(Closure {
      kind: CloKind::Member { callable, recv: Some(recv), label },
    })))
  }

  #[inline(never)]
  fn eval_unary(&mut self, u: &'a expr::Unary<T>, env: &mut Env) -> R<Value> {
    let v = self.eval(&u.argument, env, None)?;
    match (u.operator, v) {
      (expr::UnaryOperator::NOT, Value::Bool(b)) => Ok(Value::Bool(!b)),
      (expr::UnaryOperator::NEG, Value::Int(i)) => {
        if i == i32::MIN {
          self.ub.overflow = true;
        }
        Ok(Value::Int(i.wrapping_neg()))
      }
      (op, v) => harness(format!("unary {} applied to {}", op.kind_str(), v.render())),
    }
  }

  #[inline(never)]
  fn eval_call(&mut self, c: &'a expr::Call<T>, env: &mut Env, tail: Option<usize>) -> R<Value> {
    // Evaluation order: callee first, then the arguments left to right.  (Spec 6.7.5 / 6.15 say
    // the callee is evaluated after the arguments; the implementation and its e2e snapshot
    // evaluate it first.  The harness follows the implementation here by decision.)
    match &*c.callee {
      E::MethodAccess(ma) => {
        let member = ma.method_name.name;
        if let E::ClassId(_, module, class) = &*ma.object {
          // static function / constructor / builtin
          self.stats.steps += 1;
          let site = ma as *const expr::MethodAccess<T> as usize;
          let callable = match self.static_site_cache.get(&site) {
            Some(c) => *c,
            None => {
              let c = self.resolve_static(*module, class.name, member)?;
              self.static_site_cache.insert(site, c);
              c
            }
          };
          let args = self.eval_args(&c.arguments, env)?;
          self.invoke(callable, None, args, tail)
        } else {
          // method call: receiver, then arguments; dispatch on the run-time class of the receiver
          self.stats.steps += 1;
          let recv = self.eval(&ma.object, env, None)?;
          let args = self.eval_args(&c.arguments, env)?;
          let callable = self.resolve_method(&recv, member)?;
          self.invoke(callable, Some(recv), args, tail)
        }
      }
      callee => {
        let f = self.eval(callee, env, None)?;
        let args = self.eval_args(&c.arguments, env)?;
        self.call_closure(f, args)
      }
    }
  }

  fn arith_trap<V>(&mut self) -> R<V> {
    self.ub.div_zero = true;
    end(Ending::ArithTrap("div by zero".to_string()))
  }

  #[inline(never)]
  fn eval_binary(&mut self, b: &'a expr::Binary<T>, env: &mut Env, tail: Option<usize>) -> R<Value> {
    use expr::BinaryOperator as Op;
    // short-circuit operators: the right operand is evaluated only if needed, and its value is
    // then the value of the whole expression
    match b.operator {
      Op::AND => {
        return match self.eval(&b.e1, env, None)? {
          Value::Bool(false) => Ok(Value::Bool(false)),
          Value::Bool(true) => self.eval(&b.e2, env, tail),
          v => harness(format!("&& applied to {}", v.render())),
        };
      }
      Op::OR => {
        return match self.eval(&b.e1, env, None)? {
          Value::Bool(true) => Ok(Value::Bool(true)),
          Value::Bool(false) => self.eval(&b.e2, env, tail),
          v => harness(format!("|| applied to {}", v.render())),
        };
      }
      _ => {}
    }
    let l = self.eval(&b.e1, env, None)?;
    let r = self.eval(&b.e2, env, None)?;
    match (l, r) {
      (Value::Int(x), Value::Int(y)) => Ok(match b.operator {
        Op::PLUS => {
          let (v, o) = x.overflowing_add(y);
          self.ub.overflow |= o;
          Value::Int(v)
        }
        Op::MINUS => {
          let (v, o) = x.overflowing_sub(y);
          self.ub.overflow |= o;
          Value::Int(v)
        }
        Op::MUL => {
          let (v, o) = x.overflowing_mul(y);
          self.ub.overflow |= o;
          Value::Int(v)
        }
        Op::DIV => {
          if y == 0 || (x == i32::MIN && y == -1) {
            return self.arith_trap();
          }
          // truncates toward zero
          Value::Int(x.wrapping_div(y))
        }
        Op::MOD => {
          if y == 0 || (x == i32::MIN && y == -1) {
            return self.arith_trap();
          }
          // sign of the dividend
          Value::Int(x.wrapping_rem(y))
        }
        Op::LT => Value::Bool(x < y),
        Op::LE => Value::Bool(x <= y),
        Op::GT => Value::Bool(x > y),
        Op::GE => Value::Bool(x >= y),
        Op::EQ => Value::Bool(x == y),
        Op::NE => Value::Bool(x != y),
        Op::AND | Op::OR | Op::CONCAT => {
          return self.binary_general(b.operator, Value::Int(x), Value::Int(y));
        }
      }),
      (l, r) => self.binary_general(b.operator, l, r),
    }
  }

  /// `==`, `!=`, `::` and the error cases (operands are not both int)
  #[inline(never)]
  fn binary_general(&mut self, op: expr::BinaryOperator, l: Value, r: Value) -> R<Value> {
    use expr::BinaryOperator as Op;
    match op {
      Op::EQ | Op::NE => {
        let eq = match l.primitive_eq(&r) {
          Some(eq) => eq,
          None => {
            if !self.object_identity_eq {
              return end(Ending::Harness("== on non-primitive".to_string()));
            }
            let (same, ambiguous) = l.identity_eq(&r);
            self.stats.object_eq += 1;
            self.stats.ambiguous_object_eq += ambiguous as u64;
            same
          }
        };
        Ok(Value::Bool(if op == Op::EQ { eq } else { !eq }))
      }
      Op::CONCAT => match (&l, &r) {
        (Value::Str(a), Value::Str(c)) => {
          let mut s = String::with_capacity(a.len() + c.len());
          s.push_str(a);
          s.push_str(c);
          Ok(Value::Str(Rc::from(s)))
        }
        _ => harness(format!(":: applied to {} and {}", l.render(), r.render())),
      },
      op => harness(format!("{} applied to {} and {}", op.kind_str(), l.render(), r.render())),
    }
  }

  #[inline(never)]
  fn eval_if_else(&mut self, ie: &'a expr::IfElse<T>, env: &mut Env, tail: Option<usize>) -> R<Value> {
    let mark = env.len();
    let taken = match &*ie.condition {
      expr::IfElseCondition::Expression(c) => match self.eval(c, env, None)? {
        Value::Bool(b) => b,
        v => return harness(format!("if condition is {}", v.render())),
      },
      expr::IfElseCondition::Guard(p, e) => {
        let v = self.eval(e, env, None)?;
        let m = self.match_pattern(p, &v, env)?;
        if !m {
          env.truncate(mark);
        }
        m
      }
    };
    let r = if taken {
      // pattern bindings (if any) are in scope of the first branch only
      self.eval_block(&ie.e1, env, tail)
    } else {
      match &*ie.e2 {
        expr::IfElseOrBlock::IfElse(inner) => {
          self.stats.steps += 1;
          self.eval_if_else(inner, env, tail)
        }
        expr::IfElseOrBlock::Block(b) => self.eval_block(b, env, tail),
      }
    };
    env.truncate(mark);
    r
  }

  #[inline(never)]
  fn eval_match(&mut self, m: &'a expr::Match<T>, env: &mut Env, tail: Option<usize>) -> R<Value> {
    self.stats.matches += 1;
    let v = self.eval(&m.matched, env, None)?;
    let mark = env.len();
    // arms are tried in order, the first matching arm is selected
    for case in &m.cases {
      if self.match_pattern(&case.pattern, &v, env)? {
        let r = self.eval(&case.body, env, tail);
        env.truncate(mark);
        return r;
      }
      env.truncate(mark);
    }
    end(Ending::NoArmMatched)
  }

  #[inline(never)]
  fn eval_block(&mut self, b: &'a expr::Block<T>, env: &mut Env, tail: Option<usize>) -> R<Value> {
    let mark = env.len();
    for s in &b.statements {
      match s {
        expr::Statement::Declaration(d) => {
          let v = self.eval(&d.assigned_expression, env, None)?;
          // bindings are pushed after the right-hand side is evaluated: `let x = x + 1` reads the
          // previous x; later lookups find the newest binding (shadowing)
          let m = env.len();
          if !self.match_pattern(&d.pattern, &v, env)? {
            env.truncate(m);
            return end(Ending::NoArmMatched);
          }
        }
        expr::Statement::Expression(e) => {
          self.eval(e, env, None)?;
        }
      }
    }
    let r = match &b.expression {
      Some(e) => self.eval(e, env, tail),
      None => Ok(Value::Unit),
    };
    env.truncate(mark);
    r
  }
}

// ------------------------------------------------------------------------------------------------
// driver
// ------------------------------------------------------------------------------------------------

/// Moves non-`Send` data (Rc based values, plain references) to the interpreter thread and back.
/// SAFETY argument: the spawning thread blocks in `join` for the whole life of the interpreter
/// thread, so there is never concurrent access; spawn/join give the happens-before edges.
struct AssertSend<V>(V);
unsafe impl<V> Send for AssertSend<V> {}
impl<V> AssertSend<V> {
  fn into_inner(self) -> V {
    self.0
  }
}

enum Entry<'s> {
  Main(ModuleReference),
  Function { module: ModuleReference, class: &'s str, function: &'s str, args: Vec<Value> },
}

#[derive(Clone, Copy, Debug)]
pub struct Options {
  /// `==` / `!=` on class instances, functions and Vec.  The corpus (std.map, used by
  /// tests.AllTests) relies on it as a physical-equality shortcut, so by default it is
  /// implemented as reference identity (see the module documentation) and counted in
  /// `RefStats::{object_eq, ambiguous_object_eq}`.  With `false` such a comparison ends the run
  /// with `Ending::Harness("== on non-primitive")`.
  pub object_identity_eq: bool,
}

impl Default for Options {
  fn default() -> Options {
    Options { object_identity_eq: true }
  }
}

const STACK_SIZES: [usize; 5] = [2 << 30, 1 << 30, 512 << 20, 256 << 20, 64 << 20];

fn run_entry(
  heap: &Heap,
  checked: &HashMap<ModuleReference, Module<T>>,
  entry: Entry<'_>,
  limits: &Limits,
  options: Options,
) -> (Trace, Option<Value>, RefStats) {
  let limits = *limits;
  let mut payload = Some(AssertSend((heap, checked, entry)));
  let mut last_error = String::new();
  for stack_size in STACK_SIZES {
    // if spawning fails the closure never runs and the payload is still in `payload`
    let outcome = std::thread::scope(|scope| {
      let slot = &mut payload;
      let builder =
        std::thread::Builder::new().name("refint".to_string()).stack_size(stack_size);
      let spawned = builder.spawn_scoped(scope, move || {
        let (heap, checked, entry) = slot.take().expect("payload").into_inner();
        AssertSend(interpret(heap, checked, entry, limits, options, stack_size))
      });
      match spawned {
        Ok(handle) => Ok(handle.join().map(|r| r.into_inner())),
        Err(e) => Err(e.to_string()),
      }
    });
    match outcome {
      Ok(Ok(result)) => return result,
      Ok(Err(panic)) => {
        let msg = if let Some(s) = panic.downcast_ref::<&str>() {
          s.to_string()
        } else if let Some(s) = panic.downcast_ref::<String>() {
          s.clone()
        } else {
          "unknown panic".to_string()
        };
        return (
          Trace::harness(format!("reference interpreter panicked: {msg}")),
          None,
          RefStats::default(),
        );
      }
      Err(msg) => {
        last_error = msg;
        if payload.is_none() {
          break;
        }
      }
    }
  }
  (
    Trace::harness(format!("cannot spawn interpreter thread: {last_error}")),
    None,
    RefStats::default(),
  )
}

fn interpret(
  heap: &Heap,
  checked: &HashMap<ModuleReference, Module<T>>,
  entry: Entry<'_>,
  limits: Limits,
  options: Options,
  stack_size: usize,
) -> (Trace, Option<Value>, RefStats) {
  let prog = Program::build(heap, checked);
  let mut interp = Interp {
    heap,
    prog: &prog,
    limits,
    lines: Vec::new(),
    ub: UbFlags::default(),
    stats: RefStats::default(),
    depth: 0,
    literal_cache: FastMap::default(),
    static_site_cache: FastMap::default(),
    pending_tail: None,
    frames: Vec::new(),
    object_identity_eq: options.object_identity_eq,
    stack_base: stack_pointer_estimate(),
    stack_budget: stack_size - stack_size / 16,
  };
  let outcome: R<Value> = (|| {
    let (module, class_name, fn_name, args) = match entry {
      Entry::Main(m) => (m, "Main".to_string(), "main".to_string(), Vec::new()),
      Entry::Function { module, class, function, args } => {
        (module, class.to_string(), function.to_string(), args)
      }
    };
    for a in &args {
      if !matches!(a, Value::Unit | Value::Int(_) | Value::Bool(_) | Value::Str(_)) {
        return harness("run_function: only unit/int/bool/Str arguments are supported");
      }
    }
    if !checked.contains_key(&module) {
      return harness(format!("module {} is not among the checked sources", module.pretty_print(heap)));
    }
    let Some(ci) = prog.classes.iter().enumerate().position(|(i, c)| {
      c.meta.name == class_name && prog.class_index.get(&(module, c.name)) == Some(&i)
    }) else {
      return harness(format!("no class {class_name} in module {}", module.pretty_print(heap)));
    };
    let Some((_, &fi)) = prog.classes[ci]
      .functions
      .iter()
      .find(|(n, _)| n.as_str(heap) == fn_name)
    else {
      return harness(format!("no function {class_name}.{fn_name}"));
    };
    interp.call_fn(fi, None, args)
  })();
  let (ending, value) = match outcome {
    Ok(v) => (Ending::Return, Some(v)),
    Err(Ctl::End(e)) => (*e, None),
    Err(Ctl::TailCall) => (Ending::Harness("tail call escaped to top level".into()), None),
  };
  let stats = std::mem::take(&mut interp.stats);
  let lines = std::mem::take(&mut interp.lines);
  let ub = interp.ub.clone();
  drop(interp);
  let trace = Trace { lines, ending, ub, steps: stats.steps };
  (trace, value, stats)
}

/// run `Main.main()` of `entry_module`
pub fn run(
  heap: &Heap,
  checked: &HashMap<ModuleReference, Module<Arc<Type>>>,
  entry_module: ModuleReference,
  limits: &Limits,
) -> (Trace, RefStats) {
  run_with_options(heap, checked, entry_module, limits, Options::default())
}

/// `run` with explicit [`Options`]
pub fn run_with_options(
  heap: &Heap,
  checked: &HashMap<ModuleReference, Module<Arc<Type>>>,
  entry_module: ModuleReference,
  limits: &Limits,
  options: Options,
) -> (Trace, RefStats) {
  let (t, _, s) = run_entry(heap, checked, Entry::Main(entry_module), limits, options);
  (t, s)
}

/// call an arbitrary static function `class.function(args)` of `module`; the value is returned
/// when the run ends with `Ending::Return`.  Only unit/int/bool/Str arguments are accepted.
pub fn run_function(
  heap: &Heap,
  checked: &HashMap<ModuleReference, Module<Arc<Type>>>,
  module: ModuleReference,
  class: &str,
  function: &str,
  args: Vec<Value>,
  limits: &Limits,
) -> (Trace, Option<Value>, RefStats) {
  run_entry(
    heap,
    checked,
    Entry::Function { module, class, function, args },
    limits,
    Options::default(),
  )
}
