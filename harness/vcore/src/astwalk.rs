//! One generic walker over `samlang_ast::source::Module<T>` that produces a plain tree
//! (kind, attribute text, optional location, children in source order). It is the base of
//!  * the canonical dump used by C08/C16 (tree without locations and comments),
//!  * the location checks of C14 (containment, sibling order, names slice their text),
//!  * the identifier/literal yield used by C05's "silent recovery" oracle.
use samlang_ast::Location;
use samlang_ast::source::*;
use samlang_heap::{Heap, ModuleReference, PStr};

#[derive(Clone, Debug)]
pub struct Node {
  pub kind: &'static str,
  /// semantic payload: name, operator, literal value, flags
  pub attr: String,
  pub loc: Option<Location>,
  /// the location must slice exactly `attr` out of the source text
  pub is_name: bool,
  /// lexical class for token-yield comparison: "id", "int", "str", "" (none)
  pub tok: &'static str,
  pub children: Vec<Node>,
}

impl Node {
  fn new(kind: &'static str, attr: impl Into<String>, loc: Option<Location>) -> Node {
    Node { kind, attr: attr.into(), loc, is_name: false, tok: "", children: vec![] }
  }
  fn with(mut self, c: Vec<Node>) -> Node {
    self.children = c;
    self
  }
  fn push(&mut self, n: Node) {
    self.children.push(n);
  }
}

pub struct Walker<'a> {
  pub heap: &'a Heap,
  /// leave out which module a class name resolves to (for comparing an expression with its
  /// standalone reparse, where the imports of the surrounding module are not known)
  pub unresolved: bool,
}

fn s(heap: &Heap, p: PStr) -> String {
  p.as_str(heap).to_string()
}

impl<'a> Walker<'a> {
  pub fn new(heap: &'a Heap) -> Walker<'a> {
    Walker { heap, unresolved: false }
  }

  pub fn new_unresolved(heap: &'a Heap) -> Walker<'a> {
    Walker { heap, unresolved: true }
  }

  fn id(&self, kind: &'static str, id: &Id) -> Node {
    let mut n = Node::new(kind, s(self.heap, id.name), Some(id.loc));
    n.is_name = true;
    n.tok = "id";
    n
  }

  fn modref(&self, m: ModuleReference) -> String {
    if self.unresolved { String::new() } else { m.pretty_print(self.heap) }
  }

  pub fn module<T: Clone>(&self, m: &Module<T>) -> Node {
    let mut root = Node::new("module", "", None);
    for imp in &m.imports {
      let mut n = Node::new("import", self.modref(imp.imported_module), Some(imp.loc));
      for id in &imp.imported_members {
        n.push(self.id("import_member", id));
      }
      let mut mp = Node::new("import_module", self.modref(imp.imported_module), Some(imp.imported_module_loc));
      for part in imp.imported_module.get_parts(self.heap) {
        let mut p = Node::new("import_module_part", s(self.heap, *part), None);
        p.tok = "id";
        mp.push(p);
      }
      n.push(mp);
      root.push(n);
    }
    for t in &m.toplevels {
      root.push(self.toplevel(t));
    }
    root
  }

  fn tparams(&self, tp: &Option<annotation::TypeParameters>) -> Option<Node> {
    tp.as_ref().map(|tp| {
      let mut n = Node::new("type_parameters", "", Some(tp.location));
      for p in &tp.parameters {
        let mut pn = Node::new("type_parameter", "", Some(p.loc));
        pn.push(self.id("type_parameter_name", &p.name));
        if let Some(b) = &p.bound {
          pn.push(Node::new("bound", "", None).with(vec![self.annot_id(b)]));
        }
        n.push(pn);
      }
      n
    })
  }

  fn targs(&self, ta: &annotation::TypeArguments) -> Node {
    let mut n = Node::new("type_arguments", "", Some(ta.location));
    for a in &ta.arguments {
      n.push(self.annot(a));
    }
    n
  }

  fn annot_id(&self, a: &annotation::Id) -> Node {
    let mut n = Node::new("annot_id", self.modref(a.module_reference), Some(a.location));
    n.push(self.id("annot_id_name", &a.id));
    if let Some(ta) = &a.type_arguments {
      n.push(self.targs(ta));
    }
    n
  }

  pub fn annot(&self, a: &annotation::T) -> Node {
    match a {
      annotation::T::Primitive(l, _, k) => Node::new("annot_primitive", k.kind_str(), Some(*l)),
      annotation::T::Id(i) => self.annot_id(i),
      // whether a bare name is a type parameter depends on the enclosing declaration, which a
      // standalone reparse of an expression does not know either
      annotation::T::Generic(l, id) if self.unresolved => Node::new("annot_id", "", Some(*l)).with(vec![self.id("annot_id_name", id)]),
      annotation::T::Generic(l, id) => Node::new("annot_generic", "", Some(*l)).with(vec![self.id("annot_generic_name", id)]),
      annotation::T::Fn(f) => {
        let mut ps = Node::new("annot_fn_params", "", Some(f.parameters.location));
        for p in &f.parameters.annotations {
          ps.push(self.annot(p));
        }
        Node::new("annot_fn", "", Some(f.location)).with(vec![ps, self.annot(&f.return_type)])
      }
    }
  }

  fn member_decl(&self, d: &ClassMemberDeclaration) -> Vec<Node> {
    let mut v = vec![self.id("member_name", &d.name)];
    if let Some(tp) = self.tparams(&d.type_parameters) {
      v.push(tp);
    }
    let mut ps = Node::new("parameters", "", Some(d.parameters.location));
    for p in d.parameters.parameters.iter() {
      ps.push(Node::new("parameter", "", None).with(vec![self.id("parameter_name", &p.name), self.annot(&p.annotation)]));
    }
    v.push(ps);
    v.push(Node::new("return_type", "", None).with(vec![self.annot(&d.return_type)]));
    v
  }

  fn decl_attr(d: &ClassMemberDeclaration) -> String {
    format!("{}{}", if d.is_public { "public " } else { "private " }, if d.is_method { "method" } else { "function" })
  }

  pub fn toplevel<T: Clone>(&self, t: &Toplevel<T>) -> Node {
    let kind = if t.is_class() { "class" } else { "interface" };
    let mut n = Node::new(kind, if t.is_private() { "private" } else { "public" }, Some(t.loc()));
    n.push(self.id("toplevel_name", t.name()));
    if let Some(tp) = self.tparams(&t.type_parameters().cloned()) {
      n.push(tp);
    }
    // the type definition comes before the extends/implements list in the source
    if let Some(td) = t.type_definition() {
      match td {
        TypeDefinition::Struct { loc, fields, .. } => {
          let mut d = Node::new("struct_definition", "", Some(*loc));
          for f in fields {
            d.push(Node::new("field", if f.is_public { "public" } else { "private" }, None).with(vec![self.id("field_name", &f.name), self.annot(&f.annotation)]));
          }
          n.push(d);
        }
        TypeDefinition::Enum { loc, variants, .. } => {
          let mut d = Node::new("enum_definition", "", Some(*loc));
          for v in variants {
            let mut vn = Node::new("variant", "", None);
            vn.push(self.id("variant_name", &v.name));
            if let Some(a) = &v.associated_data_types {
              let mut an = Node::new("variant_data", "", Some(a.location));
              for t in &a.annotations {
                an.push(self.annot(t));
              }
              vn.push(an);
            }
            d.push(vn);
          }
          n.push(d);
        }
      }
    }
    if let Some(e) = t.extends_or_implements_nodes() {
      let mut en = Node::new("supertypes", "", Some(e.location));
      for i in &e.nodes {
        en.push(self.annot_id(i));
      }
      n.push(en);
    }
    match t {
      Toplevel::Interface(i) => {
        let mut ms = Node::new("members", "", Some(i.members.loc));
        for m in &i.members.members {
          ms.push(Node::new("member_declaration", Self::decl_attr(m), Some(m.loc)).with(self.member_decl(m)));
        }
        n.push(ms);
      }
      Toplevel::Class(c) => {
        let mut ms = Node::new("members", "", Some(c.members.loc));
        for m in &c.members.members {
          let mut mn = Node::new("member_definition", Self::decl_attr(&m.decl), Some(m.decl.loc)).with(self.member_decl(&m.decl));
          mn.push(Node::new("body", "", None).with(vec![self.expr(&m.body)]));
          ms.push(mn);
        }
        n.push(ms);
      }
    }
    n
  }

  pub fn pattern<T: Clone>(&self, p: &pattern::MatchingPattern<T>) -> Node {
    use pattern::MatchingPattern as P;
    match p {
      P::Tuple(t) => self.tuple_pattern("pattern_tuple", t),
      P::Object { location, elements, .. } => {
        let mut n = Node::new("pattern_object", "", Some(*location));
        for e in elements {
          let mut en = Node::new("pattern_field", if e.shorthand { "shorthand" } else { "as" }, Some(e.loc));
          en.push(self.id("pattern_field_name", &e.field_name));
          if !e.shorthand {
            en.push(self.pattern(&e.pattern));
          }
          n.push(en);
        }
        n
      }
      P::Variant(v) => {
        let mut n = Node::new("pattern_variant", "", Some(v.loc));
        n.push(self.id("pattern_tag", &v.tag));
        if let Some(d) = &v.data_variables {
          n.push(self.tuple_pattern("pattern_variant_data", d));
        }
        n
      }
      P::Id(id, _) => self.id("pattern_id", id),
      P::Wildcard { location, .. } => Node::new("pattern_wildcard", "_", Some(*location)),
      P::Or { location, patterns } => {
        let mut n = Node::new("pattern_or", "", Some(*location));
        for p in patterns {
          n.push(self.pattern(p));
        }
        n
      }
    }
  }

  fn tuple_pattern<T: Clone>(&self, kind: &'static str, t: &pattern::TuplePattern<T>) -> Node {
    let mut n = Node::new(kind, "", Some(t.location));
    for e in &t.elements {
      n.push(self.pattern(&e.pattern));
    }
    n
  }

  fn block<T: Clone>(&self, b: &expr::Block<T>) -> Node {
    let mut n = Node::new("block", "", Some(b.common.loc));
    for st in &b.statements {
      match st {
        expr::Statement::Declaration(d) => {
          let mut dn = Node::new("let", "", Some(d.loc));
          dn.push(self.pattern(&d.pattern));
          if let Some(a) = &d.annotation {
            dn.push(Node::new("let_annotation", "", None).with(vec![self.annot(a)]));
          }
          dn.push(Node::new("let_value", "", None).with(vec![self.expr(&d.assigned_expression)]));
          n.push(dn);
        }
        expr::Statement::Expression(e) => {
          n.push(Node::new("expression_statement", "", None).with(vec![self.expr(e)]));
        }
      }
    }
    if let Some(e) = &b.expression {
      n.push(Node::new("block_value", "", None).with(vec![self.expr(e)]));
    }
    n
  }

  fn if_else<T: Clone>(&self, i: &expr::IfElse<T>) -> Node {
    let mut n = Node::new("if", "", Some(i.common.loc));
    match i.condition.as_ref() {
      expr::IfElseCondition::Expression(e) => n.push(Node::new("condition", "", None).with(vec![self.expr(e)])),
      expr::IfElseCondition::Guard(p, e) => n.push(Node::new("guard", "", None).with(vec![self.pattern(p), self.expr(e)])),
    }
    n.push(Node::new("then", "", None).with(vec![self.block(&i.e1)]));
    match i.e2.as_ref() {
      expr::IfElseOrBlock::IfElse(ie) => n.push(Node::new("else", "", None).with(vec![self.if_else(ie)])),
      expr::IfElseOrBlock::Block(b) => n.push(Node::new("else", "", None).with(vec![self.block(b)])),
    }
    n
  }

  pub fn expr<T: Clone>(&self, e: &expr::E<T>) -> Node {
    use expr::E;
    let loc = Some(e.loc());
    match e {
      E::Literal(_, l) => {
        let (attr, tok) = match l {
          Literal::Bool(b) => (b.to_string(), ""),
          Literal::Int(i) => (i.to_string(), "int"),
          Literal::String(p) => (s(self.heap, *p), "str"),
        };
        let mut n = Node::new(match l { Literal::Bool(_) => "bool_literal", Literal::Int(_) => "int_literal", Literal::String(_) => "string_literal" }, attr, loc);
        n.tok = tok;
        n
      }
      E::LocalId(_, id) => Node::new("local", "", loc).with(vec![self.id("local_name", id)]),
      E::ClassId(_, m, id) => Node::new("class_ref", self.modref(*m), loc).with(vec![self.id("class_ref_name", id)]),
      E::Tuple(_, l) => {
        let mut n = Node::new("tuple", "", loc);
        for x in &l.expressions {
          n.push(self.expr(x));
        }
        n
      }
      E::FieldAccess(f) => {
        let mut n = Node::new("member_access", "", loc);
        n.push(self.expr(&f.object));
        n.push(self.id("accessed_name", &f.field_name));
        if let Some(ta) = &f.explicit_type_arguments {
          n.push(self.targs(ta));
        }
        n
      }
      E::MethodAccess(f) => {
        // the parser only produces FieldAccess; the checker rewrites some into MethodAccess.
        // Both get the same kind so that canonical dumps of parsed and checked trees agree.
        let mut n = Node::new("member_access", "", loc);
        n.push(self.expr(&f.object));
        n.push(self.id("accessed_name", &f.method_name));
        if let Some(ta) = &f.explicit_type_arguments {
          n.push(self.targs(ta));
        }
        n
      }
      E::Unary(u) => Node::new("unary", u.operator.kind_str(), loc).with(vec![self.expr(&u.argument)]),
      E::Call(c) => {
        let mut args = Node::new("arguments", "", Some(c.arguments.loc));
        for a in &c.arguments.expressions {
          args.push(self.expr(a));
        }
        Node::new("call", "", loc).with(vec![self.expr(&c.callee), args])
      }
      E::Binary(b) => Node::new("binary", b.operator.kind_str(), loc).with(vec![self.expr(&b.e1), self.expr(&b.e2)]),
      E::IfElse(i) => self.if_else(i),
      E::Match(m) => {
        let mut n = Node::new("match", "", loc);
        n.push(Node::new("matched", "", None).with(vec![self.expr(&m.matched)]));
        for c in &m.cases {
          n.push(Node::new("arm", "", Some(c.loc)).with(vec![self.pattern(&c.pattern), self.expr(&c.body)]));
        }
        n
      }
      E::Lambda(l) => {
        let mut ps = Node::new("lambda_parameters", "", Some(l.parameters.loc));
        for p in &l.parameters.parameters {
          let mut pn = Node::new("lambda_parameter", "", None);
          pn.push(self.id("lambda_parameter_name", &p.name));
          if let Some(a) = &p.annotation {
            pn.push(self.annot(a));
          }
          ps.push(pn);
        }
        Node::new("lambda", "", loc).with(vec![ps, self.expr(&l.body)])
      }
      E::Block(b) => self.block(b),
    }
  }
}

/// Canonical, location-free, comment-free rendering. Imports are normalised to the sorted set of
/// (module, member) pairs (the documented merge-and-sort of import lines).
pub fn canon(root: &Node) -> String {
  let mut out = String::new();
  let mut imports: Vec<(String, String)> = Vec::new();
  for c in &root.children {
    if c.kind == "import" {
      for m in &c.children {
        if m.kind == "import_member" {
          imports.push((c.attr.clone(), m.attr.clone()));
        }
      }
    }
  }
  imports.sort();
  imports.dedup();
  for (m, n) in imports {
    out.push_str(&format!("(import {m} {n})\n"));
  }
  for c in &root.children {
    if c.kind != "import" {
      canon_node(c, 0, &mut out);
    }
  }
  out
}

/// canonical rendering of one subtree (expression, toplevel, ...)
pub fn canon_subtree(n: &Node) -> String {
  let mut out = String::new();
  canon_node(n, 0, &mut out);
  out
}

fn canon_node(n: &Node, depth: usize, out: &mut String) {
  for _ in 0..depth {
    out.push(' ');
  }
  out.push('(');
  out.push_str(n.kind);
  if !n.attr.is_empty() || n.tok == "str" {
    out.push(' ');
    out.push_str(&format!("{:?}", n.attr));
  }
  if n.children.is_empty() {
    out.push_str(")\n");
  } else {
    out.push('\n');
    for c in &n.children {
      canon_node(c, depth + 1, out);
    }
    for _ in 0..depth {
      out.push(' ');
    }
    out.push_str(")\n");
  }
}

/// (lexical class, text) of every identifier / int / string literal the tree holds
pub fn token_yield(root: &Node, out: &mut Vec<(&'static str, String)>) {
  if !root.tok.is_empty() {
    out.push((root.tok, root.attr.clone()));
  }
  for c in &root.children {
    token_yield(c, out);
  }
}

pub fn count_nodes(n: &Node) -> usize {
  1 + n.children.iter().map(count_nodes).sum::<usize>()
}

/// post-order visit of every expression node of a module (children before parents)
pub fn for_each_expr<'m, T: Clone>(m: &'m Module<T>, f: &mut dyn FnMut(&'m expr::E<T>)) {
  for t in &m.toplevels {
    if let Toplevel::Class(c) = t {
      for mem in &c.members.members {
        visit_expr(&mem.body, f);
      }
    }
  }
}

fn visit_block<'m, T: Clone>(b: &'m expr::Block<T>, f: &mut dyn FnMut(&'m expr::E<T>)) {
  for st in &b.statements {
    match st {
      expr::Statement::Declaration(d) => visit_expr(&d.assigned_expression, f),
      expr::Statement::Expression(e) => visit_expr(e, f),
    }
  }
  if let Some(e) = &b.expression {
    visit_expr(e, f);
  }
}

fn visit_if<'m, T: Clone>(i: &'m expr::IfElse<T>, f: &mut dyn FnMut(&'m expr::E<T>)) {
  match i.condition.as_ref() {
    expr::IfElseCondition::Expression(e) => visit_expr(e, f),
    expr::IfElseCondition::Guard(_, e) => visit_expr(e, f),
  }
  visit_block(&i.e1, f);
  match i.e2.as_ref() {
    expr::IfElseOrBlock::IfElse(ie) => visit_if(ie, f),
    expr::IfElseOrBlock::Block(b) => visit_block(b, f),
  }
}

pub fn visit_expr<'m, T: Clone>(e: &'m expr::E<T>, f: &mut dyn FnMut(&'m expr::E<T>)) {
  use expr::E;
  match e {
    E::Literal(..) | E::LocalId(..) | E::ClassId(..) => {}
    E::Tuple(_, l) => l.expressions.iter().for_each(|x| visit_expr(x, f)),
    E::FieldAccess(x) => visit_expr(&x.object, f),
    E::MethodAccess(x) => visit_expr(&x.object, f),
    E::Unary(u) => visit_expr(&u.argument, f),
    E::Call(c) => {
      visit_expr(&c.callee, f);
      c.arguments.expressions.iter().for_each(|x| visit_expr(x, f));
    }
    E::Binary(b) => {
      visit_expr(&b.e1, f);
      visit_expr(&b.e2, f);
    }
    E::IfElse(i) => visit_if(i, f),
    E::Match(m) => {
      visit_expr(&m.matched, f);
      m.cases.iter().for_each(|c| visit_expr(&c.body, f));
    }
    E::Lambda(l) => visit_expr(&l.body, f),
    E::Block(b) => visit_block(b, f),
  }
  f(e);
}

/// "kind" or "kind(op)" of an expression, atoms collapsed
pub fn expr_shape<T: Clone>(e: &expr::E<T>) -> String {
  use expr::E;
  match e {
    E::Literal(_, Literal::String(_)) => "string".into(),
    E::Literal(_, Literal::Int(i)) => if *i < 0 { "negint".into() } else { "atom".into() },
    E::Literal(..) | E::LocalId(..) | E::ClassId(..) => "atom".into(),
    E::Tuple(..) => "tuple".into(),
    E::FieldAccess(_) | E::MethodAccess(_) => "member_access".into(),
    E::Unary(u) => format!("unary({})", u.operator.kind_str()),
    E::Call(_) => "call".into(),
    E::Binary(b) => format!("binary({})", b.operator.kind_str()),
    E::IfElse(i) => if matches!(i.condition.as_ref(), expr::IfElseCondition::Guard(..)) { "iflet".into() } else { "if".into() },
    E::Match(_) => "match".into(),
    E::Lambda(_) => "lambda".into(),
    E::Block(_) => "block".into(),
  }
}

/// shapes of the direct sub-expressions in operand order
pub fn child_shapes<T: Clone>(e: &expr::E<T>) -> Vec<String> {
  use expr::E;
  match e {
    E::Literal(..) | E::LocalId(..) | E::ClassId(..) => vec![],
    E::Tuple(_, l) => l.expressions.iter().map(expr_shape).collect(),
    E::FieldAccess(x) => vec![expr_shape(&x.object)],
    E::MethodAccess(x) => vec![expr_shape(&x.object)],
    E::Unary(u) => vec![expr_shape(&u.argument)],
    E::Call(c) => std::iter::once(expr_shape(&c.callee)).chain(c.arguments.expressions.iter().map(expr_shape)).collect(),
    E::Binary(b) => vec![expr_shape(&b.e1), expr_shape(&b.e2)],
    E::IfElse(i) => {
      let mut v = vec![match i.condition.as_ref() {
        expr::IfElseCondition::Expression(e) => expr_shape(e),
        expr::IfElseCondition::Guard(_, e) => expr_shape(e),
      }];
      v.push("block".into());
      v.push(match i.e2.as_ref() { expr::IfElseOrBlock::IfElse(_) => "if".into(), _ => "block".into() });
      v
    }
    E::Match(m) => std::iter::once(expr_shape(&m.matched)).chain(m.cases.iter().map(|c| expr_shape(&c.body))).collect(),
    E::Lambda(l) => vec![expr_shape(&l.body)],
    E::Block(b) => {
      let mut v = vec![];
      for st in &b.statements {
        match st {
          expr::Statement::Declaration(d) => v.push(format!("let:{}", expr_shape(&d.assigned_expression))),
          expr::Statement::Expression(e) => v.push(format!("stmt:{}", expr_shape(e))),
        }
      }
      if let Some(e) = &b.expression {
        v.push(format!("value:{}", expr_shape(e)));
      }
      v
    }
  }
}
