//! Independent resolver of local-variable scoping over astwalk's tree, written from the
//! language's scoping rules (spec §6.12, §6.13, §7.1, §8): parameters scope over the member body,
//! `let` patterns over the rest of the block, match-arm patterns over the arm body, if-let
//! patterns over the then-block, lambda parameters over the lambda body. It is the ground truth
//! for C15 (definition / references / rename) and the rename rewrite of C13.
use crate::astwalk::Node;
use samlang_ast::Location;

#[derive(Clone, Debug)]
pub struct Binding {
  pub name: String,
  /// every defining occurrence (several for or-patterns: one per alternative)
  pub defs: Vec<Location>,
  pub kind: &'static str,
  pub uses: Vec<Location>,
  /// shorthand struct-pattern field (`{ a }`): the binder is also a field name
  pub shorthand: bool,
  pub member: String,
}

struct Cx {
  bindings: Vec<Binding>,
  /// stack of scopes: name -> binding index
  scopes: Vec<Vec<(String, usize)>>,
  member: String,
}

impl Cx {
  fn lookup(&self, name: &str) -> Option<usize> {
    for s in self.scopes.iter().rev() {
      if let Some((_, i)) = s.iter().rev().find(|(n, _)| n == name) {
        return Some(*i);
      }
    }
    None
  }
  fn bind(&mut self, name: &str, loc: Location, kind: &'static str, shorthand: bool) {
    // alternatives of an or-pattern bind the same name in the same scope: one binding
    if let Some((_, i)) = self.scopes.last().unwrap().iter().find(|(n, _)| n == name) {
      let i = *i;
      if self.bindings[i].kind == kind {
        self.bindings[i].defs.push(loc);
        return;
      }
    }
    let i = self.bindings.len();
    self.bindings.push(Binding { name: name.to_string(), defs: vec![loc], kind, uses: vec![], shorthand, member: self.member.clone() });
    self.scopes.last_mut().unwrap().push((name.to_string(), i));
  }
}

fn bind_pattern(p: &Node, kind: &'static str, cx: &mut Cx) {
  match p.kind {
    "pattern_id" => {
      if let Some(l) = p.loc {
        cx.bind(&p.attr, l, kind, false);
      }
    }
    "pattern_field" => {
      if p.attr == "shorthand" {
        if let Some(n) = p.children.iter().find(|c| c.kind == "pattern_field_name") {
          if let Some(l) = n.loc {
            cx.bind(&n.attr, l, kind, true);
          }
        }
      } else {
        for c in p.children.iter().filter(|c| c.kind != "pattern_field_name") {
          bind_pattern(c, kind, cx);
        }
      }
    }
    "pattern_tag" | "pattern_field_name" | "pattern_wildcard" => {}
    _ => {
      for c in &p.children {
        bind_pattern(c, kind, cx);
      }
    }
  }
}

fn expr(n: &Node, cx: &mut Cx) {
  match n.kind {
    "local" => {
      if let Some(nm) = n.children.first() {
        if nm.attr != "this" {
          if let (Some(i), Some(l)) = (cx.lookup(&nm.attr), nm.loc) {
            cx.bindings[i].uses.push(l);
          }
        }
      }
    }
    "block" => {
      cx.scopes.push(vec![]);
      for st in &n.children {
        match st.kind {
          "let" => {
            // the value is evaluated before the pattern's names come into scope
            if let Some(v) = st.children.iter().find(|c| c.kind == "let_value") {
              for c in &v.children {
                expr(c, cx);
              }
            }
            if let Some(p) = st.children.first() {
              bind_pattern(p, "let", cx);
            }
          }
          _ => {
            for c in &st.children {
              expr(c, cx);
            }
          }
        }
      }
      cx.scopes.pop();
    }
    "lambda" => {
      cx.scopes.push(vec![]);
      if let Some(ps) = n.children.first() {
        for p in &ps.children {
          if let Some(nm) = p.children.iter().find(|c| c.kind == "lambda_parameter_name") {
            if let Some(l) = nm.loc {
              cx.bind(&nm.attr, l, "lambda-parameter", false);
            }
          }
        }
      }
      for c in n.children.iter().skip(1) {
        expr(c, cx);
      }
      cx.scopes.pop();
    }
    "match" => {
      for c in &n.children {
        match c.kind {
          "matched" => {
            for x in &c.children {
              expr(x, cx);
            }
          }
          "arm" => {
            cx.scopes.push(vec![]);
            if let Some(p) = c.children.first() {
              bind_pattern(p, "match-arm-pattern", cx);
            }
            for x in c.children.iter().skip(1) {
              expr(x, cx);
            }
            cx.scopes.pop();
          }
          _ => {}
        }
      }
    }
    "if" => {
      let guard = n.children.iter().find(|c| c.kind == "guard");
      if let Some(g) = guard {
        // `if let P = e { then } else { else }`: P scopes over the then-block only
        if let Some(e) = g.children.get(1) {
          expr(e, cx);
        }
        cx.scopes.push(vec![]);
        if let Some(p) = g.children.first() {
          bind_pattern(p, "if-let-pattern", cx);
        }
        if let Some(t) = n.children.iter().find(|c| c.kind == "then") {
          for x in &t.children {
            expr(x, cx);
          }
        }
        cx.scopes.pop();
        if let Some(e) = n.children.iter().find(|c| c.kind == "else") {
          for x in &e.children {
            expr(x, cx);
          }
        }
      } else {
        for c in &n.children {
          for x in &c.children {
            expr(x, cx);
          }
        }
      }
    }
    // names that are not variable uses
    "accessed_name" | "class_ref_name" | "type_arguments" | "annot_id" | "annot_primitive" | "annot_generic" | "annot_fn" => {}
    _ => {
      for c in &n.children {
        expr(c, cx);
      }
    }
  }
}

/// all local bindings (parameters, let / match / if-let pattern variables, lambda parameters) of a module
pub fn resolve(module: &Node) -> Vec<Binding> {
  let mut cx = Cx { bindings: vec![], scopes: vec![], member: String::new() };
  for top in &module.children {
    if top.kind != "class" {
      continue;
    }
    let cname = top.children.iter().find(|c| c.kind == "toplevel_name").map(|c| c.attr.clone()).unwrap_or_default();
    for members in top.children.iter().filter(|c| c.kind == "members") {
      for m in members.children.iter().filter(|c| c.kind == "member_definition") {
        let mname = m.children.iter().find(|c| c.kind == "member_name").map(|c| c.attr.clone()).unwrap_or_default();
        cx.member = format!("{cname}.{mname}");
        cx.scopes.push(vec![]);
        if let Some(ps) = m.children.iter().find(|c| c.kind == "parameters") {
          for p in &ps.children {
            if let Some(nm) = p.children.iter().find(|c| c.kind == "parameter_name") {
              if let Some(l) = nm.loc {
                cx.bind(&nm.attr, l, "parameter", false);
              }
            }
          }
        }
        if let Some(b) = m.children.iter().find(|c| c.kind == "body") {
          for x in &b.children {
            expr(x, &mut cx);
          }
        }
        cx.scopes.pop();
      }
    }
  }
  cx.bindings
}
