//! Hostile input generators for C05 (and reused by C03/C06): byte soups, token soups,
//! truncations, token-level and range-level mutations of corpus files, nesting ladders.
use crate::rng::Rng;
use crate::toks::{self, Tok, TokKind};

pub fn random_bytes(rng: &mut Rng, max: usize) -> String {
  let n = rng.below(max + 1);
  let bytes: Vec<u8> = (0..n)
    .map(|_| match rng.below(10) {
      0..=5 => rng.range(0x20, 0x7e) as u8,
      6 => *rng.pick(b"\n\t\r \"\\/*"),
      _ => rng.below(256) as u8,
    })
    .collect();
  String::from_utf8_lossy(&bytes).to_string()
}

pub fn utf8_soup(rng: &mut Rng, max: usize) -> String {
  let pool = ["é", "€", "😀", "中", "\u{0301}", "\u{200b}", "\u{feff}", "ß", "\u{7f}", "\0", "a", "Z", "0", " ", "\n", "\"", "//", "/*", "*/", "class ", "{", "}", "(", ")", "\\"];
  let n = rng.below(max / 2 + 1);
  (0..n).map(|_| *rng.pick(&pool)).collect()
}

pub const VOCAB_EXTRA: &[&str] = &[
  "/*", "*/", "/**/", "/***/", "/** d */", "// c\n", "\"", "\\", "\"s\"", "\"a\\\"b\"", "\"\\n\"", "\"\\q\"", "0", "1", "42", "2147483647", "2147483648", "-2147483648", "99999999999999999999", "007",
  "Foo", "Bar", "T", "Main", "Process", "Str", "Vec", "Option", "x", "y", "foo", "main", "println", "init", "e0", "\n", "\n\n", " ", "\t", "&", "|", "#", "@", "$", "'", "`",
];

pub fn token_soup(rng: &mut Rng, max_tokens: usize) -> String {
  let n = 1 + rng.below(max_tokens);
  let mut s = String::new();
  for _ in 0..n {
    let t: &str = match rng.below(10) {
      0..=3 => *rng.pick(toks::KEYWORDS),
      4..=6 => *rng.pick(toks::OPS),
      _ => *rng.pick(VOCAB_EXTRA),
    };
    s.push_str(t);
    if !rng.chance(1, 8) {
      s.push(' ');
    }
  }
  s
}

/// a skeleton that gets past the class header so that the soup lands inside member / expression
/// positions (deeper parser states than a raw soup reaches)
pub fn structured_soup(rng: &mut Rng, max_tokens: usize) -> String {
  let body = token_soup(rng, max_tokens);
  match rng.below(6) {
    0 => format!("class Main {{ function main(): unit = {{ {body} }} }}"),
    1 => format!("class Main {{ function main(): unit = {body} }}"),
    2 => format!("class A({body}) {{ }}"),
    3 => format!("import {{ {body} }} from a.b\nclass A {{ }}"),
    4 => format!("class A {{ function f(a: int): int = match a {{ {body} }} }}"),
    _ => format!("interface I {{ {body} }}\nclass Main {{ function main(): unit = {{ }} }}"),
  }
}

pub fn truncate_at(text: &str, rng: &mut Rng) -> String {
  if text.is_empty() {
    return String::new();
  }
  let mut cut = rng.below(text.len());
  while !text.is_char_boundary(cut) {
    cut -= 1;
  }
  text[..cut].to_string()
}

fn render(tokens: &[Tok]) -> String {
  let mut s = String::new();
  let mut line = 0;
  for t in tokens {
    if t.line != line {
      s.push('\n');
      line = t.line;
    } else if !s.is_empty() {
      s.push(' ');
    }
    s.push_str(&t.text);
    if t.kind == TokKind::LineComment {
      s.push('\n');
    }
  }
  s
}

/// k random token-level edits: delete / duplicate / swap neighbours / replace by vocabulary / insert
pub fn token_mutation(text: &str, rng: &mut Rng, k: usize) -> (String, String) {
  let mut t = toks::lex(text);
  let mut desc = String::new();
  for _ in 0..k {
    if t.is_empty() {
      break;
    }
    let i = rng.below(t.len());
    match rng.below(6) {
      0 => {
        desc.push_str(&format!("del@{i}({}) ", t[i].text.chars().take(8).collect::<String>()));
        t.remove(i);
      }
      1 => {
        desc.push_str(&format!("dup@{i} "));
        let x = t[i].clone();
        t.insert(i, x);
      }
      2 if i + 1 < t.len() => {
        desc.push_str(&format!("swap@{i} "));
        t.swap(i, i + 1);
      }
      3 => {
        let v: &str = if rng.bool() { *rng.pick(toks::OPS) } else { *rng.pick(toks::KEYWORDS) };
        desc.push_str(&format!("repl@{i}->{v} "));
        t[i].text = v.to_string();
      }
      4 => {
        let v: &str = *rng.pick(VOCAB_EXTRA);
        desc.push_str(&format!("ins@{i}:{:?} ", v));
        let mut x = t[i].clone();
        x.text = v.to_string();
        x.kind = TokKind::Op;
        t.insert(i, x);
      }
      _ => {
        let j = rng.below(t.len());
        desc.push_str(&format!("copy@{j}->{i} "));
        t[i].text = t[j].text.clone();
      }
    }
  }
  (render(&t), desc)
}

/// delete / duplicate / transplant a bracket-balanced token range ("tree mutation")
pub fn range_mutation(text: &str, donor: &str, rng: &mut Rng) -> (String, String) {
  let t = toks::lex(text);
  let d = toks::lex(donor);
  if t.len() < 4 {
    return (text.to_string(), "noop".into());
  }
  let balanced = |toks: &[Tok], rng: &mut Rng| -> (usize, usize) {
    // pick an opening bracket and find its partner
    let opens: Vec<usize> = toks.iter().enumerate().filter(|(_, x)| matches!(x.text.as_str(), "(" | "{")).map(|(i, _)| i).collect();
    if opens.is_empty() {
      let a = rng.below(toks.len());
      return (a, (a + 1 + rng.below(4)).min(toks.len()));
    }
    let a = *rng.pick(&opens);
    let (o, c) = if toks[a].text == "(" { ("(", ")") } else { ("{", "}") };
    let mut depth = 0;
    for (j, x) in toks.iter().enumerate().skip(a) {
      if x.text == o {
        depth += 1;
      } else if x.text == c {
        depth -= 1;
        if depth == 0 {
          return (a, j + 1);
        }
      }
    }
    (a, toks.len())
  };
  let (a, b) = balanced(&t, rng);
  let mut out: Vec<Tok> = Vec::new();
  let desc;
  match rng.below(4) {
    0 => {
      desc = format!("delete-range {a}..{b}");
      out.extend_from_slice(&t[..a]);
      out.extend_from_slice(&t[b..]);
    }
    1 => {
      desc = format!("duplicate-range {a}..{b}");
      out.extend_from_slice(&t[..b]);
      out.extend_from_slice(&t[a..b]);
      out.extend_from_slice(&t[b..]);
    }
    2 if d.len() >= 4 => {
      let (c, e) = balanced(&d, rng);
      desc = format!("transplant donor {c}..{e} over {a}..{b}");
      out.extend_from_slice(&t[..a]);
      out.extend_from_slice(&d[c..e]);
      out.extend_from_slice(&t[b..]);
    }
    _ => {
      let (c, e) = balanced(&t, rng);
      desc = format!("self-transplant {c}..{e} over {a}..{b}");
      out.extend_from_slice(&t[..a]);
      out.extend_from_slice(&t[c..e]);
      out.extend_from_slice(&t[b..]);
    }
  }
  (render(&out), desc)
}

pub const LADDER_KINDS: &[&str] = &["paren", "brace", "not", "neg", "if", "dot", "plus", "call", "lambda", "match", "tuple", "generic", "fntype", "elseif", "concat", "pattern"];

/// expression / type nested `depth` deep, wrapped in a minimal class
pub fn ladder(kind: &str, depth: usize) -> String {
  let d = depth;
  let body = match kind {
    "paren" => format!("{}1{}", "(".repeat(d), ")".repeat(d)),
    "brace" => format!("{}1{}", "{ ".repeat(d), " }".repeat(d)),
    "not" => format!("{}true", "!".repeat(d)),
    "neg" => format!("{}1", "- ".repeat(d)),
    "if" => format!("{}1{}", "if true { ".repeat(d), " } else { 2 }".repeat(d)),
    "elseif" => format!("{}{{ 0 }}", "if false { 1 } else ".repeat(d)),
    "dot" => format!("a{}", ".b".repeat(d)),
    "plus" => format!("1{}", " + 1".repeat(d)),
    "concat" => format!("\"a\"{}", " :: \"b\"".repeat(d)),
    "call" => format!("f{}", "()".repeat(d)),
    "lambda" => format!("{}1", "() -> ".repeat(d)),
    "match" => format!("{}1{}", "match x { A -> ".repeat(d), " }".repeat(d)),
    "tuple" => format!("{}1, 2{}", "(".repeat(d), ", 3)".repeat(d)),
    "pattern" => return format!("class Main {{ function main(): unit = {{ let {}x{} = 1; }} }}", "A(".repeat(d), ")".repeat(d)),
    "generic" => return format!("class Main {{ function f(a: {}int{}): unit = {{ }} }}", "Box<".repeat(d), ">".repeat(d)),
    "fntype" => return format!("class Main {{ function f(a: {}int): unit = {{ }} }}", "() -> ".repeat(d)),
    _ => "1".to_string(),
  };
  format!("class Main {{ function main(): unit = {{ let x = {body}; }} }}")
}

pub const WIDE_KINDS: &[&str] = &[
  "tuple-ids", "tuple-lits", "tuple-id-then-lits", "tuple-ids-then-lit", "args", "lambda-params", "lambda-params-annotated", "fields", "variants",
  "variant-payload", "type-params", "type-args", "tuple-pattern", "object-pattern", "variant-pattern", "fntype-args", "params", "imports", "match-arms",
  "tuple-type", "supertypes", "statements",
];

/// a construct with `n` siblings (the size limits of the parser sit at 16), wrapped in a class
pub fn wide(kind: &str, n: usize) -> String {
  let list = |f: &dyn Fn(usize) -> String, sep: &str| (0..n).map(|i| f(i)).collect::<Vec<_>>().join(sep);
  let ids = list(&|i| format!("a{i}"), ", ");
  let same = list(&|_| "a".to_string(), ", ");
  let lits = list(&|i| format!("{i}"), ", ");
  let in_main = |body: String| format!("class Main {{ function f(a: int): int = {{ let x = {body}; 1 }} function main(): unit = {{ }} }}");
  match kind {
    "tuple-ids" => in_main(format!("({same})")),
    "tuple-lits" => in_main(format!("({lits})")),
    "tuple-id-then-lits" => in_main(format!("(a, {lits})")),
    "tuple-ids-then-lit" => in_main(format!("({same}, 1)")),
    "args" => in_main(format!("Main.g({lits})")),
    "lambda-params" => in_main(format!("({ids}) -> 1")),
    "lambda-params-annotated" => in_main(format!("({}) -> 1", list(&|i| format!("a{i}: int"), ", "))),
    "fields" => format!("class Main({}) {{ function main(): unit = {{ }} }}", list(&|i| format!("val a{i}: int"), ", ")),
    "variants" => format!("class Main({}) {{ function main(): unit = {{ }} }}", list(&|i| format!("V{i}"), ", ")),
    "variant-payload" => format!("class Main(V({})) {{ function main(): unit = {{ }} }}", list(&|_| "int".to_string(), ", ")),
    "type-params" => format!("class Main<{}> {{ function main(): unit = {{ }} }}", list(&|i| format!("T{i}"), ", ")),
    "type-args" => format!("class Main {{ function f(a: Box<{}>): unit = {{ }} function main(): unit = {{ }} }}", list(&|_| "int".to_string(), ", ")),
    "tuple-pattern" => format!("class Main {{ function main(): unit = {{ let ({ids}) = 1; }} }}"),
    "object-pattern" => format!("class Main {{ function main(): unit = {{ let {{ {ids} }} = 1; }} }}"),
    "variant-pattern" => format!("class Main {{ function main(): unit = {{ let x = match 1 {{ V({ids}) -> 1, _ -> 2 }}; }} }}"),
    "fntype-args" => format!("class Main {{ function f(a: ({}) -> int): unit = {{ }} function main(): unit = {{ }} }}", list(&|_| "int".to_string(), ", ")),
    "params" => format!("class Main {{ function f({}): unit = {{ }} function main(): unit = {{ }} }}", list(&|i| format!("a{i}: int"), ", ")),
    "imports" => format!("import {{ {} }} from std.option\nclass Main {{ function main(): unit = {{ }} }}", list(&|i| format!("C{i}"), ", ")),
    "match-arms" => format!("class Main {{ function main(): unit = {{ let x = match 1 {{ {} }}; }} }}", list(&|i| format!("V{i} -> {i}"), ", ")),
    "tuple-type" => format!("class Main {{ function f(a: ({})): unit = {{ }} function main(): unit = {{ }} }}", list(&|_| "int".to_string(), ", ")),
    "supertypes" => format!("class Main : {} {{ function main(): unit = {{ }} }}", list(&|i| format!("I{i}"), ", ")),
    _ => format!("class Main {{ function main(): unit = {{ {} }} }}", list(&|i| format!("let a{i} = {i};"), " ")),
  }
}
