//! Differential execution of one program through all executors, the judgements of C01 / C03 /
//! C04 over the outcome, structural cause tags and delta-debugging for signatures.
use crate::astwalk::{Node, Walker};
use crate::front::{self, Project};
use crate::pool::catch;
use crate::trace::{Ending, Limits, Trace};
use crate::{refint, tsrun, wasmi};
use samlang_heap::Heap;
use std::collections::BTreeSet;
use std::panic::AssertUnwindSafe;

#[derive(Clone, Debug, Default)]
pub struct Outcome {
  pub front_panic: Option<String>,
  pub rejected: Option<String>,
  pub ref_trace: Option<Trace>,
  pub escaped_literals: bool,
  pub ambiguous_object_eq: bool,
  pub compile_panic: Option<String>,
  pub compile_diag: Option<String>,
  pub wasm_invalid: Option<String>,
  pub wasm_trace: Option<Trace>,
  pub erase_err: Option<String>,
  pub js: Option<String>,
  pub ts_trace: Option<Trace>,
  pub wasm_instrs: u64,
  /// the same module under the real engine (node >= 22), when one is installed and the leg is on
  pub v8_trace: Option<Trace>,
  /// the emitted TypeScript as it is under `node --experimental-strip-types`
  pub ts_native_trace: Option<Trace>,
}

/// bit 1: run the emitted wasm under the real engine; bit 2: run the emitted TypeScript natively
pub static REAL_ENGINE_LEGS: std::sync::atomic::AtomicU32 = std::sync::atomic::AtomicU32::new(0);

pub fn limits() -> Limits {
  Limits { max_steps: 30_000_000, max_depth: 4000, max_lines: 20_000 }
}

/// everything except the TS run (batched separately); `user` must not contain std
pub fn run_all_but_ts(user: &Project, entry: &str, lim: &Limits) -> Outcome {
  let mut o = Outcome::default();
  let project = user.clone().with_std();
  let mut heap = Heap::new();
  let checked = match catch(AssertUnwindSafe(|| front::check_project(&mut heap, &project))) {
    Ok(c) => c,
    Err(e) => {
      o.front_panic = Some(e);
      return o;
    }
  };
  if checked.errors.has_errors() {
    o.rejected = Some(checked.errors.pretty_print_error_messages_no_frame_for_test(&heap));
    return o;
  }
  let entry_ref = front::mod_ref(&mut heap, entry);
  let (t, st) = refint::run(&heap, &checked.checked, entry_ref, lim);
  o.escaped_literals = st.saw_escaped_literal();
  o.ambiguous_object_eq = st.ambiguous_object_eq > 0;
  o.ref_trace = Some(normalise(t));
  let compiled = match catch(AssertUnwindSafe(|| front::compile_project(&project, entry))) {
    Ok(Ok(x)) => x,
    Ok(Err(e)) => {
      o.compile_diag = Some(e);
      return o;
    }
    Err(e) => {
      o.compile_panic = Some(e);
      return o;
    }
  };
  match wasmi::validate(&compiled.wasm) {
    Err(e) => o.wasm_invalid = Some(e),
    Ok(()) => {
      let (t, st) = wasmi::run(&compiled.wasm, &compiled.main_fn, lim);
      o.wasm_instrs = st.instrs;
      o.wasm_trace = Some(normalise(t));
    }
  }
  match tsrun::erase(&compiled.ts) {
    Ok(js) => o.js = Some(js),
    Err(e) => o.erase_err = Some(e),
  }
  let legs = REAL_ENGINE_LEGS.load(std::sync::atomic::Ordering::SeqCst);
  let finished = |t: &Option<Trace>| t.as_ref().map(|t| !matches!(t.ending, Ending::StepLimit | Ending::Harness(_))).unwrap_or(false);
  if legs & 1 != 0 && finished(&o.wasm_trace) {
    o.v8_trace = crate::v8run::run_wasm(&compiled.wasm, &compiled.loader_js, &compiled.main_fn, lim, std::time::Duration::from_secs(20)).map(normalise);
  }
  if legs & 2 != 0 && finished(&o.wasm_trace) {
    o.ts_native_trace = crate::v8run::run_ts(&compiled.ts, lim, std::time::Duration::from_secs(20)).map(normalise);
  }
  o
}

/// do two runs of the same program by two engines agree (lines and class of ending; a panic
/// message must be equal; stack exhaustion happens at engine-specific depths, so only the fact is
/// compared then)?
pub fn engines_agree(a: &Trace, b: &Trace) -> bool {
  if matches!(a.ending, Ending::StackExhausted) && matches!(b.ending, Ending::StackExhausted) {
    return true;
  }
  if ending_class(&a.ending).split('(').next() != ending_class(&b.ending).split('(').next() {
    return false;
  }
  if let (Ending::Panic(x), Ending::Panic(y)) = (&a.ending, &b.ending) {
    if x != y {
      return false;
    }
  }
  a.lines == b.lines
}

pub fn run_ts_batch(outs: &mut [&mut Outcome], lim: &Limits, timeout_ms: u64) {
  let idx: Vec<usize> = (0..outs.len()).filter(|i| outs[*i].js.is_some()).collect();
  let progs: Vec<String> = idx.iter().map(|i| outs[*i].js.clone().unwrap()).collect();
  if progs.is_empty() {
    return;
  }
  let traces = tsrun::run_batch(&progs, lim, timeout_ms);
  for (k, i) in idx.iter().enumerate() {
    outs[*i].ts_trace = traces.get(k).cloned().map(normalise);
  }
}

pub fn run_full(user: &Project, entry: &str, lim: &Limits, with_ts: bool) -> Outcome {
  let mut o = run_all_but_ts(user, entry, lim);
  if with_ts {
    if let Some(js) = &o.js {
      o.ts_trace = Some(normalise(tsrun::run_one(js, lim, 4000)));
    }
  }
  o
}

pub fn same(a: &Trace, b: &Trace) -> bool {
  a.lines == b.lines && a.ending == b.ending
}

/// one printed string may contain newlines: the observable is the text, so every executor's
/// lines are re-split the way a terminal would show them
fn normalise(mut t: Trace) -> Trace {
  if t.lines.iter().any(|l| l.contains('\n')) {
    t.lines = t.lines.iter().flat_map(|l| l.split('\n').map(|s| s.to_string()).collect::<Vec<_>>()).collect();
  }
  t
}

fn ending_class(e: &Ending) -> String {
  match e {
    Ending::Return => "Return".into(),
    Ending::Panic(_) => "Panic".into(),
    Ending::VecBounds => "VecBounds".into(),
    Ending::StackExhausted => "StackExhausted".into(),
    Ending::ArithTrap(_) => "ArithTrap".into(),
    Ending::Fault { kind, .. } => format!("Fault({kind})"),
    Ending::NoArmMatched => "NoArmMatched".into(),
    Ending::StepLimit => "StepLimit".into(),
    Ending::Harness(_) => "Harness".into(),
  }
}

fn differ_in_number(x: &str, y: &str) -> bool {
  let xb: Vec<char> = x.chars().collect();
  let yb: Vec<char> = y.chars().collect();
  let mut p = 0;
  while p < xb.len() && p < yb.len() && xb[p] == yb[p] {
    p += 1;
  }
  let mut s = 0;
  while s < xb.len() - p && s < yb.len() - p && xb[xb.len() - 1 - s] == yb[yb.len() - 1 - s] {
    s += 1;
  }
  let num = |v: &[char]| !v.is_empty() && v.iter().all(|c| c.is_ascii_digit() || *c == '-' || *c == 'N' || *c == 'a' || *c == 'I' || *c == 'n' || *c == 'f' || *c == 'i' || *c == 't' || *c == 'y');
  (p < xb.len() - s || p < yb.len() - s) && (xb[p..xb.len() - s].is_empty() || num(&xb[p..xb.len() - s])) && (yb[p..yb.len() - s].is_empty() || num(&yb[p..yb.len() - s]))
}

/// class of the first difference between two traces
pub fn diff_class(a: &Trace, b: &Trace) -> String {
  for i in 0..a.lines.len().max(b.lines.len()) {
    let (x, y) = (a.lines.get(i), b.lines.get(i));
    if x != y {
      let (x, y) = (x.cloned().unwrap_or_default(), y.cloned().unwrap_or_default());
      let esc = |s: &str| s.contains('\\') || s.contains('\t') || s.contains('\0') || s.contains('\u{8}') || s.contains('\u{c}') || s.contains('\u{b}');
      if a.lines.get(i).is_none() || b.lines.get(i).is_none() {
        return format!("truncated:{}->{}", ending_class(&a.ending), ending_class(&b.ending));
      }
      if esc(&x) || esc(&y) || a.lines.len() != b.lines.len() && (x.starts_with(&y) || y.starts_with(&x)) {
        return "string-escape".into();
      }
      let strip = |s: &str| s.chars().filter(|c| c.is_ascii()).collect::<String>();
      if (!x.is_ascii() || !y.is_ascii()) && strip(&x) == strip(&y) {
        return "string-non-ascii".into();
      }
      if differ_in_number(&x, &y) {
        return "number".into();
      }
      return "text".into();
    }
  }
  format!("ending:{}->{}", ending_class(&a.ending), ending_class(&b.ending))
}

pub fn describe_diff(an: &str, a: &Trace, bn: &str, b: &Trace) -> String {
  for i in 0..a.lines.len().max(b.lines.len()) {
    let (x, y) = (a.lines.get(i), b.lines.get(i));
    if x != y {
      let sh = |s: Option<&String>| s.map(|s| format!("{:?}", s.chars().take(120).collect::<String>())).unwrap_or("<no line>".into());
      return format!("line {}: {an} prints {} but {bn} prints {} ({an}: {} lines, {:?}; {bn}: {} lines, {:?})", i + 1, sh(x), sh(y), a.lines.len(), a.ending, b.lines.len(), b.ending);
    }
  }
  format!("same {} lines, but {an} ends with {:?} and {bn} with {:?}", a.lines.len(), a.ending, b.ending)
}

fn norm_loc(e: &str) -> String {
  e.rsplit(" @ ").next().unwrap_or("").replace("/repo/", "").trim().to_string()
}

fn norm_msg(m: &str) -> String {
  // keep the shape of a validator / wat / node message, drop numbers and names
  let mut out = String::new();
  let mut last_hash = false;
  for c in m.chars().take(160) {
    if c.is_ascii_digit() {
      if !last_hash {
        out.push('#');
      }
      last_hash = true;
    } else {
      out.push(c);
      last_hash = false;
    }
  }
  out
}

fn wat_error_class(p: &str) -> String {
  // `called Result::unwrap() on an Err value: Error { kind: Wast(... snippet ... ) ... "unknown type ..."`
  for key in ["unknown type", "unknown func", "unknown global", "unknown local", "unknown label", "unknown table", "type mismatch", "expected"] {
    if let Some(i) = p.find(key) {
      let tail: String = p[i..].chars().take_while(|c| *c != '"' && *c != '\\' && *c != '\n').take(40).collect();
      // drop the concrete identifier
      let tail = tail.split('$').next().unwrap_or("").trim().to_string();
      return tail;
    }
  }
  String::new()
}

/// which of the reference conclusions may be compared at all
pub fn ref_comparable(o: &Outcome) -> Result<(), String> {
  let Some(r) = &o.ref_trace else { return Err("no reference run".into()) };
  if !r.conclusive() {
    return Err(format!("reference run inconclusive: {:?}", r.ending));
  }
  if r.ub.any() {
    return Err("reference run hit implementation-defined behaviour".into());
  }
  if matches!(r.ending, Ending::StackExhausted) {
    return Err("reference run exhausted the call stack".into());
  }
  if o.ambiguous_object_eq {
    return Err("program compares objects with == (representation dependent)".into());
  }
  Ok(())
}

/// C01: (symptom, description) when emitted wasm disagrees with the reference semantics
pub fn judge_c01(o: &Outcome) -> Option<(String, String)> {
  let (Some(r), Some(w)) = (&o.ref_trace, &o.wasm_trace) else { return None };
  if ref_comparable(o).is_err() || !w.conclusive() {
    return None;
  }
  if matches!(w.ending, Ending::StackExhausted) {
    return None;
  }
  if same(r, w) {
    return None;
  }
  Some((format!("wasm-differs:{}", diff_class(r, w)), describe_diff("the reference semantics", r, "the emitted wasm", w)))
}

/// C04: emitted TS vs emitted wasm
pub fn judge_c04(o: &Outcome) -> Option<(String, String)> {
  // TypeScript that cannot even be tokenised never runs, while the wasm of the same program does
  if let (Some(w), None, Some(e)) = (&o.wasm_trace, &o.ts_trace, &o.erase_err) {
    let ref_ok = o.ref_trace.as_ref().map(|r| !r.ub.any() && r.conclusive()).unwrap_or(true);
    if e.starts_with("lex:") && ref_ok && w.conclusive() && !matches!(w.ending, Ending::Fault { .. }) {
      return Some(("ts-vs-wasm:only-typescript-faults:invalid-typescript".into(), format!("the emitted wasm runs ({} lines, {}) but the emitted TypeScript cannot be tokenised: {e}", w.lines.len(), ending_class(&w.ending))));
    }
  }
  let (Some(w), Some(t)) = (&o.wasm_trace, &o.ts_trace) else { return None };
  if let Some(r) = &o.ref_trace {
    if r.ub.any() || !r.conclusive() {
      return None;
    }
  }
  if o.ambiguous_object_eq || !w.conclusive() || !t.conclusive() {
    return None;
  }
  if matches!(w.ending, Ending::StackExhausted) || matches!(t.ending, Ending::StackExhausted) {
    return None;
  }
  // an engine fault / invalid output is C03's subject when both sides have one; when only one
  // back end goes wrong the two back ends also disagree
  let w_fault = matches!(w.ending, Ending::Fault { .. });
  let t_fault = matches!(t.ending, Ending::Fault { .. });
  if w_fault && t_fault {
    return None;
  }
  if w_fault != t_fault {
    let (which, e) = if w_fault { ("wasm", &w.ending) } else { ("typescript", &t.ending) };
    return Some((format!("ts-vs-wasm:only-{which}-faults:{}", ending_class(e)), describe_diff("the emitted wasm", w, "the emitted TypeScript", t)));
  }
  if same(w, t) {
    return None;
  }
  Some((format!("ts-vs-wasm:{}", diff_class(w, t)), describe_diff("the emitted wasm", w, "the emitted TypeScript", t)))
}

/// C03: every way an accepted program "goes wrong"
pub fn judge_c03(o: &Outcome) -> Vec<(String, String)> {
  let mut v = Vec::new();
  if o.rejected.is_some() || o.front_panic.is_some() {
    return v;
  }
  if let Some(p) = &o.compile_panic {
    let wat = wat_error_class(p);
    let sig = if wat.is_empty() { format!("compile-panic:{}", norm_loc(p)) } else { format!("compile-panic:invalid-wat:{wat}") };
    v.push((sig, format!("compile_sources panicked on an accepted program: {}", p.chars().take(300).collect::<String>())));
    return v;
  }
  if let Some(d) = &o.compile_diag {
    v.push(("compile-rejects-accepted-program".into(), format!("the checker accepts the program but compile_sources returns diagnostics: {}", d.chars().take(200).collect::<String>())));
    return v;
  }
  if let Some(e) = &o.wasm_invalid {
    v.push((format!("wasm-invalid:{}", norm_msg(e.split(" (at offset").next().unwrap_or(e))), format!("emitted WebAssembly does not validate: {e}")));
  }
  if let Some(e) = &o.erase_err {
    if e.starts_with("lex:") {
      v.push((format!("ts-invalid:{}", norm_msg(e)), format!("emitted TypeScript cannot even be tokenised: {e}")));
    }
  }
  if let Some(w) = &o.wasm_trace {
    match &w.ending {
      Ending::Fault { kind, at } => v.push((format!("wasm-fault:{kind}"), format!("emitted wasm ends in an engine-level fault {kind} in {at} after {} lines", w.lines.len()))),
      Ending::NoArmMatched => v.push(("wasm-no-arm-matched".into(), "emitted wasm ends in a pattern match that no arm handles".into())),
      Ending::Panic(m) if m.is_empty() && !matches!(o.ref_trace.as_ref().map(|r| &r.ending), Some(Ending::Panic(x)) if x.is_empty()) => {
        v.push(("wasm-no-arm-matched".into(), "emitted wasm ends in the lowered match fallback (Process.panic(\"\"))".into()))
      }
      _ => {}
    }
  }
  if let Some(t) = &o.ts_trace {
    if let Ending::Fault { kind, at } = &t.ending {
      let class = if kind == "SyntaxError" { format!("ts-syntax-error:{}", norm_msg(at.split(" (line").next().unwrap_or(at))) } else { format!("ts-fault:{kind}") };
      v.push((class, format!("emitted TypeScript ends in {kind}: {at}")));
    }
  }
  v
}

// ---------------------------------------------------------------------------------------------
// structural cause tags of a (minimised) program

fn walk<'a>(n: &'a Node, f: &mut dyn FnMut(&'a Node)) {
  f(n);
  for c in &n.children {
    walk(c, f);
  }
}

pub fn cause_tags(user: &Project) -> BTreeSet<String> {
  let mut tags = BTreeSet::new();
  let mut heap = Heap::new();
  let mut trees = Vec::new();
  for (n, t) in &user.modules {
    let m = front::mod_ref(&mut heap, n);
    let mut es = samlang_errors::ErrorSet::new();
    let parsed = samlang_parser::parse_source_module_from_text(t, m, &mut heap, &mut es);
    trees.push(Walker::new(&heap).module(&parsed));
    if !t.is_ascii() {
      tags.insert("non-ascii-text".to_string());
    }
  }
  // enum shapes: name -> list of variants (payload type names)
  let mut enums: Vec<(String, Vec<Vec<String>>, bool)> = Vec::new();
  for tr in &trees {
    walk(tr, &mut |n| {
      if n.kind == "class" {
        let name = n.children.iter().find(|c| c.kind == "toplevel_name").map(|c| c.attr.clone()).unwrap_or_default();
        let generic = n.children.iter().any(|c| c.kind == "type_parameters");
        if let Some(def) = n.children.iter().find(|c| c.kind == "enum_definition") {
          let mut variants = Vec::new();
          for v in def.children.iter().filter(|c| c.kind == "variant") {
            let mut payload = Vec::new();
            if let Some(d) = v.children.iter().find(|c| c.kind == "variant_data") {
              for a in &d.children {
                let mut name = String::new();
                walk(a, &mut |x| {
                  if name.is_empty() && (x.kind == "annot_id_name" || x.kind == "annot_generic_name") {
                    name = if x.kind == "annot_generic_name" { format!("<{}>", x.attr) } else { x.attr.clone() };
                  }
                  if name.is_empty() && x.kind == "annot_primitive" {
                    name = x.attr.clone();
                  }
                  if name.is_empty() && x.kind == "annot_fn" {
                    name = "fn".into();
                  }
                });
                payload.push(name);
              }
            }
            variants.push(payload);
          }
          enums.push((name, variants, generic));
        }
      }
      match n.kind {
        "string_literal" => {
          if n.attr.contains('\\') {
            tags.insert("string-escape".into());
          }
          if n.attr.contains('`') || n.attr.contains("${") {
            tags.insert("string-backtick-or-dollar".into());
          }
          if n.attr.contains('"') {
            tags.insert("string-quote".into());
          }
        }
        "int_literal" => {
          if let Ok(v) = n.attr.parse::<i64>() {
            if !(-(1 << 30)..(1 << 30)).contains(&v) {
              tags.insert("int-beyond-31-bits".into());
            }
          }
        }
        "binary" if n.attr == "/" || n.attr == "%" => {
          tags.insert("int-division".into());
        }
        "pattern_object" => {
          tags.insert("object-pattern".into());
        }
        "class_ref" if n.children.iter().any(|c| c.attr == "Vec") => {
          tags.insert("vec".into());
        }
        _ => {}
      }
    });
  }
  let enum_names: BTreeSet<String> = enums.iter().map(|e| e.0.clone()).collect();
  for (name, variants, generic) in &enums {
    let singles: Vec<&String> = variants.iter().filter(|p| p.len() == 1).map(|p| &p[0]).collect();
    if variants.len() == 1 && singles.len() == 1 {
      tags.insert("single-variant-enum".into());
    }
    for s in &singles {
      if *s == name {
        tags.insert("self-recursive-single-payload-enum".into());
      } else if enum_names.contains(*s) {
        // does the payload enum lead back?
        let back = enums.iter().find(|e| e.0 == **s).map(|e| e.1.iter().any(|p| p.len() == 1 && p[0] == *name)).unwrap_or(false);
        tags.insert(if back { "mutually-recursive-single-payload-enum".into() } else { "single-payload-is-enum".into() });
      } else if s.starts_with('<') {
        tags.insert("single-payload-is-type-parameter".into());
      } else if !matches!(s.as_str(), "int" | "bool" | "unit") {
        tags.insert("single-payload-is-reference".into());
      }
    }
    let _ = generic;
  }
  tags
}

/// Delta-debug a user project while `pred` holds (modules, classes/lines, tokens).
pub fn minimise(user: &Project, budget: usize, pred: &mut dyn FnMut(&Project) -> bool) -> Project {
  let min = crate::ddmin::minimise_modules(&user.modules, &mut |c| pred(&Project { modules: c.to_vec() }), budget);
  Project { modules: min }
}

pub fn render_project(p: &Project) -> String {
  let mut s = String::new();
  for (n, t) in &p.modules {
    s.push_str(&format!("//// module {n}\n{t}"));
    if !t.ends_with('\n') {
      s.push('\n');
    }
  }
  s
}

pub fn parse_rendered(text: &str) -> (Project, String) {
  let mut p = Project::default();
  let mut cur: Option<(String, String)> = None;
  for line in text.lines() {
    if line.starts_with("# ") && cur.is_none() {
      continue;
    }
    if let Some(n) = line.strip_prefix("//// module ") {
      if let Some(m) = cur.take() {
        p.modules.push(m);
      }
      cur = Some((n.trim().to_string(), String::new()));
    } else {
      let c = cur.get_or_insert_with(|| ("Main".to_string(), String::new()));
      c.1.push_str(line);
      c.1.push('\n');
    }
  }
  if let Some(m) = cur.take() {
    p.modules.push(m);
  }
  let entry = p.modules.iter().rev().find(|(_, t)| t.contains("class Main")).map(|(n, _)| n.clone()).unwrap_or("Main".into());
  (p, entry)
}
