//! Evidence files (/verif/evidence/<id>.json), known findings, verdict printing and exit codes.
use serde_json::{Map, Value, json};
use std::collections::BTreeMap;
use std::time::Instant;

pub const VERIF: &str = "/verif";

#[derive(Clone, Debug)]
pub struct Violation {
  /// narrow signature used to match known findings (never the property id alone)
  pub signature: String,
  /// one-line human description of what failed
  pub what: String,
  /// full replay content (input / history / program) written to the replay file
  pub replay: String,
}

pub struct KnownFindings {
  pub findings: Vec<(String, String, String)>, // (property, signature, what)
}

impl KnownFindings {
  pub fn load() -> KnownFindings {
    let mut findings = Vec::new();
    if let Ok(t) = std::fs::read_to_string(format!("{VERIF}/known_findings.json")) {
      if let Ok(v) = serde_json::from_str::<Value>(&t) {
        for f in v.get("findings").and_then(|f| f.as_array()).cloned().unwrap_or_default() {
          let g = |k: &str| f.get(k).and_then(|x| x.as_str()).unwrap_or("").to_string();
          findings.push((g("property"), g("signature"), g("what")));
        }
      }
    }
    KnownFindings { findings }
  }
  pub fn lookup(&self, property: &str, signature: &str) -> Option<&str> {
    self
      .findings
      .iter()
      .find(|(p, s, _)| p == property && s == signature)
      .map(|(_, _, w)| w.as_str())
  }
}

pub struct Run {
  pub property: String,
  pub tier: String,
  pub seed: u64,
  pub level: String,
  pub start: Instant,
  pub coverage: Map<String, Value>,
  pub assumptions: Vec<String>,
  pub violations: Vec<Violation>,
  pub inconclusive: BTreeMap<String, u64>,
  pub samples: Vec<Value>,
  pub evaluations: u64,
  pub distinct_nontrivial: u64,
  pub rule: String,
  pub harness_errors: Vec<String>,
}

pub fn env_seed() -> u64 {
  std::env::var("VERIF_SEED").ok().and_then(|s| s.trim().parse::<i64>().ok()).map(|x| x as u64).unwrap_or(1)
}

pub fn env_tier(default: &str) -> String {
  std::env::var("VERIF_TIER").ok().filter(|s| s == "quick" || s == "thorough").unwrap_or(default.to_string())
}

fn fnv(s: &str) -> u64 {
  let mut h: u64 = 0xcbf29ce484222325;
  for b in s.bytes() {
    h ^= b as u64;
    h = h.wrapping_mul(0x100000001b3);
  }
  h
}

pub fn hash_str(s: &str) -> u64 {
  fnv(s)
}

impl Run {
  pub fn new(property: &str, tier: &str, seed: u64, level: &str) -> Run {
    Run {
      property: property.to_string(),
      tier: tier.to_string(),
      seed,
      level: level.to_string(),
      start: Instant::now(),
      coverage: Map::new(),
      assumptions: vec![],
      violations: vec![],
      inconclusive: BTreeMap::new(),
      samples: vec![],
      evaluations: 0,
      distinct_nontrivial: 0,
      rule: String::new(),
      harness_errors: vec![],
    }
  }
  pub fn cov(&mut self, k: &str, v: Value) {
    self.coverage.insert(k.to_string(), v);
  }
  pub fn sample(&mut self, v: Value) {
    if self.samples.len() < 6 {
      self.samples.push(v);
    }
  }
  pub fn inconclusive(&mut self, why: &str) {
    *self.inconclusive.entry(why.to_string()).or_insert(0) += 1;
  }
  pub fn violation(&mut self, signature: String, what: String, replay: String) {
    self.violations.push(Violation { signature, what, replay });
  }

  /// Writes the evidence file, prints verdict lines, returns the process exit code.
  pub fn finish(mut self) -> i32 {
    let kf = KnownFindings::load();
    let mut known: BTreeMap<String, (String, u64)> = BTreeMap::new();
    let mut fresh: BTreeMap<String, Violation> = BTreeMap::new();
    let mut fresh_count = 0u64;
    for v in &self.violations {
      if let Some(w) = kf.lookup(&self.property, &v.signature) {
        known.entry(v.signature.clone()).or_insert((w.to_string(), 0)).1 += 1;
      } else {
        fresh_count += 1;
        fresh.entry(v.signature.clone()).or_insert_with(|| v.clone());
      }
    }
    for (sig, (what, n)) in &known {
      println!("KNOWN-FINDING: property={} {} ({}; re-observed {} times this run)", self.property, sig, what, n);
    }
    let mut replay_paths = Vec::new();
    for (sig, v) in &fresh {
      let dir = format!("{VERIF}/replays/{}", self.property);
      let _ = std::fs::create_dir_all(&dir);
      let path = format!("{dir}/{:016x}.txt", fnv(&format!("{}{}", sig, v.replay)));
      let body = format!("# property={} signature={}\n# {}\n{}", self.property, sig, v.what.replace('\n', " "), v.replay);
      let _ = std::fs::write(&path, body);
      println!("VIOLATION property={} replay={}", self.property, path);
      println!("  signature: {}", sig);
      println!("  what: {}", v.what.lines().next().unwrap_or(""));
      replay_paths.push(path);
    }
    let observed_nothing = self.distinct_nontrivial < 2 || self.evaluations < 1;
    let wall = self.start.elapsed().as_secs_f64();
    let mut cov = std::mem::take(&mut self.coverage);
    cov.insert("evaluations".into(), json!(self.evaluations));
    cov.insert("distinct_nontrivial".into(), json!(self.distinct_nontrivial));
    cov.insert("rule".into(), json!(self.rule));
    if self.samples.is_empty() {
      self.samples.push(json!("(no sample recorded)"));
    }
    cov.insert("samples".into(), Value::Array(self.samples.clone()));
    cov.insert("inconclusive".into(), json!(self.inconclusive));
    cov.insert(
      "known_findings_reobserved".into(),
      json!(known.iter().map(|(s, (_, n))| (s.clone(), *n)).collect::<BTreeMap<_, _>>()),
    );
    cov.insert("new_violation_signatures".into(), json!(fresh.keys().collect::<Vec<_>>()));
    cov.insert("harness_errors".into(), json!(self.harness_errors));
    if self.level == "translation_validation" {
      if !cov.contains_key("programs") {
        cov.insert("programs".into(), json!(self.evaluations));
      }
      if !cov.contains_key("disagreements_checked") {
        cov.insert("disagreements_checked".into(), json!(self.violations.len()));
      }
    }
    let ev = json!({
      "property_id": self.property,
      "tier": self.tier,
      "seed": self.seed as i64,
      "level": self.level,
      "coverage": Value::Object(cov),
      "assumptions": self.assumptions,
      "wall_s": wall,
      "violations": fresh_count,
    });
    let _ = std::fs::create_dir_all(format!("{VERIF}/evidence"));
    let path = format!("{VERIF}/evidence/{}.json", self.property);
    if let Err(e) = std::fs::write(&path, serde_json::to_string_pretty(&ev).unwrap()) {
      eprintln!("cannot write evidence {path}: {e}");
      return 3;
    }
    println!(
      "[{}] tier={} seed={} evaluations={} distinct_nontrivial={} violations(new)={} known={} inconclusive={} wall={:.1}s",
      self.property,
      self.tier,
      self.seed,
      self.evaluations,
      self.distinct_nontrivial,
      fresh_count,
      known.len(),
      self.inconclusive.values().sum::<u64>(),
      wall
    );
    if fresh_count > 0 {
      return 1;
    }
    if !self.harness_errors.is_empty() {
      eprintln!("HARNESS-ERROR property={}: {}", self.property, self.harness_errors.join(" | "));
      return 3;
    }
    if observed_nothing {
      eprintln!("HARNESS-ERROR property={}: run observed nothing non-trivial (distinct_nontrivial={})", self.property, self.distinct_nontrivial);
      return 3;
    }
    0
  }
}
