//! Thin helpers around the real front end / compiler entry points.
use samlang_ast::source::Module;
use samlang_checker::type_::{GlobalSignature, Type};
use samlang_errors::ErrorSet;
use samlang_heap::{Heap, ModuleReference};
use std::collections::HashMap;
use std::sync::Arc;

pub const REPO: &str = "/repo";

/// root of the repository whose std/ and tests/ files are read (override: env VERIF_REPO)
pub fn repo_root() -> String {
  std::env::var("VERIF_REPO").unwrap_or_else(|_| REPO.to_string())
}

/// A set of modules as plain data: (dotted module name, text)
#[derive(Clone, Debug, Default)]
pub struct Project {
  pub modules: Vec<(String, String)>,
}

impl Project {
  pub fn single(name: &str, text: &str) -> Project {
    Project { modules: vec![(name.to_string(), text.to_string())] }
  }
  pub fn with(mut self, name: &str, text: &str) -> Project {
    self.modules.push((name.to_string(), text.to_string()));
    self
  }
  /// add std/*.sam read from the working tree (incl. std.set, which is not embedded)
  pub fn with_std(mut self) -> Project {
    for (n, t) in read_dir_modules("std") {
      if !self.modules.iter().any(|(m, _)| *m == n) {
        self.modules.push((n, t));
      }
    }
    self
  }
  pub fn get(&self, name: &str) -> Option<&str> {
    self.modules.iter().find(|(n, _)| n == name).map(|(_, t)| t.as_str())
  }
}

pub fn read_dir_modules(dir: &str) -> Vec<(String, String)> {
  let mut out = Vec::new();
  let p = format!("{}/{dir}", repo_root());
  let mut names: Vec<_> = std::fs::read_dir(&p)
    .map(|rd| rd.flatten().map(|e| e.file_name().to_string_lossy().to_string()).collect())
    .unwrap_or_default();
  names.sort();
  for f in names {
    if let Some(stem) = f.strip_suffix(".sam") {
      if let Ok(t) = std::fs::read_to_string(format!("{p}/{f}")) {
        out.push((format!("{}.{}", dir.replace('/', "."), stem), t));
      }
    }
  }
  out
}

/// the repository's own e2e project: tests/*.sam + std/*.sam
pub fn repo_project() -> Project {
  let mut p = Project::default();
  p.modules.extend(read_dir_modules("tests"));
  p.modules.extend(read_dir_modules("std"));
  p
}

pub fn mod_ref(heap: &mut Heap, dotted: &str) -> ModuleReference {
  heap.alloc_module_reference_from_string_vec(dotted.split('.').map(|s| s.to_string()).collect())
}

/// lookup of an already interned module reference by dotted name
pub fn mod_ref_lookup(heap: &Heap, dotted: &str) -> Option<ModuleReference> {
  heap.get_allocated_module_reference_opt(dotted.split('.').map(|s| s.to_string()).collect())
}

pub fn source_handles(heap: &mut Heap, p: &Project) -> HashMap<ModuleReference, String> {
  p.modules.iter().map(|(n, t)| (mod_ref(heap, n), t.clone())).collect()
}

pub struct Checked {
  pub parsed: HashMap<ModuleReference, Module<()>>,
  pub checked: HashMap<ModuleReference, Module<Arc<Type>>>,
  pub global: GlobalSignature,
  pub errors: ErrorSet,
  pub handles: HashMap<ModuleReference, String>,
}

/// parse + type check every module of the project with the real front end
pub fn check_project(heap: &mut Heap, p: &Project) -> Checked {
  let handles = source_handles(heap, p);
  let mut errors = ErrorSet::new();
  let mut parsed = HashMap::new();
  for (m, t) in &handles {
    parsed.insert(*m, samlang_parser::parse_source_module_from_text(t, *m, heap, &mut errors));
  }
  let (checked, global) = samlang_checker::type_check_sources(&parsed, &mut errors);
  Checked { parsed, checked, global, errors, handles }
}

pub struct Compiled {
  pub ts: String,
  pub wasm: Vec<u8>,
  pub wat: String,
  /// encoded name of the entry module's Main.main in both backends
  pub main_fn: String,
  /// the emitted `__samlang_loader__.js`
  pub loader_js: String,
}

/// the real `compile_sources` (what the CLI calls); Err = rendered diagnostics
pub fn compile_project(p: &Project, entry: &str) -> Result<Compiled, String> {
  let mut heap = Heap::new();
  let handles = source_handles(&mut heap, p);
  let entry_ref = mod_ref(&mut heap, entry);
  let r = samlang_compiler::compile_sources(&mut heap, handles, vec![entry_ref], false)?;
  let ts = r.text_code_results.get(&format!("{entry}.ts")).cloned().unwrap_or_default();
  let wat = r.text_code_results.get("__all__.wat").cloned().unwrap_or_default();
  // last line of the ts is `<main>();`
  let main_fn = ts
    .trim_end()
    .rsplit('\n')
    .next()
    .unwrap_or("")
    .trim_end_matches("();")
    .to_string();
  let loader_js = r.text_code_results.get("__samlang_loader__.js").cloned().unwrap_or_default();
  Ok(Compiled { ts, wasm: r.wasm_file, wat, main_fn, loader_js })
}

/// the same for several entry points at once: (wasm, per entry: (typescript, encoded main))
pub fn compile_project_multi(p: &Project, entries: &[&str]) -> Result<(Vec<u8>, Vec<(String, String)>), String> {
  let mut heap = Heap::new();
  let handles = source_handles(&mut heap, p);
  let refs: Vec<ModuleReference> = entries.iter().map(|e| mod_ref(&mut heap, e)).collect();
  let r = samlang_compiler::compile_sources(&mut heap, handles, refs, false)?;
  let per = entries
    .iter()
    .map(|e| {
      let ts = r.text_code_results.get(&format!("{e}.ts")).cloned().unwrap_or_default();
      let main_fn = ts.trim_end().rsplit('\n').next().unwrap_or("").trim_end_matches("();").to_string();
      (ts, main_fn)
    })
    .collect();
  Ok((r.wasm_file, per))
}
