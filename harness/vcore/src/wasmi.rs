//! Validator + checking interpreter for the WasmGC bytes emitted by `compile_sources`.
//!
//! No stock engine in the sandbox can run these modules, so this file is the execution engine
//! for every check that observes the wasm backend. It is built on `wasmparser` 0.252's binary
//! reader: the module is validated with `wasmparser::Validator` (all features), then parsed
//! into our own structures, function bodies are pre-decoded once into a flat instruction
//! vector with resolved branch targets, and run with an explicit value stack + frame stack
//! (no host recursion).
//!
//! Instantiation mirrors `loader.js`: the only imports that exist are
//! `builtins.__Process$println` and `builtins.__Process$panic` (anything else is a LinkError,
//! as it would be under `new WebAssembly.Instance`), strings are decoded the way
//! `new TextDecoder('utf-8', { ignoreBOM: true })` decodes the low 8 bits of the `__strGet`
//! results (UTF-8, invalid sequences become U+FFFD), the start function runs at
//! instantiation, then the requested export is called with no arguments.
//!
//! Trap kinds implemented (each has a code path in `exec`), and their classification:
//!   IntegerDivideByZero, IntegerOverflow     -> Ending::ArithTrap(kind)
//!       (i32.div_s/div_u/rem_s/rem_u by zero; i32.div_s INT_MIN/-1; rem_s INT_MIN%-1 = 0, per spec)
//!   Unreachable inside $__Vec$get/$__Vec$set/$__Vec$pop -> Ending::VecBounds
//!   Unreachable anywhere else                -> Fault{Unreachable}
//!   CastFailure        ref.cast (incl. null into a non-null target)
//!   NullReference      ref.as_non_null, struct.get/set, array.get/set/len/fill/copy, i31.get_*,
//!                      call_ref on null
//!   OutOfBoundsArray   array.get/set/fill/copy index or range outside the array
//!   OutOfBoundsTable   call_indirect / table.get / table.set index outside the table
//!   NullTableEntry     call_indirect through a null table slot
//!   IndirectCallTypeMismatch  call_indirect callee type is not a subtype of the expected type
//!   OutOfBoundsData    array.new_data range outside the (possibly dropped) data segment
//!   OutOfBoundsMemory  i32 load/store outside linear memory, active data segment outside memory
//!   AllocationTooLarge array.new* with a length >= 2^27 elements (engine limit, see MAX_ARRAY_LEN)
//!   InvalidModule      the bytes do not validate (what `new WebAssembly.Module` would reject)
//!   LinkError          an import that loader.js does not supply
//!   MissingExport      the requested export does not exist / is not a function
//!   -> all of these are Ending::Fault { kind, at }
//! Budgets: call depth -> StackExhausted; instruction / println count -> StepLimit;
//! heap cell budget -> Harness("resource: ..."); a println/panic string longer than
//! HOST_STRING_LIMIT -> Harness("inconclusive: ...") because loader.js's `fromCharCode(...codes)`
//! spread throws an engine-dependent RangeError around 125k arguments. Anything the interpreter does not implement
//! (i64/f32/f64/simd arithmetic, exceptions, tail calls, array.new_elem ...) decodes to an
//! `Unsupported` instruction that ends the run with Harness("unsupported: ...") only if executed.
//!
//! Subtyping: rec groups are canonicalised iso-recursively (structural key per group with
//! group-relative internal references), `is_sub` walks the declared supertype chain comparing
//! canonical ids; ref.test / ref.cast / br_on_cast* / call_indirect / call_ref all use it.

use crate::trace::{Ending, Limits, Trace, UbFlags};
use std::collections::{BTreeSet, HashMap};
use wasmparser::{
  AbstractHeapType, BlockType, CompositeInnerType, ConstExpr, DataKind, ElementItems, ElementKind,
  ExternalKind, FunctionBody, HeapType, KnownCustom, ModuleArity, Name, Operator, Parser, Payload,
  RefType, StorageType, SubType, TableInit, TypeRef, ValType, Validator, WasmFeatures,
};

/// arrays longer than this are refused the way an engine refuses over-large arrays
pub const MAX_ARRAY_LEN: u32 = 1 << 27;
/// loader.js builds the JS string with `String.fromCharCode(...codes)`; beyond roughly 125k
/// arguments (node 20, default stack) the spread throws a RangeError, and the exact limit is
/// engine / stack-size dependent. A host string longer than this constant therefore ends the run
/// as inconclusive (`Ending::Harness("inconclusive: ...")`) instead of guessing either outcome.
pub const HOST_STRING_LIMIT: usize = 100_000;
/// total number of heap cells (fields / elements, bytes counted /8) one run may allocate
pub const HEAP_CELL_BUDGET: u64 = 1 << 27;

pub fn validate(bytes: &[u8]) -> Result<(), String> {
  let mut v = Validator::new_with_features(WasmFeatures::all());
  match v.validate_all(bytes) {
    Ok(_) => Ok(()),
    Err(e) => Err(format!("{} (at offset {})", e.message(), e.offset())),
  }
}

#[derive(Clone, Debug, Default)]
pub struct WasmRunStats {
  pub instrs: u64,
  pub max_depth: usize,
  pub opcodes_seen: BTreeSet<String>,
  pub gc_allocs: u64,
}

// ---------------------------------------------------------------------------------------------
// values, types
// ---------------------------------------------------------------------------------------------

#[derive(Clone, Copy, Debug, PartialEq)]
enum Val {
  I32(i32),
  I64(i64),
  F32(u32),
  F64(u64),
  Null,
  /// already sign-extended from 31 bits
  I31(i32),
  Obj(u32),
  Func(u32),
}

/// heap type as used by ref.test / ref.cast
#[derive(Clone, Copy, Debug, PartialEq, Eq)]
enum HT {
  Any,
  Eq,
  I31,
  Struct,
  Array,
  None,
  Func,
  NoFunc,
  Extern,
  NoExtern,
  Other,
  Concrete(u32),
}

const HT_CODES: [HT; 11] = [
  HT::Any,
  HT::Eq,
  HT::I31,
  HT::Struct,
  HT::Array,
  HT::None,
  HT::Func,
  HT::NoFunc,
  HT::Extern,
  HT::NoExtern,
  HT::Other,
];

fn ht_encode(h: HT) -> (u32, u32) {
  match h {
    HT::Concrete(i) => (11, i),
    other => (HT_CODES.iter().position(|x| *x == other).unwrap() as u32, 0),
  }
}
#[inline(always)]
fn ht_decode(code: u32, idx: u32) -> HT {
  if code == 11 { HT::Concrete(idx) } else { HT_CODES[code as usize] }
}

fn conv_heap_type(h: HeapType) -> HT {
  match h {
    HeapType::Abstract { shared: _, ty } => match ty {
      AbstractHeapType::Any => HT::Any,
      AbstractHeapType::Eq => HT::Eq,
      AbstractHeapType::I31 => HT::I31,
      AbstractHeapType::Struct => HT::Struct,
      AbstractHeapType::Array => HT::Array,
      AbstractHeapType::None => HT::None,
      AbstractHeapType::Func => HT::Func,
      AbstractHeapType::NoFunc => HT::NoFunc,
      AbstractHeapType::Extern => HT::Extern,
      AbstractHeapType::NoExtern => HT::NoExtern,
      _ => HT::Other,
    },
    HeapType::Concrete(i) => match i.as_module_index() {
      Some(i) => HT::Concrete(i),
      None => HT::Other,
    },
    HeapType::Exact(_) => HT::Other,
  }
}

#[derive(Clone, Copy, Debug, PartialEq, Eq)]
enum Stor {
  Full,
  I8,
  I16,
}

#[derive(Clone, Debug)]
enum Kind {
  Func { nparams: u32, nresults: u32 },
  Struct { fields: Vec<(Stor, Val)> },
  Array { stor: Stor, default: Val, numeric_bytes: u32 },
  Other,
}

#[derive(Clone, Debug)]
struct TypeDef {
  kind: Kind,
  supertype: Option<u32>,
  canon: u32,
}

fn default_of(v: ValType) -> Val {
  match v {
    ValType::I32 => Val::I32(0),
    ValType::I64 => Val::I64(0),
    ValType::F32 => Val::F32(0),
    ValType::F64 => Val::F64(0),
    ValType::V128 => Val::I64(0),
    ValType::Ref(_) => Val::Null,
  }
}

fn stor_of(s: StorageType) -> (Stor, Val, u32) {
  match s {
    StorageType::I8 => (Stor::I8, Val::I32(0), 1),
    StorageType::I16 => (Stor::I16, Val::I32(0), 2),
    StorageType::Val(v) => (
      Stor::Full,
      default_of(v),
      match v {
        ValType::I32 | ValType::F32 => 4,
        ValType::I64 | ValType::F64 => 8,
        _ => 0,
      },
    ),
  }
}

// ---------------------------------------------------------------------------------------------
// instructions
// ---------------------------------------------------------------------------------------------

macro_rules! define_ops {
  ($($v:ident = $n:literal),* $(,)?) => {
    #[repr(u8)]
    #[derive(Clone, Copy, PartialEq, Eq, Debug)]
    #[allow(dead_code)]
    enum Op { $($v),* }
    const OP_NAMES: &[&str] = &[$($n),*];
  };
}

define_ops! {
  Unreachable = "unreachable", Nop = "nop", Block = "block", Loop = "loop", If = "if",
  Else = "else", End = "end", Br = "br", BrIf = "br_if", BrTable = "br_table",
  Return = "return", Call = "call", CallIndirect = "call_indirect", CallRef = "call_ref",
  Drop = "drop", Select = "select",
  LocalGet = "local.get", LocalSet = "local.set", LocalTee = "local.tee",
  GlobalGet = "global.get", GlobalSet = "global.set",
  I32Const = "i32.const",
  I32Eqz = "i32.eqz", I32Eq = "i32.eq", I32Ne = "i32.ne", I32LtS = "i32.lt_s", I32LtU = "i32.lt_u",
  I32GtS = "i32.gt_s", I32GtU = "i32.gt_u", I32LeS = "i32.le_s", I32LeU = "i32.le_u",
  I32GeS = "i32.ge_s", I32GeU = "i32.ge_u",
  I32Clz = "i32.clz", I32Ctz = "i32.ctz", I32Popcnt = "i32.popcnt",
  I32Add = "i32.add", I32Sub = "i32.sub", I32Mul = "i32.mul", I32DivS = "i32.div_s",
  I32DivU = "i32.div_u", I32RemS = "i32.rem_s", I32RemU = "i32.rem_u", I32And = "i32.and",
  I32Or = "i32.or", I32Xor = "i32.xor", I32Shl = "i32.shl", I32ShrS = "i32.shr_s",
  I32ShrU = "i32.shr_u", I32Rotl = "i32.rotl", I32Rotr = "i32.rotr",
  I32Extend8S = "i32.extend8_s", I32Extend16S = "i32.extend16_s",
  I32Load = "i32.load", I32Load8S = "i32.load8_s", I32Load8U = "i32.load8_u",
  I32Load16S = "i32.load16_s", I32Load16U = "i32.load16_u",
  I32Store = "i32.store", I32Store8 = "i32.store8", I32Store16 = "i32.store16",
  MemorySize = "memory.size", MemoryGrow = "memory.grow", DataDrop = "data.drop",
  RefNull = "ref.null", RefIsNull = "ref.is_null", RefFunc = "ref.func", RefEq = "ref.eq",
  RefAsNonNull = "ref.as_non_null", BrOnNull = "br_on_null", BrOnNonNull = "br_on_non_null",
  BrOnCast = "br_on_cast", BrOnCastFail = "br_on_cast_fail",
  RefTest = "ref.test", RefCast = "ref.cast",
  RefI31 = "ref.i31", I31GetS = "i31.get_s", I31GetU = "i31.get_u",
  StructNew = "struct.new", StructNewDefault = "struct.new_default", StructGet = "struct.get",
  StructGetS = "struct.get_s", StructGetU = "struct.get_u", StructSet = "struct.set",
  ArrayNew = "array.new", ArrayNewDefault = "array.new_default", ArrayNewFixed = "array.new_fixed",
  ArrayNewData = "array.new_data", ArrayGet = "array.get", ArrayGetS = "array.get_s",
  ArrayGetU = "array.get_u", ArraySet = "array.set", ArrayLen = "array.len",
  ArrayFill = "array.fill", ArrayCopy = "array.copy",
  TableGet = "table.get", TableSet = "table.set", TableSize = "table.size",
  Unsupported = "<unsupported>",
}

/// one pre-decoded instruction; meaning of a/b/c depends on `op`
#[derive(Clone, Copy, Debug)]
struct Ins {
  op: Op,
  a: u32,
  b: u32,
  c: u32,
}

#[inline(always)]
fn ins(op: Op, a: u32, b: u32, c: u32) -> Ins {
  Ins { op, a, b, c }
}

/// branch descriptor: jump to `target`, keeping the top `arity` values on top of operand
/// height `height` (relative to the frame's operand base)
#[derive(Clone, Copy, Debug, Default)]
struct BrT {
  target: u32,
  height: u32,
  arity: u32,
}

#[derive(Clone, Copy, Debug)]
struct CastBr {
  br: BrT,
  ht: HT,
  nullable: bool,
}

enum Host {
  Println,
  Panic,
}

struct Func {
  ty: u32,
  nparams: u32,
  nresults: u32,
  /// defaults of the non-parameter locals
  local_defaults: Vec<Val>,
  code: Vec<Ins>,
  name: Option<String>,
  host: Option<Host>,
  /// "module.name" for imports
  import: Option<String>,
}

struct DataSeg {
  bytes: Vec<u8>,
  /// Some((memory, offset expr value)) for active segments
  active: Option<(u32, u32)>,
}

struct TableDef {
  initial: u64,
  init: Val,
}

struct ElemSeg {
  /// Some((table, offset)) for active segments
  active: Option<(u32, u32)>,
  items: Vec<Val>,
}

struct Module {
  types: Vec<TypeDef>,
  funcs: Vec<Func>,
  n_imported_funcs: u32,
  tables: Vec<TableDef>,
  /// initial pages of memory 0, if any
  memory: Option<(u64, Option<u64>)>,
  global_inits: Vec<GlobalInit>,
  exports: HashMap<String, (ExternalKind, u32)>,
  elems: Vec<ElemSeg>,
  datas: Vec<DataSeg>,
  start: Option<u32>,
  br_tables: Vec<Vec<BrT>>,
  cast_brs: Vec<CastBr>,
  unsupported: Vec<String>,
  /// function indices of $__Vec$pop / $__Vec$get / $__Vec$set
  vec_helpers: Option<[u32; 3]>,
  link_error: Option<String>,
}

enum GlobalInit {
  Const(Val),
  /// evaluated at instantiation (may refer to other globals)
  Expr(Vec<CInstr>),
}

#[derive(Clone, Debug)]
enum CInstr {
  I32(i32),
  Null,
  Func(u32),
  Global(u32),
  I31,
  Add,
  Sub,
  Mul,
}

impl Module {
  fn fname(&self, f: u32) -> String {
    match self.funcs.get(f as usize).and_then(|x| x.name.clone()) {
      Some(n) => n,
      None => format!("func[{f}]"),
    }
  }

  /// declared-subtype check on canonicalised type ids
  #[inline]
  fn is_sub(&self, a: u32, b: u32) -> bool {
    let cb = self.types[b as usize].canon;
    let mut cur = Some(a);
    while let Some(t) = cur {
      let td = &self.types[t as usize];
      if td.canon == cb {
        return true;
      }
      cur = td.supertype;
    }
    false
  }
}

// ---------------------------------------------------------------------------------------------
// parsing
// ---------------------------------------------------------------------------------------------

/// key fragment for a value type inside the rec group starting at `start` with `len` members
fn key_valtype(out: &mut String, v: ValType, start: u32, len: u32, canon: &[u32]) {
  match v {
    ValType::I32 => out.push_str("i32"),
    ValType::I64 => out.push_str("i64"),
    ValType::F32 => out.push_str("f32"),
    ValType::F64 => out.push_str("f64"),
    ValType::V128 => out.push_str("v128"),
    ValType::Ref(r) => key_reftype(out, r, start, len, canon),
  }
}

fn key_index(out: &mut String, i: Option<u32>, start: u32, len: u32, canon: &[u32]) {
  match i {
    Some(i) if i >= start && i < start + len => out.push_str(&format!("r{}", i - start)),
    Some(i) if (i as usize) < canon.len() => out.push_str(&format!("c{}", canon[i as usize])),
    Some(i) => out.push_str(&format!("?{i}")),
    None => out.push_str("?"),
  }
}

fn key_reftype(out: &mut String, r: RefType, start: u32, len: u32, canon: &[u32]) {
  out.push_str(if r.is_nullable() { "(ref null " } else { "(ref " });
  match r.heap_type() {
    HeapType::Abstract { shared, ty } => out.push_str(&format!("{ty:?}{}", if shared { "!" } else { "" })),
    HeapType::Concrete(i) => key_index(out, i.as_module_index(), start, len, canon),
    HeapType::Exact(i) => {
      out.push_str("exact ");
      key_index(out, i.as_module_index(), start, len, canon)
    }
  }
  out.push(')');
}

fn key_storage(out: &mut String, s: StorageType, start: u32, len: u32, canon: &[u32]) {
  match s {
    StorageType::I8 => out.push_str("i8"),
    StorageType::I16 => out.push_str("i16"),
    StorageType::Val(v) => key_valtype(out, v, start, len, canon),
  }
}

fn key_subtype(out: &mut String, st: &SubType, start: u32, len: u32, canon: &[u32]) {
  out.push_str(if st.is_final { "[final " } else { "[sub " });
  if let Some(s) = st.supertype_idx {
    key_index(out, s.as_module_index(), start, len, canon);
  }
  out.push(' ');
  if st.composite_type.shared {
    out.push_str("shared ");
  }
  match &st.composite_type.inner {
    CompositeInnerType::Func(f) => {
      out.push_str("func(");
      for p in f.params() {
        key_valtype(out, *p, start, len, canon);
        out.push(',');
      }
      out.push_str(")->(");
      for p in f.results() {
        key_valtype(out, *p, start, len, canon);
        out.push(',');
      }
      out.push(')');
    }
    CompositeInnerType::Struct(s) => {
      out.push_str("struct(");
      for f in s.fields.iter() {
        if f.mutable {
          out.push_str("mut ");
        }
        key_storage(out, f.element_type, start, len, canon);
        out.push(',');
      }
      out.push(')');
    }
    CompositeInnerType::Array(a) => {
      out.push_str("array(");
      if a.0.mutable {
        out.push_str("mut ");
      }
      key_storage(out, a.0.element_type, start, len, canon);
      out.push(')');
    }
    CompositeInnerType::Cont(c) => {
      out.push_str("cont ");
      key_index(out, c.0.as_module_index(), start, len, canon);
    }
  }
  out.push(']');
}

struct Parsed<'a> {
  subtypes: Vec<SubType>,
  func_tys: Vec<u32>,
  bodies: Vec<FunctionBody<'a>>,
  module: Module,
}

fn const_expr(e: &ConstExpr) -> Result<Vec<CInstr>, String> {
  let mut out = Vec::new();
  let mut r = e.get_operators_reader();
  while !r.eof() {
    match r.read().map_err(|e| e.to_string())? {
      Operator::I32Const { value } => out.push(CInstr::I32(value)),
      Operator::RefNull { .. } => out.push(CInstr::Null),
      Operator::RefFunc { function_index } => out.push(CInstr::Func(function_index)),
      Operator::GlobalGet { global_index } => out.push(CInstr::Global(global_index)),
      Operator::RefI31 => out.push(CInstr::I31),
      Operator::I32Add => out.push(CInstr::Add),
      Operator::I32Sub => out.push(CInstr::Sub),
      Operator::I32Mul => out.push(CInstr::Mul),
      Operator::End => {}
      other => return Err(format!("unsupported: constant expression operator {other:?}")),
    }
  }
  Ok(out)
}

fn eval_const(code: &[CInstr], globals: &[Val]) -> Result<Val, String> {
  let mut st: Vec<Val> = Vec::new();
  for c in code {
    match c {
      CInstr::I32(v) => st.push(Val::I32(*v)),
      CInstr::Null => st.push(Val::Null),
      CInstr::Func(f) => st.push(Val::Func(*f)),
      CInstr::Global(g) => {
        st.push(*globals.get(*g as usize).ok_or("internal: const global.get out of range")?)
      }
      CInstr::I31 => match st.pop() {
        Some(Val::I32(v)) => st.push(Val::I31((v << 1) >> 1)),
        _ => return Err("internal: const ref.i31 operand".into()),
      },
      CInstr::Add | CInstr::Sub | CInstr::Mul => match (st.pop(), st.pop()) {
        (Some(Val::I32(b)), Some(Val::I32(a))) => st.push(Val::I32(match c {
          CInstr::Add => a.wrapping_add(b),
          CInstr::Sub => a.wrapping_sub(b),
          _ => a.wrapping_mul(b),
        })),
        _ => return Err("internal: const arithmetic operands".into()),
      },
    }
  }
  if st.len() == 1 { Ok(st[0]) } else { Err("internal: const expression result count".into()) }
}

fn const_u32(e: &ConstExpr) -> Result<u32, String> {
  match eval_const(&const_expr(e)?, &[])? {
    Val::I32(v) => Ok(v as u32),
    _ => Err("unsupported: non-i32 segment offset".into()),
  }
}

fn parse_module(bytes: &[u8]) -> Result<Parsed<'_>, String> {
  let mut subtypes: Vec<SubType> = Vec::new();
  let mut types: Vec<TypeDef> = Vec::new();
  let mut canon: Vec<u32> = Vec::new();
  let mut group_keys: HashMap<String, u32> = HashMap::new();
  let mut func_tys: Vec<u32> = Vec::new();
  let mut funcs: Vec<Func> = Vec::new();
  let mut bodies: Vec<FunctionBody> = Vec::new();
  let mut m = Module {
    types: vec![],
    funcs: vec![],
    n_imported_funcs: 0,
    tables: vec![],
    memory: None,
    global_inits: vec![],
    exports: HashMap::new(),
    elems: vec![],
    datas: vec![],
    start: None,
    br_tables: vec![],
    cast_brs: vec![],
    unsupported: vec![],
    vec_helpers: None,
    link_error: None,
  };
  let mut names: HashMap<u32, String> = HashMap::new();
  let es = |e: wasmparser::BinaryReaderError| e.to_string();

  for payload in Parser::new(0).parse_all(bytes) {
    match payload.map_err(es)? {
      Payload::Version { .. } => {}
      Payload::TypeSection(r) => {
        for rg in r {
          let rg = rg.map_err(es)?;
          let start = subtypes.len() as u32;
          let members: Vec<SubType> = rg.types().cloned().collect();
          let len = members.len() as u32;
          let mut key = String::new();
          for st in &members {
            key_subtype(&mut key, st, start, len, &canon);
          }
          let cstart = *group_keys.entry(key).or_insert(start);
          for (i, st) in members.into_iter().enumerate() {
            canon.push(cstart + i as u32);
            let kind = match &st.composite_type.inner {
              CompositeInnerType::Func(f) => {
                Kind::Func { nparams: f.params().len() as u32, nresults: f.results().len() as u32 }
              }
              CompositeInnerType::Struct(s) => Kind::Struct {
                fields: s
                  .fields
                  .iter()
                  .map(|f| {
                    let (st, d, _) = stor_of(f.element_type);
                    (st, d)
                  })
                  .collect(),
              },
              CompositeInnerType::Array(a) => {
                let (stor, default, nb) = stor_of(a.0.element_type);
                Kind::Array { stor, default, numeric_bytes: nb }
              }
              CompositeInnerType::Cont(_) => Kind::Other,
            };
            types.push(TypeDef {
              kind,
              supertype: st.supertype_idx.and_then(|p| p.as_module_index()),
              canon: cstart + i as u32,
            });
            subtypes.push(st);
          }
        }
      }
      Payload::ImportSection(r) => {
        for imp in r.into_imports() {
          let imp = imp.map_err(es)?;
          let full = format!("{}.{}", imp.module, imp.name);
          match imp.ty {
            TypeRef::Func(t) | TypeRef::FuncExact(t) => {
              let (np, nr) = match types.get(t as usize).map(|x| &x.kind) {
                Some(Kind::Func { nparams, nresults }) => (*nparams, *nresults),
                _ => return Err("internal: import type is not a function type".into()),
              };
              let host = match (imp.module, imp.name) {
                ("builtins", "__Process$println") => Some(Host::Println),
                ("builtins", "__Process$panic") => Some(Host::Panic),
                _ => None,
              };
              if host.is_none() && m.link_error.is_none() {
                m.link_error = Some(full.clone());
              }
              func_tys.push(t);
              funcs.push(Func {
                ty: t,
                nparams: np,
                nresults: nr,
                local_defaults: vec![],
                code: vec![],
                name: None,
                host,
                import: Some(full),
              });
            }
            _ => {
              // loader.js supplies only the two functions
              if m.link_error.is_none() {
                m.link_error = Some(full);
              }
            }
          }
        }
        m.n_imported_funcs = funcs.len() as u32;
      }
      Payload::FunctionSection(r) => {
        for t in r {
          let t = t.map_err(es)?;
          let (np, nr) = match types.get(t as usize).map(|x| &x.kind) {
            Some(Kind::Func { nparams, nresults }) => (*nparams, *nresults),
            _ => return Err("internal: function type index is not a function type".into()),
          };
          func_tys.push(t);
          funcs.push(Func {
            ty: t,
            nparams: np,
            nresults: nr,
            local_defaults: vec![],
            code: vec![],
            name: None,
            host: None,
            import: None,
          });
        }
      }
      Payload::TableSection(r) => {
        for t in r {
          let t = t.map_err(es)?;
          let init = match &t.init {
            TableInit::RefNull => Val::Null,
            TableInit::Expr(e) => eval_const(&const_expr(e)?, &[])?,
          };
          if t.ty.table64 {
            return Err("unsupported: 64-bit table".into());
          }
          m.tables.push(TableDef { initial: t.ty.initial, init });
        }
      }
      Payload::MemorySection(r) => {
        for (i, mt) in r.into_iter().enumerate() {
          let mt = mt.map_err(es)?;
          if i > 0 || mt.memory64 || mt.page_size_log2.is_some() {
            return Err("unsupported: multi-memory / memory64 / custom page size".into());
          }
          m.memory = Some((mt.initial, mt.maximum));
        }
      }
      Payload::TagSection(_) => return Err("unsupported: tag section".into()),
      Payload::GlobalSection(r) => {
        for g in r {
          let g = g.map_err(es)?;
          let code = const_expr(&g.init_expr)?;
          let needs_env = code.iter().any(|c| matches!(c, CInstr::Global(_)));
          m.global_inits.push(if needs_env {
            GlobalInit::Expr(code)
          } else {
            GlobalInit::Const(eval_const(&code, &[])?)
          });
        }
      }
      Payload::ExportSection(r) => {
        for e in r {
          let e = e.map_err(es)?;
          m.exports.insert(e.name.to_string(), (e.kind, e.index));
        }
      }
      Payload::StartSection { func, .. } => m.start = Some(func),
      Payload::ElementSection(r) => {
        for e in r {
          let e = e.map_err(es)?;
          let items: Vec<Val> = match &e.items {
            ElementItems::Functions(fs) => {
              let mut v = Vec::new();
              for f in fs.clone() {
                v.push(Val::Func(f.map_err(es)?));
              }
              v
            }
            ElementItems::Expressions(_, xs) => {
              let mut v = Vec::new();
              for x in xs.clone() {
                v.push(eval_const(&const_expr(&x.map_err(es)?)?, &[])?);
              }
              v
            }
          };
          let active = match &e.kind {
            ElementKind::Active { table_index, offset_expr } => {
              Some((table_index.unwrap_or(0), const_u32(offset_expr)?))
            }
            ElementKind::Passive | ElementKind::Declared => None,
          };
          m.elems.push(ElemSeg { active, items });
        }
      }
      Payload::DataCountSection { .. } => {}
      Payload::DataSection(r) => {
        for d in r {
          let d = d.map_err(es)?;
          let active = match &d.kind {
            DataKind::Passive => None,
            DataKind::Active { memory_index, offset_expr } => {
              Some((*memory_index, const_u32(offset_expr)?))
            }
          };
          m.datas.push(DataSeg { bytes: d.data.to_vec(), active });
        }
      }
      Payload::CodeSectionStart { .. } => {}
      Payload::CodeSectionEntry(b) => bodies.push(b),
      Payload::CustomSection(c) => {
        if let KnownCustom::Name(nr) = c.as_known() {
          for n in nr {
            // a malformed name section is not an error for an engine; ignore what cannot be read
            if let Ok(Name::Function(map)) = n {
              for naming in map {
                if let Ok(naming) = naming {
                  names.insert(naming.index, naming.name.to_string());
                }
              }
            }
          }
        }
      }
      Payload::End(_) => {}
      other => return Err(format!("unsupported: module section {other:?}")),
    }
  }
  for (i, f) in funcs.iter_mut().enumerate() {
    f.name = names.get(&(i as u32)).cloned();
  }
  m.types = types;
  m.funcs = funcs;
  Ok(Parsed { subtypes, func_tys, bodies, module: m })
}

// ---------------------------------------------------------------------------------------------
// pre-decoding of function bodies
// ---------------------------------------------------------------------------------------------

struct ArityCtx<'a> {
  subtypes: &'a [SubType],
  func_tys: &'a [u32],
}

impl ModuleArity for ArityCtx<'_> {
  fn sub_type_at(&self, type_idx: u32) -> Option<&SubType> {
    self.subtypes.get(type_idx as usize)
  }
  fn tag_type_arity(&self, _at: u32) -> Option<(u32, u32)> {
    None
  }
  fn type_index_of_function(&self, function_idx: u32) -> Option<u32> {
    self.func_tys.get(function_idx as usize).copied()
  }
  fn func_type_of_cont_type(&self, _c: &wasmparser::ContType) -> Option<&wasmparser::FuncType> {
    None
  }
  fn sub_type_of_ref_type(&self, rt: &RefType) -> Option<&SubType> {
    self.subtypes.get(rt.type_index()?.as_module_index()? as usize)
  }
  fn control_stack_height(&self) -> u32 {
    0
  }
  fn label_block(&self, _depth: u32) -> Option<(BlockType, wasmparser::FrameKind)> {
    None
  }
}

#[derive(Clone, Copy, PartialEq, Eq)]
enum CtlKind {
  Func,
  Block,
  Loop,
  If,
}

enum Fix {
  /// patch `code[i].a`
  Ins(usize),
  /// patch `br_tables[t][e].target`
  Table(usize, usize),
  /// patch `cast_brs[i].br.target`
  Cast(usize),
}

struct Ctl {
  kind: CtlKind,
  base_h: u32,
  nparams: u32,
  nresults: u32,
  unreachable: bool,
  fixups: Vec<Fix>,
  if_ins: Option<usize>,
  loop_start: u32,
}

struct Decoder<'a> {
  actx: ArityCtx<'a>,
  m: &'a mut Module,
  code: Vec<Ins>,
  ctls: Vec<Ctl>,
  h: u32,
}

impl Decoder<'_> {
  fn block_arity(&self, bt: BlockType) -> Result<(u32, u32), String> {
    self.actx.block_type_arity(bt).ok_or_else(|| "internal: bad block type".to_string())
  }

  /// branch descriptor for label `depth`; registers a fixup produced by `mk` for forward labels
  fn label(&mut self, depth: u32, mk: impl FnOnce() -> Fix) -> Result<BrT, String> {
    let n = self.ctls.len();
    if depth as usize >= n {
      return Err("internal: branch depth out of range".into());
    }
    let c = &mut self.ctls[n - 1 - depth as usize];
    if c.kind == CtlKind::Loop {
      Ok(BrT { target: c.loop_start, height: c.base_h, arity: c.nparams })
    } else {
      c.fixups.push(mk());
      Ok(BrT { target: u32::MAX, height: c.base_h, arity: c.nresults })
    }
  }

  fn emit(&mut self, i: Ins) -> usize {
    self.code.push(i);
    self.code.len() - 1
  }

  fn unsupported(&mut self, what: String) {
    let idx = self.m.unsupported.len() as u32;
    self.m.unsupported.push(what);
    self.emit(ins(Op::Unsupported, idx, 0, 0));
  }

  fn patch(&mut self, fixups: Vec<Fix>, target: u32) {
    for f in fixups {
      match f {
        Fix::Ins(i) => self.code[i].a = target,
        Fix::Table(t, e) => self.m.br_tables[t][e].target = target,
        Fix::Cast(i) => self.m.cast_brs[i].br.target = target,
      }
    }
  }

  fn pop_n(&mut self, n: u32) -> Result<(), String> {
    if self.h < n {
      return Err(format!("internal: static operand height underflow ({} < {n})", self.h));
    }
    self.h -= n;
    Ok(())
  }

  fn stor_code(&self, ty: u32, field: Option<u32>) -> u32 {
    let s = match (&self.m.types.get(ty as usize).map(|t| &t.kind), field) {
      (Some(Kind::Struct { fields }), Some(f)) => fields.get(f as usize).map(|x| x.0),
      (Some(Kind::Array { stor, .. }), None) => Some(*stor),
      _ => None,
    };
    match s {
      Some(Stor::I8) => 1,
      Some(Stor::I16) => 2,
      _ => 0,
    }
  }
}

fn decode_function(
  m: &mut Module,
  subtypes: &[SubType],
  func_tys: &[u32],
  fidx: usize,
  body: &FunctionBody,
) -> Result<(), String> {
  let es = |e: wasmparser::BinaryReaderError| e.to_string();
  let nresults = m.funcs[fidx].nresults;
  let mut local_defaults = Vec::new();
  let mut lr = body.get_locals_reader().map_err(es)?;
  for _ in 0..lr.get_count() {
    let (n, ty) = lr.read().map_err(es)?;
    if local_defaults.len() as u64 + n as u64 > 50_000 {
      return Err("unsupported: more than 50000 locals".into());
    }
    for _ in 0..n {
      local_defaults.push(default_of(ty));
    }
  }
  let mut d = Decoder {
    actx: ArityCtx { subtypes, func_tys },
    m,
    code: Vec::new(),
    ctls: vec![Ctl {
      kind: CtlKind::Func,
      base_h: 0,
      nparams: 0,
      nresults,
      unreachable: false,
      fixups: vec![],
      if_ins: None,
      loop_start: 0,
    }],
    h: 0,
  };
  let mut dead_depth = 0u32;
  let mut r = body.get_operators_reader().map_err(es)?;
  while !r.eof() {
    let op = r.read().map_err(es)?;
    if d.ctls.is_empty() {
      return Err("internal: operators after the function's final end".into());
    }
    // ---- dead code: only track nesting -------------------------------------------------------
    if d.ctls.last().unwrap().unreachable {
      match &op {
        Operator::Block { .. }
        | Operator::Loop { .. }
        | Operator::If { .. }
        | Operator::TryTable { .. }
        | Operator::Try { .. } => {
          dead_depth += 1;
          continue;
        }
        Operator::End if dead_depth > 0 => {
          dead_depth -= 1;
          continue;
        }
        Operator::Else if dead_depth > 0 => continue,
        Operator::Else | Operator::End => {}
        _ => continue,
      }
    }
    match op {
      // ---- control ----------------------------------------------------------------------------
      Operator::Unreachable => {
        d.emit(ins(Op::Unreachable, 0, 0, 0));
        d.ctls.last_mut().unwrap().unreachable = true;
      }
      Operator::Nop => {
        d.emit(ins(Op::Nop, 0, 0, 0));
      }
      Operator::Block { blockty } | Operator::Loop { blockty } => {
        let is_loop = matches!(op, Operator::Loop { .. });
        let (np, nr) = d.block_arity(blockty)?;
        if d.h < np {
          return Err("internal: block params exceed operand height".into());
        }
        d.emit(ins(if is_loop { Op::Loop } else { Op::Block }, 0, 0, 0));
        let loop_start = d.code.len() as u32;
        d.ctls.push(Ctl {
          kind: if is_loop { CtlKind::Loop } else { CtlKind::Block },
          base_h: d.h - np,
          nparams: np,
          nresults: nr,
          unreachable: false,
          fixups: vec![],
          if_ins: None,
          loop_start,
        });
      }
      Operator::If { blockty } => {
        let (np, nr) = d.block_arity(blockty)?;
        d.pop_n(1)?;
        if d.h < np {
          return Err("internal: if params exceed operand height".into());
        }
        let i = d.emit(ins(Op::If, u32::MAX, 0, 0));
        d.ctls.push(Ctl {
          kind: CtlKind::If,
          base_h: d.h - np,
          nparams: np,
          nresults: nr,
          unreachable: false,
          fixups: vec![],
          if_ins: Some(i),
          loop_start: 0,
        });
      }
      Operator::Else => {
        let j = d.emit(ins(Op::Else, u32::MAX, 0, 0));
        let after = d.code.len() as u32;
        let c = d.ctls.last_mut().unwrap();
        if c.kind != CtlKind::If {
          return Err("internal: else without if".into());
        }
        c.fixups.push(Fix::Ins(j));
        let if_ins = c.if_ins.take().ok_or("internal: second else")?;
        c.unreachable = false;
        d.h = c.base_h + c.nparams;
        d.code[if_ins].a = after;
      }
      Operator::End => {
        let c = d.ctls.pop().unwrap();
        if d.ctls.is_empty() {
          // function-level end == return; branches to the function label land on it
          let at = d.emit(ins(Op::Return, 0, 0, 0)) as u32;
          d.patch(c.fixups, at);
        } else {
          d.emit(ins(Op::End, 0, 0, 0));
          let after = d.code.len() as u32;
          if let Some(i) = c.if_ins {
            d.code[i].a = after;
          }
          d.patch(c.fixups, after);
        }
        d.h = c.base_h + c.nresults;
      }
      Operator::Br { relative_depth } => {
        let at = d.code.len();
        let b = d.label(relative_depth, || Fix::Ins(at))?;
        d.emit(ins(Op::Br, b.target, b.height, b.arity));
        d.ctls.last_mut().unwrap().unreachable = true;
      }
      Operator::BrIf { relative_depth } => {
        d.pop_n(1)?;
        let at = d.code.len();
        let b = d.label(relative_depth, || Fix::Ins(at))?;
        d.emit(ins(Op::BrIf, b.target, b.height, b.arity));
      }
      Operator::BrTable { targets } => {
        d.pop_n(1)?;
        let t = d.m.br_tables.len();
        d.m.br_tables.push(Vec::new());
        let mut all: Vec<u32> = Vec::new();
        for x in targets.targets() {
          all.push(x.map_err(es)?);
        }
        all.push(targets.default());
        for (e, depth) in all.into_iter().enumerate() {
          let b = d.label(depth, || Fix::Table(t, e))?;
          d.m.br_tables[t].push(b);
        }
        d.emit(ins(Op::BrTable, t as u32, 0, 0));
        d.ctls.last_mut().unwrap().unreachable = true;
      }
      Operator::Return => {
        d.emit(ins(Op::Return, 0, 0, 0));
        d.ctls.last_mut().unwrap().unreachable = true;
      }
      Operator::BrOnNull { relative_depth } => {
        // [t* ref] -> branch with t* when null, else continue with [t* ref]
        d.pop_n(1)?;
        let at = d.code.len();
        let b = d.label(relative_depth, || Fix::Ins(at))?;
        d.emit(ins(Op::BrOnNull, b.target, b.height, b.arity));
        d.h += 1;
      }
      Operator::BrOnNonNull { relative_depth } => {
        // [t* ref] -> branch with [t* ref] when non-null, else continue with t*
        let at = d.code.len();
        let b = d.label(relative_depth, || Fix::Ins(at))?;
        d.emit(ins(Op::BrOnNonNull, b.target, b.height, b.arity));
        d.pop_n(1)?;
      }
      Operator::BrOnCast { relative_depth, to_ref_type, .. }
      | Operator::BrOnCastFail { relative_depth, to_ref_type, .. } => {
        let fail = matches!(op, Operator::BrOnCastFail { .. });
        let ci = d.m.cast_brs.len();
        let b = d.label(relative_depth, || Fix::Cast(ci))?;
        d.m.cast_brs.push(CastBr {
          br: b,
          ht: conv_heap_type(to_ref_type.heap_type()),
          nullable: to_ref_type.is_nullable(),
        });
        d.emit(ins(if fail { Op::BrOnCastFail } else { Op::BrOnCast }, ci as u32, 0, 0));
      }
      Operator::ReturnCall { .. }
      | Operator::ReturnCallIndirect { .. }
      | Operator::ReturnCallRef { .. }
      | Operator::Throw { .. }
      | Operator::ThrowRef
      | Operator::Rethrow { .. } => {
        d.unsupported(format!("{op:?}"));
        d.ctls.last_mut().unwrap().unreachable = true;
      }
      Operator::TryTable { .. }
      | Operator::Try { .. }
      | Operator::Catch { .. }
      | Operator::CatchAll
      | Operator::Delegate { .. } => {
        return Err(format!("unsupported: exception handling construct {op:?}"));
      }
      // ---- everything else: generic stack effect, then translate --------------------------------
      other => {
        let (pops, pushes) = other
          .operator_arity(&d.actx)
          .ok_or_else(|| format!("internal: no arity for {other:?}"))?;
        d.pop_n(pops)?;
        d.h += pushes;
        translate_plain(&mut d, &other)?;
      }
    }
  }
  if !d.ctls.is_empty() {
    return Err("internal: unterminated function body".into());
  }
  let code = std::mem::take(&mut d.code);
  let f = &mut m.funcs[fidx];
  f.code = code;
  f.local_defaults = local_defaults;
  Ok(())
}

fn translate_plain(d: &mut Decoder, op: &Operator) -> Result<(), String> {
  use Operator as O;
  let simple = |o: Op| ins(o, 0, 0, 0);
  let i = match op {
    O::Call { function_index } => ins(Op::Call, *function_index, 0, 0),
    O::CallIndirect { type_index, table_index } => ins(Op::CallIndirect, *type_index, *table_index, 0),
    O::CallRef { type_index } => ins(Op::CallRef, *type_index, 0, 0),
    O::Drop => simple(Op::Drop),
    O::Select | O::TypedSelect { .. } => simple(Op::Select),
    O::LocalGet { local_index } => ins(Op::LocalGet, *local_index, 0, 0),
    O::LocalSet { local_index } => ins(Op::LocalSet, *local_index, 0, 0),
    O::LocalTee { local_index } => ins(Op::LocalTee, *local_index, 0, 0),
    O::GlobalGet { global_index } => ins(Op::GlobalGet, *global_index, 0, 0),
    O::GlobalSet { global_index } => ins(Op::GlobalSet, *global_index, 0, 0),
    O::I32Const { value } => ins(Op::I32Const, *value as u32, 0, 0),
    O::I32Eqz => simple(Op::I32Eqz),
    O::I32Eq => simple(Op::I32Eq),
    O::I32Ne => simple(Op::I32Ne),
    O::I32LtS => simple(Op::I32LtS),
    O::I32LtU => simple(Op::I32LtU),
    O::I32GtS => simple(Op::I32GtS),
    O::I32GtU => simple(Op::I32GtU),
    O::I32LeS => simple(Op::I32LeS),
    O::I32LeU => simple(Op::I32LeU),
    O::I32GeS => simple(Op::I32GeS),
    O::I32GeU => simple(Op::I32GeU),
    O::I32Clz => simple(Op::I32Clz),
    O::I32Ctz => simple(Op::I32Ctz),
    O::I32Popcnt => simple(Op::I32Popcnt),
    O::I32Add => simple(Op::I32Add),
    O::I32Sub => simple(Op::I32Sub),
    O::I32Mul => simple(Op::I32Mul),
    O::I32DivS => simple(Op::I32DivS),
    O::I32DivU => simple(Op::I32DivU),
    O::I32RemS => simple(Op::I32RemS),
    O::I32RemU => simple(Op::I32RemU),
    O::I32And => simple(Op::I32And),
    O::I32Or => simple(Op::I32Or),
    O::I32Xor => simple(Op::I32Xor),
    O::I32Shl => simple(Op::I32Shl),
    O::I32ShrS => simple(Op::I32ShrS),
    O::I32ShrU => simple(Op::I32ShrU),
    O::I32Rotl => simple(Op::I32Rotl),
    O::I32Rotr => simple(Op::I32Rotr),
    O::I32Extend8S => simple(Op::I32Extend8S),
    O::I32Extend16S => simple(Op::I32Extend16S),
    O::I32Load { memarg }
    | O::I32Load8S { memarg }
    | O::I32Load8U { memarg }
    | O::I32Load16S { memarg }
    | O::I32Load16U { memarg }
    | O::I32Store { memarg }
    | O::I32Store8 { memarg }
    | O::I32Store16 { memarg } => {
      if memarg.memory != 0 || memarg.offset > u32::MAX as u64 {
        d.unsupported(format!("{op:?}"));
        return Ok(());
      }
      let o = match op {
        O::I32Load { .. } => Op::I32Load,
        O::I32Load8S { .. } => Op::I32Load8S,
        O::I32Load8U { .. } => Op::I32Load8U,
        O::I32Load16S { .. } => Op::I32Load16S,
        O::I32Load16U { .. } => Op::I32Load16U,
        O::I32Store { .. } => Op::I32Store,
        O::I32Store8 { .. } => Op::I32Store8,
        _ => Op::I32Store16,
      };
      ins(o, memarg.offset as u32, 0, 0)
    }
    O::MemorySize { mem: 0 } => simple(Op::MemorySize),
    O::MemoryGrow { mem: 0 } => simple(Op::MemoryGrow),
    O::DataDrop { data_index } => ins(Op::DataDrop, *data_index, 0, 0),
    O::RefNull { .. } => simple(Op::RefNull),
    O::RefIsNull => simple(Op::RefIsNull),
    O::RefFunc { function_index } => ins(Op::RefFunc, *function_index, 0, 0),
    O::RefEq => simple(Op::RefEq),
    O::RefAsNonNull => simple(Op::RefAsNonNull),
    O::RefTestNonNull { hty } | O::RefTestNullable { hty } => {
      let (c, x) = ht_encode(conv_heap_type(*hty));
      ins(Op::RefTest, c, x, matches!(op, O::RefTestNullable { .. }) as u32)
    }
    O::RefCastNonNull { hty } | O::RefCastNullable { hty } => {
      let (c, x) = ht_encode(conv_heap_type(*hty));
      ins(Op::RefCast, c, x, matches!(op, O::RefCastNullable { .. }) as u32)
    }
    O::RefI31 => simple(Op::RefI31),
    O::I31GetS => simple(Op::I31GetS),
    O::I31GetU => simple(Op::I31GetU),
    O::StructNew { struct_type_index } => {
      let n = match d.m.types.get(*struct_type_index as usize).map(|t| &t.kind) {
        Some(Kind::Struct { fields }) => fields.len() as u32,
        _ => return Err("internal: struct.new on a non-struct type".into()),
      };
      ins(Op::StructNew, *struct_type_index, n, 0)
    }
    O::StructNewDefault { struct_type_index } => ins(Op::StructNewDefault, *struct_type_index, 0, 0),
    O::StructGet { struct_type_index, field_index } => {
      ins(Op::StructGet, *struct_type_index, *field_index, 0)
    }
    O::StructGetS { struct_type_index, field_index } => {
      ins(Op::StructGetS, *struct_type_index, *field_index, d.stor_code(*struct_type_index, Some(*field_index)))
    }
    O::StructGetU { struct_type_index, field_index } => {
      ins(Op::StructGetU, *struct_type_index, *field_index, d.stor_code(*struct_type_index, Some(*field_index)))
    }
    O::StructSet { struct_type_index, field_index } => {
      ins(Op::StructSet, *struct_type_index, *field_index, d.stor_code(*struct_type_index, Some(*field_index)))
    }
    O::ArrayNew { array_type_index } => ins(Op::ArrayNew, *array_type_index, 0, 0),
    O::ArrayNewDefault { array_type_index } => ins(Op::ArrayNewDefault, *array_type_index, 0, 0),
    O::ArrayNewFixed { array_type_index, array_size } => {
      ins(Op::ArrayNewFixed, *array_type_index, *array_size, 0)
    }
    O::ArrayNewData { array_type_index, array_data_index } => {
      ins(Op::ArrayNewData, *array_type_index, *array_data_index, 0)
    }
    O::ArrayGet { array_type_index } => ins(Op::ArrayGet, *array_type_index, 0, 0),
    O::ArrayGetS { array_type_index } => ins(Op::ArrayGetS, *array_type_index, 0, 0),
    O::ArrayGetU { array_type_index } => ins(Op::ArrayGetU, *array_type_index, 0, 0),
    O::ArraySet { array_type_index } => ins(Op::ArraySet, *array_type_index, 0, 0),
    O::ArrayLen => simple(Op::ArrayLen),
    O::ArrayFill { array_type_index } => ins(Op::ArrayFill, *array_type_index, 0, 0),
    O::ArrayCopy { array_type_index_dst, array_type_index_src } => {
      ins(Op::ArrayCopy, *array_type_index_dst, *array_type_index_src, 0)
    }
    O::TableGet { table } => ins(Op::TableGet, *table, 0, 0),
    O::TableSet { table } => ins(Op::TableSet, *table, 0, 0),
    O::TableSize { table } => ins(Op::TableSize, *table, 0, 0),
    other => {
      d.unsupported(format!("{other:?}"));
      return Ok(());
    }
  };
  d.emit(i);
  Ok(())
}

/// locate $__Vec$pop / $__Vec$get / $__Vec$set
fn find_vec_helpers(m: &Module) -> Option<[u32; 3]> {
  let by_name = |n: &str| -> Option<u32> {
    let mut hit = None;
    for (i, f) in m.funcs.iter().enumerate() {
      if f.name.as_deref() == Some(n) {
        if hit.is_some() {
          return None; // ambiguous
        }
        hit = Some(i as u32);
      }
    }
    hit
  };
  if let (Some(p), Some(g), Some(s)) = (by_name("__Vec$pop"), by_name("__Vec$get"), by_name("__Vec$set")) {
    return Some([p, g, s]);
  }
  if m.funcs.iter().any(|f| f.name.is_some()) {
    // there is a name section but it does not name the helpers: do not guess
    return None;
  }
  // no name section: libsam.wat is linked first, so the helpers sit at fixed offsets after the
  // exported $__$strLen (strLen strGet Str$eq getBuiltinString fromInt toInt concat unwrapI31
  // Vec$empty withCapacity of length capacity reserve push pop get set eq)
  let anchor = match m.exports.get("__strLen") {
    Some((ExternalKind::Func, i)) => *i,
    _ => return None,
  };
  let cand = [anchor + 15, anchor + 16, anchor + 17];
  let shape_ok = |f: u32, np: u32| -> bool {
    match m.funcs.get(f as usize) {
      Some(func) => {
        func.nparams == np
          && func.nresults == 1
          && func.code.iter().filter(|i| i.op == Op::Unreachable).count() == 1
      }
      None => false,
    }
  };
  if shape_ok(cand[0], 1) && shape_ok(cand[1], 2) && shape_ok(cand[2], 3) { Some(cand) } else { None }
}

// ---------------------------------------------------------------------------------------------
// runtime
// ---------------------------------------------------------------------------------------------

enum Obj {
  Struct { ty: u32, fields: Box<[Val]> },
  Arr8 { ty: u32, data: Vec<u8> },
  Arr16 { ty: u32, data: Vec<u16> },
  Arr { ty: u32, data: Vec<Val> },
}

impl Obj {
  #[inline(always)]
  fn ty(&self) -> u32 {
    match self {
      Obj::Struct { ty, .. } | Obj::Arr8 { ty, .. } | Obj::Arr16 { ty, .. } | Obj::Arr { ty, .. } => *ty,
    }
  }
  fn len(&self) -> usize {
    match self {
      Obj::Struct { fields, .. } => fields.len(),
      Obj::Arr8 { data, .. } => data.len(),
      Obj::Arr16 { data, .. } => data.len(),
      Obj::Arr { data, .. } => data.len(),
    }
  }
}

#[derive(Clone, Copy)]
struct Frame {
  func: u32,
  pc: u32,
  base: u32,
}

/// why the run stopped (other than a normal return)
enum Stop {
  Trap(&'static str),
  Panic(String),
  StepLimit,
  StackExhausted,
  Harness(String),
}

struct State {
  stack: Vec<Val>,
  frames: Vec<Frame>,
  heap: Vec<Obj>,
  heap_cells: u64,
  globals: Vec<Val>,
  tables: Vec<Vec<Val>>,
  memory: Vec<u8>,
  memory_max_pages: u64,
  has_memory: bool,
  data_dropped: Vec<bool>,
  lines: Vec<String>,
  steps: u64,
  max_depth_seen: usize,
  seen: [bool; 256],
  /// function executing when the run stopped
  cur_func: u32,
}

fn internal(what: &str) -> Stop {
  Stop::Harness(format!("internal: {what}"))
}

impl State {
  #[inline(always)]
  fn pop(&mut self) -> Result<Val, Stop> {
    self.stack.pop().ok_or_else(|| internal("value stack underflow"))
  }
  #[inline(always)]
  fn pop_i32(&mut self) -> Result<i32, Stop> {
    match self.stack.pop() {
      Some(Val::I32(v)) => Ok(v),
      _ => Err(internal("expected i32 operand")),
    }
  }
  #[inline(always)]
  fn push(&mut self, v: Val) {
    self.stack.push(v);
  }

  fn alloc(&mut self, o: Obj) -> Result<Val, Stop> {
    let cells = match &o {
      Obj::Struct { fields, .. } => fields.len() as u64 + 1,
      Obj::Arr8 { data, .. } => data.len() as u64 / 8 + 1,
      Obj::Arr16 { data, .. } => data.len() as u64 / 4 + 1,
      Obj::Arr { data, .. } => data.len() as u64 + 1,
    };
    self.heap_cells += cells;
    if self.heap_cells > HEAP_CELL_BUDGET || self.heap.len() >= u32::MAX as usize {
      return Err(Stop::Harness("resource: heap cell budget exceeded".into()));
    }
    self.heap.push(o);
    Ok(Val::Obj(self.heap.len() as u32 - 1))
  }

  /// does the (possibly null) reference `v` belong to `ht`?  (null handled by the caller)
  #[inline]
  fn ref_matches(&self, m: &Module, v: Val, ht: HT) -> Result<bool, Stop> {
    Ok(match ht {
      HT::Any | HT::Eq => matches!(v, Val::I31(_) | Val::Obj(_)),
      HT::I31 => matches!(v, Val::I31(_)),
      HT::Struct => matches!(v, Val::Obj(o) if matches!(self.heap[o as usize], Obj::Struct { .. })),
      HT::Array => matches!(v, Val::Obj(o) if !matches!(self.heap[o as usize], Obj::Struct { .. })),
      HT::None | HT::NoFunc | HT::NoExtern => false,
      HT::Func => matches!(v, Val::Func(_)),
      HT::Extern | HT::Other => {
        return Err(Stop::Harness("unsupported: cast to extern/exn/cont/exact heap type".into()));
      }
      HT::Concrete(t) => match v {
        Val::Obj(o) => m.is_sub(self.heap[o as usize].ty(), t),
        Val::Func(f) => m.is_sub(m.funcs[f as usize].ty, t),
        _ => false,
      },
    })
  }

  fn new_array(&mut self, m: &Module, ty: u32, len: u32, init: Option<Val>) -> Result<Val, Stop> {
    if len >= MAX_ARRAY_LEN {
      return Err(Stop::Trap("AllocationTooLarge"));
    }
    // charge the budget before materialising the vector
    if self.heap_cells + len as u64 / 8 > HEAP_CELL_BUDGET {
      return Err(Stop::Harness("resource: heap cell budget exceeded".into()));
    }
    let n = len as usize;
    let o = match &m.types[ty as usize].kind {
      Kind::Array { stor: Stor::I8, .. } => {
        let b = match init {
          Some(Val::I32(v)) => v as u8,
          None => 0,
          _ => return Err(internal("array.new init operand")),
        };
        Obj::Arr8 { ty, data: vec![b; n] }
      }
      Kind::Array { stor: Stor::I16, .. } => {
        let b = match init {
          Some(Val::I32(v)) => v as u16,
          None => 0,
          _ => return Err(internal("array.new init operand")),
        };
        Obj::Arr16 { ty, data: vec![b; n] }
      }
      Kind::Array { stor: Stor::Full, default, .. } => {
        if self.heap_cells + len as u64 > HEAP_CELL_BUDGET {
          return Err(Stop::Harness("resource: heap cell budget exceeded".into()));
        }
        Obj::Arr { ty, data: vec![init.unwrap_or(*default); n] }
      }
      _ => return Err(internal("array.new on a non-array type")),
    };
    self.alloc(o)
  }

  #[inline(always)]
  fn array_get(&self, r: Val, idx: i32, mode: u8) -> Result<Val, Stop> {
    let o = match r {
      Val::Obj(o) => o,
      Val::Null => return Err(Stop::Trap("NullReference")),
      _ => return Err(internal("array.get on a non-array value")),
    };
    let i = idx as u32 as usize;
    match &self.heap[o as usize] {
      Obj::Arr8 { data, .. } => match data.get(i) {
        Some(b) => Ok(Val::I32(if mode == 1 { *b as i8 as i32 } else { *b as i32 })),
        None => Err(Stop::Trap("OutOfBoundsArray")),
      },
      Obj::Arr16 { data, .. } => match data.get(i) {
        Some(b) => Ok(Val::I32(if mode == 1 { *b as i16 as i32 } else { *b as i32 })),
        None => Err(Stop::Trap("OutOfBoundsArray")),
      },
      Obj::Arr { data, .. } => match data.get(i) {
        Some(v) => Ok(*v),
        None => Err(Stop::Trap("OutOfBoundsArray")),
      },
      Obj::Struct { .. } => Err(internal("array.get on a struct")),
    }
  }

  #[inline(always)]
  fn array_set(&mut self, r: Val, idx: i32, v: Val) -> Result<(), Stop> {
    let o = match r {
      Val::Obj(o) => o,
      Val::Null => return Err(Stop::Trap("NullReference")),
      _ => return Err(internal("array.set on a non-array value")),
    };
    let i = idx as u32 as usize;
    match (&mut self.heap[o as usize], v) {
      (Obj::Arr8 { data, .. }, Val::I32(x)) => match data.get_mut(i) {
        Some(slot) => *slot = x as u8,
        None => return Err(Stop::Trap("OutOfBoundsArray")),
      },
      (Obj::Arr16 { data, .. }, Val::I32(x)) => match data.get_mut(i) {
        Some(slot) => *slot = x as u16,
        None => return Err(Stop::Trap("OutOfBoundsArray")),
      },
      (Obj::Arr { data, .. }, v) => match data.get_mut(i) {
        Some(slot) => *slot = v,
        None => return Err(Stop::Trap("OutOfBoundsArray")),
      },
      _ => return Err(internal("array.set operand kinds")),
    }
    Ok(())
  }

  fn array_fill(&mut self, r: Val, off: i32, v: Val, n: i32) -> Result<(), Stop> {
    let o = match r {
      Val::Obj(o) => o,
      Val::Null => return Err(Stop::Trap("NullReference")),
      _ => return Err(internal("array.fill on a non-array value")),
    };
    let (off, n) = (off as u32 as u64, n as u32 as u64);
    let obj = &mut self.heap[o as usize];
    if off + n > obj.len() as u64 {
      return Err(Stop::Trap("OutOfBoundsArray"));
    }
    let (a, b) = (off as usize, (off + n) as usize);
    match (obj, v) {
      (Obj::Arr8 { data, .. }, Val::I32(x)) => data[a..b].fill(x as u8),
      (Obj::Arr16 { data, .. }, Val::I32(x)) => data[a..b].fill(x as u16),
      (Obj::Arr { data, .. }, v) => data[a..b].fill(v),
      _ => return Err(internal("array.fill operand kinds")),
    }
    Ok(())
  }

  fn array_copy(&mut self, dst: Val, doff: i32, src: Val, soff: i32, n: i32) -> Result<(), Stop> {
    let (d, s) = match (dst, src) {
      (Val::Null, _) | (_, Val::Null) => return Err(Stop::Trap("NullReference")),
      (Val::Obj(d), Val::Obj(s)) => (d as usize, s as usize),
      _ => return Err(internal("array.copy on non-array values")),
    };
    let (doff, soff, n) = (doff as u32 as u64, soff as u32 as u64, n as u32 as u64);
    if doff + n > self.heap[d].len() as u64 || soff + n > self.heap[s].len() as u64 {
      return Err(Stop::Trap("OutOfBoundsArray"));
    }
    let (doff, soff, n) = (doff as usize, soff as usize, n as usize);
    if d == s {
      match &mut self.heap[d] {
        Obj::Arr8 { data, .. } => data.copy_within(soff..soff + n, doff),
        Obj::Arr16 { data, .. } => data.copy_within(soff..soff + n, doff),
        Obj::Arr { data, .. } => data.copy_within(soff..soff + n, doff),
        Obj::Struct { .. } => return Err(internal("array.copy on a struct")),
      }
      return Ok(());
    }
    // distinct objects: split the heap to borrow both
    let (lo, hi) = (d.min(s), d.max(s));
    let (left, right) = self.heap.split_at_mut(hi);
    let (dobj, sobj) = if d < s { (&mut left[lo], &right[0]) } else { (&mut right[0], &left[lo]) };
    match (dobj, sobj) {
      (Obj::Arr8 { data: dd, .. }, Obj::Arr8 { data: sd, .. }) => {
        dd[doff..doff + n].copy_from_slice(&sd[soff..soff + n])
      }
      (Obj::Arr16 { data: dd, .. }, Obj::Arr16 { data: sd, .. }) => {
        dd[doff..doff + n].copy_from_slice(&sd[soff..soff + n])
      }
      (Obj::Arr { data: dd, .. }, Obj::Arr { data: sd, .. }) => {
        dd[doff..doff + n].copy_from_slice(&sd[soff..soff + n])
      }
      _ => return Err(internal("array.copy between different representations")),
    }
    Ok(())
  }

  /// decode a GC string the way loader.js does: TextDecoder (UTF-8) over the bytes
  fn host_string(&self, v: Val) -> Result<String, Stop> {
    match v {
      Val::Obj(o) => match &self.heap[o as usize] {
        Obj::Arr8 { data, .. } => {
          if data.len() > HOST_STRING_LIMIT {
            return Err(Stop::Harness(format!(
              "inconclusive: host string of {} code units is beyond loader.js's engine-dependent argument-spread limit",
              data.len()
            )));
          }
          // loader.js: `new TextDecoder('utf-8', { ignoreBOM: true }).decode(bytes)` over the low
          // 8 bits of each `__strGet` result: UTF-8 with U+FFFD replacement, BOM kept
          match loader_string_decoding() {
            LoaderDecoding::Utf8 => Ok(String::from_utf8_lossy(data).into_owned()),
            LoaderDecoding::CharCodePerByte => {
              // older loader.js: `String.fromCharCode(...codes)` over the sign-extended bytes:
              // a byte >= 0x80 becomes the UTF-16 unit 0xFF00|byte
              let mut s = String::with_capacity(data.len());
              for b in data {
                if *b < 0x80 { s.push(*b as char) } else { s.push(char::from_u32(0xFF00 | *b as u32).unwrap()) }
              }
              Ok(s)
            }
            LoaderDecoding::Unknown => Err(Stop::Harness("unsupported: string decoding of loader.js not recognised".into())),
          }
        }
        _ => Err(Stop::Harness("unsupported: host string argument is not an i8 array".into())),
      },
      // a null would make `instance.exports.__strLen(arr)` throw a TypeError in the host
      Val::Null => Err(Stop::Trap("NullReference")),
      _ => Err(Stop::Harness("unsupported: host string argument is not a reference".into())),
    }
  }

  #[inline(always)]
  fn mem_range(&self, addr: i32, offset: u32, n: usize) -> Result<usize, Stop> {
    let ea = addr as u32 as u64 + offset as u64;
    if !self.has_memory || ea + n as u64 > self.memory.len() as u64 {
      return Err(Stop::Trap("OutOfBoundsMemory"));
    }
    Ok(ea as usize)
  }
}

/// call function `entry` (which must take no parameters) and run until it returns
fn exec(m: &Module, st: &mut State, entry: u32, limits: &Limits) -> Result<(), Stop> {
  let funcs = &m.funcs;
  let ef = funcs.get(entry as usize).ok_or_else(|| internal("entry function index out of range"))?;
  if ef.import.is_some() {
    return Err(Stop::Harness("unsupported: calling an imported function as entry point".into()));
  }
  if ef.nparams != 0 {
    return Err(Stop::Harness("unsupported: entry function takes parameters".into()));
  }
  if !st.frames.is_empty() {
    return Err(internal("exec re-entered"));
  }
  let mut f = entry;
  st.cur_func = f;
  let stack_floor = st.stack.len();
  let mut base = stack_floor;
  st.stack.extend_from_slice(&ef.local_defaults);
  let mut opbase = st.stack.len();
  let mut code: &[Ins] = &ef.code;
  let mut pc = 0usize;
  if st.max_depth_seen < 1 {
    st.max_depth_seen = 1;
  }
  if limits.max_depth < 1 {
    return Err(Stop::StackExhausted);
  }

  macro_rules! branch {
    ($t:expr, $h:expr, $ar:expr) => {{
      let dst = opbase + $h as usize;
      let ar = $ar as usize;
      let sp = st.stack.len();
      if sp < dst + ar {
        return Err(internal("branch below label height"));
      }
      let src = sp - ar;
      if src != dst {
        for k in 0..ar {
          st.stack[dst + k] = st.stack[src + k];
        }
        st.stack.truncate(dst + ar);
      }
      pc = $t as usize;
    }};
  }
  macro_rules! bin {
    (|$a:ident, $b:ident| $e:expr) => {{
      let $b = st.pop_i32()?;
      let $a = st.pop_i32()?;
      st.push(Val::I32($e));
    }};
  }
  macro_rules! un {
    (|$a:ident| $e:expr) => {{
      let $a = st.pop_i32()?;
      st.push(Val::I32($e));
    }};
  }
  macro_rules! do_call {
    ($callee:expr) => {{
      let callee: u32 = $callee;
      let cf = &funcs[callee as usize];
      if cf.import.is_some() {
        let np = cf.nparams as usize;
        let sp = st.stack.len();
        if np != 2 || sp < opbase + np {
          return Err(Stop::Harness("unsupported: host import with unexpected signature".into()));
        }
        let s = st.host_string(st.stack[sp - 1])?;
        st.stack.truncate(sp - np);
        match cf.host {
          Some(Host::Println) => {
            if st.lines.len() >= limits.max_lines {
              return Err(Stop::StepLimit);
            }
            st.lines.push(s);
            // the JS function returns 0, converted to the declared i32 result
            match cf.nresults {
              0 => {}
              1 => st.push(Val::I32(0)),
              _ => return Err(Stop::Harness("unsupported: multi-result host import".into())),
            }
          }
          Some(Host::Panic) => return Err(Stop::Panic(s)),
          None => return Err(internal("unlinked import reached")),
        }
      } else {
        // depth after the call = callers on the frame stack + the running callee
        if st.frames.len() + 2 > limits.max_depth {
          return Err(Stop::StackExhausted);
        }
        st.frames.push(Frame { func: f, pc: pc as u32, base: base as u32 });
        if st.frames.len() + 1 > st.max_depth_seen {
          st.max_depth_seen = st.frames.len() + 1;
        }
        f = callee;
        st.cur_func = f;
        let np = cf.nparams as usize;
        if st.stack.len() < opbase + np {
          return Err(internal("call with too few operands"));
        }
        base = st.stack.len() - np;
        st.stack.extend_from_slice(&cf.local_defaults);
        opbase = st.stack.len();
        code = &cf.code;
        pc = 0;
      }
    }};
  }

  loop {
    if st.steps >= limits.max_steps {
      return Err(Stop::StepLimit);
    }
    st.steps += 1;
    let i = match code.get(pc) {
      Some(i) => *i,
      None => return Err(internal("pc ran off the end of a function")),
    };
    pc += 1;
    st.seen[i.op as usize] = true;
    match i.op {
      Op::Unreachable => return Err(Stop::Trap("Unreachable")),
      Op::Nop | Op::Block | Op::Loop | Op::End => {}
      Op::If => {
        if st.pop_i32()? == 0 {
          pc = i.a as usize;
        }
      }
      Op::Else => pc = i.a as usize,
      Op::Br => branch!(i.a, i.b, i.c),
      Op::BrIf => {
        if st.pop_i32()? != 0 {
          branch!(i.a, i.b, i.c);
        }
      }
      Op::BrTable => {
        let idx = st.pop_i32()? as u32 as usize;
        let t = &m.br_tables[i.a as usize];
        let b = if idx < t.len() - 1 { t[idx] } else { t[t.len() - 1] };
        branch!(b.target, b.height, b.arity);
      }
      Op::Return => {
        let nr = funcs[f as usize].nresults as usize;
        let sp = st.stack.len();
        if sp < opbase + nr {
          return Err(internal("return with too few operands"));
        }
        let src = sp - nr;
        if src != base {
          for k in 0..nr {
            st.stack[base + k] = st.stack[src + k];
          }
          st.stack.truncate(base + nr);
        }
        match st.frames.pop() {
          None => {
            // results of the entry function are discarded, like an ignored JS return value
            st.stack.truncate(stack_floor);
            return Ok(());
          }
          Some(fr) => {
            f = fr.func;
            st.cur_func = f;
            let cf = &funcs[f as usize];
            base = fr.base as usize;
            opbase = base + cf.nparams as usize + cf.local_defaults.len();
            code = &cf.code;
            pc = fr.pc as usize;
          }
        }
      }
      Op::Call => do_call!(i.a),
      Op::CallIndirect => {
        let idx = st.pop_i32()? as u32 as usize;
        let table = m_table(st, i.b)?;
        let callee = match table.get(idx) {
          None => return Err(Stop::Trap("OutOfBoundsTable")),
          Some(Val::Null) => return Err(Stop::Trap("NullTableEntry")),
          Some(Val::Func(c)) => *c,
          Some(_) => return Err(internal("non-function value in a table used by call_indirect")),
        };
        if !m.is_sub(funcs[callee as usize].ty, i.a) {
          return Err(Stop::Trap("IndirectCallTypeMismatch"));
        }
        do_call!(callee);
      }
      Op::CallRef => {
        let callee = match st.pop()? {
          Val::Null => return Err(Stop::Trap("NullReference")),
          Val::Func(c) => c,
          _ => return Err(internal("call_ref on a non-function value")),
        };
        if !m.is_sub(funcs[callee as usize].ty, i.a) {
          return Err(internal("call_ref callee type is not a subtype of the annotation"));
        }
        do_call!(callee);
      }
      Op::Drop => {
        st.pop()?;
      }
      Op::Select => {
        let c = st.pop_i32()?;
        let b = st.pop()?;
        let a = st.pop()?;
        st.push(if c != 0 { a } else { b });
      }
      Op::LocalGet => {
        let v = st.stack[base + i.a as usize];
        st.push(v);
      }
      Op::LocalSet => {
        let v = st.pop()?;
        st.stack[base + i.a as usize] = v;
      }
      Op::LocalTee => {
        let v = *st.stack.last().ok_or_else(|| internal("local.tee on empty stack"))?;
        st.stack[base + i.a as usize] = v;
      }
      Op::GlobalGet => {
        let v = *st.globals.get(i.a as usize).ok_or_else(|| internal("global index"))?;
        st.push(v);
      }
      Op::GlobalSet => {
        let v = st.pop()?;
        *st.globals.get_mut(i.a as usize).ok_or_else(|| internal("global index"))? = v;
      }
      Op::I32Const => st.push(Val::I32(i.a as i32)),
      Op::I32Eqz => un!(|a| (a == 0) as i32),
      Op::I32Eq => bin!(|a, b| (a == b) as i32),
      Op::I32Ne => bin!(|a, b| (a != b) as i32),
      Op::I32LtS => bin!(|a, b| (a < b) as i32),
      Op::I32LtU => bin!(|a, b| ((a as u32) < (b as u32)) as i32),
      Op::I32GtS => bin!(|a, b| (a > b) as i32),
      Op::I32GtU => bin!(|a, b| ((a as u32) > (b as u32)) as i32),
      Op::I32LeS => bin!(|a, b| (a <= b) as i32),
      Op::I32LeU => bin!(|a, b| ((a as u32) <= (b as u32)) as i32),
      Op::I32GeS => bin!(|a, b| (a >= b) as i32),
      Op::I32GeU => bin!(|a, b| ((a as u32) >= (b as u32)) as i32),
      Op::I32Clz => un!(|a| a.leading_zeros() as i32),
      Op::I32Ctz => un!(|a| a.trailing_zeros() as i32),
      Op::I32Popcnt => un!(|a| a.count_ones() as i32),
      Op::I32Add => bin!(|a, b| a.wrapping_add(b)),
      Op::I32Sub => bin!(|a, b| a.wrapping_sub(b)),
      Op::I32Mul => bin!(|a, b| a.wrapping_mul(b)),
      Op::I32DivS => {
        let b = st.pop_i32()?;
        let a = st.pop_i32()?;
        if b == 0 {
          return Err(Stop::Trap("IntegerDivideByZero"));
        }
        if a == i32::MIN && b == -1 {
          return Err(Stop::Trap("IntegerOverflow"));
        }
        st.push(Val::I32(a.wrapping_div(b)));
      }
      Op::I32DivU => {
        let b = st.pop_i32()?;
        let a = st.pop_i32()?;
        if b == 0 {
          return Err(Stop::Trap("IntegerDivideByZero"));
        }
        st.push(Val::I32(((a as u32) / (b as u32)) as i32));
      }
      Op::I32RemS => {
        let b = st.pop_i32()?;
        let a = st.pop_i32()?;
        if b == 0 {
          return Err(Stop::Trap("IntegerDivideByZero"));
        }
        // INT_MIN rem -1 is 0, not a trap
        st.push(Val::I32(a.wrapping_rem(b)));
      }
      Op::I32RemU => {
        let b = st.pop_i32()?;
        let a = st.pop_i32()?;
        if b == 0 {
          return Err(Stop::Trap("IntegerDivideByZero"));
        }
        st.push(Val::I32(((a as u32) % (b as u32)) as i32));
      }
      Op::I32And => bin!(|a, b| a & b),
      Op::I32Or => bin!(|a, b| a | b),
      Op::I32Xor => bin!(|a, b| a ^ b),
      Op::I32Shl => bin!(|a, b| a.wrapping_shl(b as u32)),
      Op::I32ShrS => bin!(|a, b| a.wrapping_shr(b as u32)),
      Op::I32ShrU => bin!(|a, b| ((a as u32).wrapping_shr(b as u32)) as i32),
      Op::I32Rotl => bin!(|a, b| a.rotate_left(b as u32 & 31)),
      Op::I32Rotr => bin!(|a, b| a.rotate_right(b as u32 & 31)),
      Op::I32Extend8S => un!(|a| a as i8 as i32),
      Op::I32Extend16S => un!(|a| a as i16 as i32),
      Op::I32Load => {
        let addr = st.pop_i32()?;
        let ea = st.mem_range(addr, i.a, 4)?;
        let v = i32::from_le_bytes(st.memory[ea..ea + 4].try_into().unwrap());
        st.push(Val::I32(v));
      }
      Op::I32Load8S | Op::I32Load8U => {
        let addr = st.pop_i32()?;
        let ea = st.mem_range(addr, i.a, 1)?;
        let b = st.memory[ea];
        st.push(Val::I32(if i.op == Op::I32Load8S { b as i8 as i32 } else { b as i32 }));
      }
      Op::I32Load16S | Op::I32Load16U => {
        let addr = st.pop_i32()?;
        let ea = st.mem_range(addr, i.a, 2)?;
        let b = u16::from_le_bytes(st.memory[ea..ea + 2].try_into().unwrap());
        st.push(Val::I32(if i.op == Op::I32Load16S { b as i16 as i32 } else { b as i32 }));
      }
      Op::I32Store | Op::I32Store8 | Op::I32Store16 => {
        let v = st.pop_i32()?;
        let addr = st.pop_i32()?;
        let n = match i.op {
          Op::I32Store => 4,
          Op::I32Store16 => 2,
          _ => 1,
        };
        let ea = st.mem_range(addr, i.a, n)?;
        st.memory[ea..ea + n].copy_from_slice(&v.to_le_bytes()[..n]);
      }
      Op::MemorySize => {
        let pages = (st.memory.len() / 65536) as i32;
        st.push(Val::I32(pages));
      }
      Op::MemoryGrow => {
        let delta = st.pop_i32()? as u32 as u64;
        let cur = (st.memory.len() / 65536) as u64;
        // the interpreter refuses to grow beyond 4096 pages (256 MiB): reported as failure (-1)
        if !st.has_memory || cur + delta > st.memory_max_pages.min(4096) {
          st.push(Val::I32(-1));
        } else {
          st.memory.resize(((cur + delta) * 65536) as usize, 0);
          st.push(Val::I32(cur as i32));
        }
      }
      Op::DataDrop => {
        *st.data_dropped.get_mut(i.a as usize).ok_or_else(|| internal("data index"))? = true;
      }
      Op::RefNull => st.push(Val::Null),
      Op::RefIsNull => {
        let v = st.pop()?;
        st.push(Val::I32(matches!(v, Val::Null) as i32));
      }
      Op::RefFunc => st.push(Val::Func(i.a)),
      Op::RefEq => {
        let b = st.pop()?;
        let a = st.pop()?;
        let eq = match (a, b) {
          (Val::Null, Val::Null) => true,
          (Val::I31(x), Val::I31(y)) => x == y,
          (Val::Obj(x), Val::Obj(y)) => x == y,
          (Val::Null | Val::I31(_) | Val::Obj(_), Val::Null | Val::I31(_) | Val::Obj(_)) => false,
          _ => return Err(internal("ref.eq on non-eq values")),
        };
        st.push(Val::I32(eq as i32));
      }
      Op::RefAsNonNull => match st.stack.last() {
        Some(Val::Null) => return Err(Stop::Trap("NullReference")),
        Some(Val::I31(_) | Val::Obj(_) | Val::Func(_)) => {}
        _ => return Err(internal("ref.as_non_null on a non-reference")),
      },
      Op::BrOnNull => {
        let v = st.pop()?;
        if matches!(v, Val::Null) {
          branch!(i.a, i.b, i.c);
        } else {
          st.push(v);
        }
      }
      Op::BrOnNonNull => {
        let v = st.pop()?;
        if !matches!(v, Val::Null) {
          st.push(v);
          branch!(i.a, i.b, i.c);
        }
      }
      Op::BrOnCast | Op::BrOnCastFail => {
        let cb = m.cast_brs[i.a as usize];
        let v = *st.stack.last().ok_or_else(|| internal("br_on_cast on empty stack"))?;
        let ok = if matches!(v, Val::Null) { cb.nullable } else { st.ref_matches(m, v, cb.ht)? };
        if ok == (i.op == Op::BrOnCast) {
          branch!(cb.br.target, cb.br.height, cb.br.arity);
        }
      }
      Op::RefTest => {
        let v = st.pop()?;
        let ok = if matches!(v, Val::Null) { i.c != 0 } else { st.ref_matches(m, v, ht_decode(i.a, i.b))? };
        st.push(Val::I32(ok as i32));
      }
      Op::RefCast => {
        let v = *st.stack.last().ok_or_else(|| internal("ref.cast on empty stack"))?;
        let ok = if matches!(v, Val::Null) { i.c != 0 } else { st.ref_matches(m, v, ht_decode(i.a, i.b))? };
        if !ok {
          return Err(Stop::Trap("CastFailure"));
        }
      }
      Op::RefI31 => {
        let v = st.pop_i32()?;
        // keep the low 31 bits; stored sign-extended
        st.push(Val::I31((v << 1) >> 1));
      }
      Op::I31GetS | Op::I31GetU => match st.pop()? {
        Val::I31(v) => st.push(Val::I32(if i.op == Op::I31GetS { v } else { v & 0x7fff_ffff })),
        Val::Null => return Err(Stop::Trap("NullReference")),
        _ => return Err(internal("i31.get on a non-i31 value")),
      },
      Op::StructNew => {
        let n = i.b as usize;
        let sp = st.stack.len();
        if sp < opbase + n {
          return Err(internal("struct.new with too few operands"));
        }
        let mut fields: Box<[Val]> = st.stack[sp - n..].into();
        st.stack.truncate(sp - n);
        if let Kind::Struct { fields: fts } = &m.types[i.a as usize].kind {
          for (k, (stor, _)) in fts.iter().enumerate() {
            match (stor, fields[k]) {
              (Stor::Full, _) => {}
              (Stor::I8, Val::I32(x)) => fields[k] = Val::I32(x as u8 as i32),
              (Stor::I16, Val::I32(x)) => fields[k] = Val::I32(x as u16 as i32),
              _ => return Err(internal("packed struct field operand")),
            }
          }
        }
        let v = st.alloc(Obj::Struct { ty: i.a, fields })?;
        st.push(v);
      }
      Op::StructNewDefault => {
        let fields: Box<[Val]> = match &m.types[i.a as usize].kind {
          Kind::Struct { fields } => fields.iter().map(|f| f.1).collect(),
          _ => return Err(internal("struct.new_default on a non-struct type")),
        };
        let v = st.alloc(Obj::Struct { ty: i.a, fields })?;
        st.push(v);
      }
      Op::StructGet | Op::StructGetS | Op::StructGetU => {
        let v = match st.pop()? {
          Val::Obj(o) => match &st.heap[o as usize] {
            Obj::Struct { fields, .. } => {
              *fields.get(i.b as usize).ok_or_else(|| internal("struct field index"))?
            }
            _ => return Err(internal("struct.get on an array")),
          },
          Val::Null => return Err(Stop::Trap("NullReference")),
          _ => return Err(internal("struct.get on a non-struct value")),
        };
        let v = match (i.op, i.c, v) {
          (Op::StructGetS, 1, Val::I32(x)) => Val::I32(x as u8 as i8 as i32),
          (Op::StructGetS, 2, Val::I32(x)) => Val::I32(x as u16 as i16 as i32),
          _ => v,
        };
        st.push(v);
      }
      Op::StructSet => {
        let v = st.pop()?;
        let v = match (i.c, v) {
          (1, Val::I32(x)) => Val::I32(x as u8 as i32),
          (2, Val::I32(x)) => Val::I32(x as u16 as i32),
          _ => v,
        };
        match st.pop()? {
          Val::Obj(o) => match &mut st.heap[o as usize] {
            Obj::Struct { fields, .. } => {
              *fields.get_mut(i.b as usize).ok_or_else(|| internal("struct field index"))? = v
            }
            _ => return Err(internal("struct.set on an array")),
          },
          Val::Null => return Err(Stop::Trap("NullReference")),
          _ => return Err(internal("struct.set on a non-struct value")),
        }
      }
      Op::ArrayNew => {
        let len = st.pop_i32()? as u32;
        let init = st.pop()?;
        let v = st.new_array(m, i.a, len, Some(init))?;
        st.push(v);
      }
      Op::ArrayNewDefault => {
        let len = st.pop_i32()? as u32;
        let v = st.new_array(m, i.a, len, None)?;
        st.push(v);
      }
      Op::ArrayNewFixed => {
        let n = i.b as usize;
        let sp = st.stack.len();
        if sp < opbase + n {
          return Err(internal("array.new_fixed with too few operands"));
        }
        let items: Vec<Val> = st.stack[sp - n..].to_vec();
        st.stack.truncate(sp - n);
        let r = st.new_array(m, i.a, n as u32, None)?;
        for (k, v) in items.into_iter().enumerate() {
          st.array_set(r, k as i32, v)?;
        }
        st.push(r);
      }
      Op::ArrayNewData => {
        let size = st.pop_i32()? as u32;
        let offset = st.pop_i32()? as u32;
        let (stor, eb) = match &m.types[i.a as usize].kind {
          Kind::Array { stor, numeric_bytes, .. } => (*stor, *numeric_bytes),
          _ => return Err(internal("array.new_data on a non-array type")),
        };
        let seg = m.datas.get(i.b as usize).ok_or_else(|| internal("data index"))?;
        let seg_bytes: &[u8] = if st.data_dropped[i.b as usize] { &[] } else { &seg.bytes };
        let end = offset as u64 + size as u64 * eb as u64;
        if end > seg_bytes.len() as u64 {
          return Err(Stop::Trap("OutOfBoundsData"));
        }
        if size >= MAX_ARRAY_LEN {
          return Err(Stop::Trap("AllocationTooLarge"));
        }
        let src = &seg_bytes[offset as usize..end as usize];
        let o = match (stor, eb) {
          (Stor::I8, _) => Obj::Arr8 { ty: i.a, data: src.to_vec() },
          (Stor::I16, _) => Obj::Arr16 {
            ty: i.a,
            data: src.chunks_exact(2).map(|c| u16::from_le_bytes([c[0], c[1]])).collect(),
          },
          (Stor::Full, 4) => {
            // i32 or f32 elements: only i32 is supported
            Obj::Arr {
              ty: i.a,
              data: src
                .chunks_exact(4)
                .map(|c| Val::I32(i32::from_le_bytes([c[0], c[1], c[2], c[3]])))
                .collect(),
            }
          }
          _ => return Err(Stop::Harness("unsupported: array.new_data element type".into())),
        };
        let v = st.alloc(o)?;
        st.push(v);
      }
      Op::ArrayGet | Op::ArrayGetS | Op::ArrayGetU => {
        let idx = st.pop_i32()?;
        let r = st.pop()?;
        let v = st.array_get(r, idx, (i.op == Op::ArrayGetS) as u8)?;
        st.push(v);
      }
      Op::ArraySet => {
        let v = st.pop()?;
        let idx = st.pop_i32()?;
        let r = st.pop()?;
        st.array_set(r, idx, v)?;
      }
      Op::ArrayLen => match st.pop()? {
        Val::Obj(o) => {
          let n = match &st.heap[o as usize] {
            Obj::Struct { .. } => return Err(internal("array.len on a struct")),
            other => other.len(),
          };
          st.push(Val::I32(n as i32));
        }
        Val::Null => return Err(Stop::Trap("NullReference")),
        _ => return Err(internal("array.len on a non-array value")),
      },
      Op::ArrayFill => {
        let n = st.pop_i32()?;
        let v = st.pop()?;
        let off = st.pop_i32()?;
        let r = st.pop()?;
        st.array_fill(r, off, v, n)?;
      }
      Op::ArrayCopy => {
        let n = st.pop_i32()?;
        let soff = st.pop_i32()?;
        let src = st.pop()?;
        let doff = st.pop_i32()?;
        let dst = st.pop()?;
        st.array_copy(dst, doff, src, soff, n)?;
      }
      Op::TableGet => {
        let idx = st.pop_i32()? as u32 as usize;
        let v = match m_table(st, i.a)?.get(idx) {
          Some(v) => *v,
          None => return Err(Stop::Trap("OutOfBoundsTable")),
        };
        st.push(v);
      }
      Op::TableSet => {
        let v = st.pop()?;
        let idx = st.pop_i32()? as u32 as usize;
        match st.tables.get_mut(i.a as usize).ok_or_else(|| internal("table index"))?.get_mut(idx) {
          Some(slot) => *slot = v,
          None => return Err(Stop::Trap("OutOfBoundsTable")),
        }
      }
      Op::TableSize => {
        let n = m_table(st, i.a)?.len() as i32;
        st.push(Val::I32(n));
      }
      Op::Unsupported => {
        return Err(Stop::Harness(format!("unsupported: {}", m.unsupported[i.a as usize])));
      }
    }
  }
}

#[inline(always)]
fn m_table(st: &State, t: u32) -> Result<&Vec<Val>, Stop> {
  st.tables.get(t as usize).ok_or_else(|| internal("table index"))
}

// ---------------------------------------------------------------------------------------------
// instantiate + run
// ---------------------------------------------------------------------------------------------

fn classify(m: &Module, st: &State, stop: Stop, during: &str) -> Ending {
  let at = || {
    let n = m.fname(st.cur_func);
    if during.is_empty() { n } else { format!("{n} ({during})") }
  };
  match stop {
    Stop::Panic(msg) => Ending::Panic(msg),
    Stop::StepLimit => Ending::StepLimit,
    Stop::StackExhausted => Ending::StackExhausted,
    Stop::Harness(msg) => Ending::Harness(format!("{msg} [in {}]", at())),
    Stop::Trap(kind @ ("IntegerDivideByZero" | "IntegerOverflow")) => Ending::ArithTrap(kind.to_string()),
    Stop::Trap("Unreachable") => match m.vec_helpers {
      Some(h) if h.contains(&st.cur_func) => Ending::VecBounds,
      Some(_) => Ending::Fault { kind: "Unreachable".into(), at: at() },
      None => Ending::Harness(format!(
        "unreachable executed in {} but the Vec helper functions could not be identified",
        at()
      )),
    },
    Stop::Trap(kind) => Ending::Fault { kind: kind.to_string(), at: at() },
  }
}

fn finish(st: State, ending: Ending) -> (Trace, WasmRunStats) {
  let mut ub = UbFlags::default();
  if matches!(ending, Ending::ArithTrap(_)) {
    ub.div_zero = true;
  }
  let mut opcodes_seen = BTreeSet::new();
  for (k, s) in st.seen.iter().enumerate() {
    if *s && k < OP_NAMES.len() {
      opcodes_seen.insert(OP_NAMES[k].to_string());
    }
  }
  let stats = WasmRunStats {
    instrs: st.steps,
    max_depth: st.max_depth_seen,
    opcodes_seen,
    gc_allocs: st.heap.len() as u64,
  };
  (Trace { lines: st.lines, ending, ub, steps: st.steps }, stats)
}

fn fresh_state() -> State {
  State {
    stack: Vec::with_capacity(1 << 16),
    frames: Vec::with_capacity(1 << 10),
    heap: Vec::new(),
    heap_cells: 0,
    globals: Vec::new(),
    tables: Vec::new(),
    memory: Vec::new(),
    memory_max_pages: 0,
    has_memory: false,
    data_dropped: Vec::new(),
    lines: Vec::new(),
    steps: 0,
    max_depth_seen: 0,
    seen: [false; 256],
    cur_func: 0,
  }
}

/// everything `new WebAssembly.Instance(module, { builtins })` does, minus the start function
fn instantiate(m: &Module, st: &mut State) -> Result<(), Ending> {
  let fault = |kind: &str, at: String| Ending::Fault { kind: kind.to_string(), at };
  if let Some(imp) = &m.link_error {
    return Err(fault("LinkError", format!("import {imp}")));
  }
  for g in &m.global_inits {
    let v = match g {
      GlobalInit::Const(v) => *v,
      GlobalInit::Expr(code) => eval_const(code, &st.globals).map_err(Ending::Harness)?,
    };
    st.globals.push(v);
  }
  for t in &m.tables {
    if t.initial > 10_000_000 {
      return Err(Ending::Harness("resource: table larger than 10M entries".into()));
    }
    st.tables.push(vec![t.init; t.initial as usize]);
  }
  if let Some((initial, max)) = m.memory {
    if initial > 4096 {
      return Err(Ending::Harness("resource: initial memory larger than 256 MiB".into()));
    }
    st.has_memory = true;
    st.memory = vec![0; initial as usize * 65536];
    st.memory_max_pages = max.unwrap_or(65536);
  }
  for (k, e) in m.elems.iter().enumerate() {
    if let Some((t, off)) = e.active {
      let table = st.tables.get_mut(t as usize).ok_or_else(|| Ending::Harness("internal: elem table".into()))?;
      let end = off as u64 + e.items.len() as u64;
      if end > table.len() as u64 {
        return Err(fault("OutOfBoundsTable", format!("element segment {k} (instantiate)")));
      }
      table[off as usize..end as usize].copy_from_slice(&e.items);
    }
  }
  st.data_dropped = vec![false; m.datas.len()];
  for (k, d) in m.datas.iter().enumerate() {
    if let Some((mem, off)) = d.active {
      let end = off as u64 + d.bytes.len() as u64;
      if mem != 0 || !st.has_memory || end > st.memory.len() as u64 {
        return Err(fault("OutOfBoundsMemory", format!("data segment {k} (instantiate)")));
      }
      st.memory[off as usize..end as usize].copy_from_slice(&d.bytes);
      st.data_dropped[k] = true;
    }
  }
  Ok(())
}

/// Validate, instantiate like loader.js, run the start function, then call `export_name()`.
pub fn run(bytes: &[u8], export_name: &str, limits: &Limits) -> (Trace, WasmRunStats) {
  let mut st = fresh_state();
  if let Err(e) = validate(bytes) {
    return finish(st, Ending::Fault { kind: "InvalidModule".into(), at: e });
  }
  let Parsed { subtypes, func_tys, bodies, module: mut m } = match parse_module(bytes) {
    Ok(p) => p,
    Err(e) => {
      let e = if e.starts_with("unsupported") || e.starts_with("internal") { e } else { format!("parse: {e}") };
      return finish(st, Ending::Harness(e));
    }
  };
  let n_imp = m.n_imported_funcs as usize;
  if bodies.len() + n_imp != m.funcs.len() {
    return finish(st, Ending::Harness("internal: function / code section count mismatch".into()));
  }
  for (k, body) in bodies.iter().enumerate() {
    if let Err(e) = decode_function(&mut m, &subtypes, &func_tys, n_imp + k, body) {
      let name = m.fname((n_imp + k) as u32);
      return finish(st, Ending::Harness(format!("{e} [decoding {name}]")));
    }
  }
  m.vec_helpers = find_vec_helpers(&m);
  let m = m;

  if let Err(ending) = instantiate(&m, &mut st) {
    return finish(st, ending);
  }
  if let Some(s) = m.start {
    if let Err(stop) = exec(&m, &mut st, s, limits) {
      let ending = classify(&m, &st, stop, "start");
      return finish(st, ending);
    }
  }
  let entry = match m.exports.get(export_name) {
    Some((ExternalKind::Func | ExternalKind::FuncExact, idx)) => *idx,
    _ => {
      return finish(st, Ending::Fault { kind: "MissingExport".into(), at: export_name.to_string() });
    }
  };
  st.frames.clear();
  match exec(&m, &mut st, entry, limits) {
    Ok(()) => finish(st, Ending::Return),
    Err(stop) => {
      let ending = classify(&m, &st, stop, "");
      finish(st, ending)
    }
  }
}

/// names of the functions in the module's name section, by index (diagnostics / calibration)
pub fn function_names(bytes: &[u8]) -> Vec<(u32, String)> {
  match parse_module(bytes) {
    Ok(p) => p
      .module
      .funcs
      .iter()
      .enumerate()
      .filter_map(|(i, f)| f.name.clone().map(|n| (i as u32, n)))
      .collect(),
    Err(_) => vec![],
  }
}

#[derive(Clone, Copy, PartialEq, Eq)]
enum LoaderDecoding {
  Utf8,
  CharCodePerByte,
  Unknown,
}

/// How the loader.js of the tree under test turns a GC byte array into a JS string. The host
/// imports are implemented natively here, so the decoding is mirrored from the real file.
fn loader_string_decoding() -> LoaderDecoding {
  static MODE: std::sync::OnceLock<LoaderDecoding> = std::sync::OnceLock::new();
  *MODE.get_or_init(|| {
    let path = format!("{}/crates/samlang-compiler/src/loader.js", crate::front::repo_root());
    match std::fs::read_to_string(path) {
      Ok(t) if t.contains("TextDecoder") && t.contains("utf-8") => LoaderDecoding::Utf8,
      Ok(t) if t.contains("String.fromCharCode(...codes)") => LoaderDecoding::CharCodePerByte,
      _ => LoaderDecoding::Unknown,
    }
  })
}
