//! Histories of language-server operations (update / create / rename-module / remove) over a
//! small set of modules whose contents make dependencies matter. Shared by C10, C11 and C16.
use crate::rng::Rng;
use samlang_errors::CompileTimeError;
use samlang_heap::{Heap, ModuleReference};
use samlang_services::server_state::ServerState;
use std::collections::{BTreeMap, HashMap};

#[derive(Clone, Debug)]
pub enum Op {
  Update(Vec<(String, String)>),
  Rename(Vec<(String, String)>),
  Remove(Vec<String>),
}

impl Op {
  pub fn kind(&self) -> &'static str {
    match self {
      Op::Update(_) => "update",
      Op::Rename(_) => "rename",
      Op::Remove(_) => "remove",
    }
  }
  pub fn touched(&self) -> Vec<String> {
    match self {
      Op::Update(v) => v.iter().map(|x| x.0.clone()).collect(),
      Op::Rename(v) => v.iter().flat_map(|x| [x.0.clone(), x.1.clone()]).collect(),
      Op::Remove(v) => v.clone(),
    }
  }
}

pub const MODULES: &[&str] = &["Alpha", "Beta", "Gamma", "Delta", "pkg.Eps", "pkg.sub.Zeta"];
pub const EXTRA_NAMES: &[&str] = &["Omega", "pkg.Moved", "Theta"];

/// identifier lengthening: names longer than 15 bytes live in the GC-managed part of the heap
pub fn long(s: &str, on: bool) -> String {
  if on { format!("{s}WithAVeryLongSuffix") } else { s.to_string() }
}

fn class_of(module: &str, on: bool) -> String {
  long(module.rsplit('.').next().unwrap(), on)
}

/// A module that uses every syntactic construct once, each with its own identifiers (so that a
/// name often has a single occurrence: a binder nobody reads, a field named only in a pattern, a
/// type parameter used once). With `lng` all identifiers are longer than 15 bytes and live in the
/// collected part of the heap. The text parses; it need not type check.
pub fn zoo(rng: &mut Rng, c: &str, other: &str, oc: &str, lng: bool) -> String {
  let mut k = 0usize;
  let mut id = |stem: &str| {
    k += 1;
    if lng { format!("{stem}{k}WithAVeryLongSuffix") } else { format!("{stem}{k}") }
  };
  let up = |s: String| {
    let mut cs = s.chars();
    cs.next().map(|f| f.to_ascii_uppercase().to_string() + cs.as_str()).unwrap_or_default()
  };
  let en = up(id("choice"));
  let (va, vb, vc) = (up(id("empty")), up(id("single")), up(id("pair")));
  let st = up(id("record"));
  let (f1, f2) = (id("first"), id("second"));
  let itf = up(id("shape"));
  let tp = up(id("elem"));
  let mut members: Vec<String> = Vec::new();
  let m = |members: &mut Vec<String>, text: String| members.push(text);
  // if-let with variant / tuple / object patterns; binders unused or used
  m(&mut members, format!("  function {}({}: {en}): int = if let {vb}({}) = {} {{ 1 }} else {{ 2 }}", id("iflet"), { let p = id("arg"); p.clone() }, id("unusedBinder"), "Zz"));
  let (p1, b1) = (id("arg"), id("usedBinder"));
  m(&mut members, format!("  function {}({p1}: {en}): int = if let {vb}({b1}) = {p1} {{ {b1} }} else {{ 2 }}", id("iflet")));
  let (p2, b2, b3) = (id("arg"), id("left"), id("right"));
  m(&mut members, format!("  function {}({p2}: Pair<int, Str>): int = if let ({b2}, {b3}) = {p2} {{ 3 }} else {{ 4 }}", id("iflet")));
  let (p3, b4) = (id("arg"), id("renamed"));
  m(&mut members, format!("  function {}({p3}: {st}): int = if let {{ {f1} as {b4}, {f2} }} = {p3} {{ 5 }} else {{ 6 }}", id("iflet")));
  // match with or-patterns, nested patterns, wildcard, unused binders
  let (p4, b5, b6, b7) = (id("arg"), id("inner"), id("fst"), id("snd"));
  m(&mut members, format!("  function {}({p4}: {en}): int = match {p4} {{ {va} -> 0, {vb}({b5}) -> 1, {vc}({b6}, {b7}) -> 2 }}", id("matcher")));
  let (p5, b8) = (id("arg"), id("shared"));
  m(&mut members, format!("  function {}({p5}: {en}): int = match {p5} {{ {vb}({b8}) | {vc}({b8}, _) -> {b8}, _ -> 7 }}", id("matcher")));
  let (p6, b9) = (id("arg"), id("deep"));
  m(&mut members, format!("  function {}({p6}: Pair<{en}, {st}>): int = match {p6} {{ ({vc}(_, {b9}), {{ {f1}, {f2} as _ }}) -> 8, _ -> 9 }}", id("matcher")));
  // let destructuring, annotations, lambdas, function types
  let (l1, l2, l3, l4, l5, l6) = (id("local"), id("local"), id("local"), id("lambdaParam"), id("lambdaParam"), id("local"));
  m(
    &mut members,
    format!(
      "  function {}(): int = {{\n    let ({l1}, {l2}) = (1, true);\n    let {{ {f1} as {l3} }}: {st} = {st}.init(1, \"a string literal that is long enough\");\n    let {l6}: (int, Str) -> int = ({l4}: int, {l5}: Str) -> {l4};\n    let _ = ({}) -> 10;\n    {l6}({l1}, \"another long string literal value\")\n  }}",
      id("block"),
      id("untypedParam")
    ),
  );
  // generics, bounds, explicit type arguments, method chains, this, private members
  let (g1, g2, p7, p8) = (up(id("typeParam")), up(id("typeParam")), id("arg"), id("arg"));
  let genf = id("generic");
  m(&mut members, format!("  function <{g1}: {itf}, {g2}> {genf}({p7}: {g1}, {p8}: ({g1}) -> {g2}): {g2} = {p8}({p7})"));
  m(&mut members, format!("  function {}(): int = {c}.{genf}<{st}, int>({st}.init(2, \"s\"), ({}) -> 11)", id("caller"), id("lambdaParam")));
  let (pm, p9) = (id("hidden"), id("arg"));
  m(&mut members, format!("  private method {pm}({p9}: int): int = this.{pm}({p9} - 1)"));
  m(&mut members, format!("  method {}(): Str = {oc}.{}().{}(\"text\") :: \"a string literal that is long enough\"", id("chain"), id("staticMember"), id("instanceMember")));
  // comments of every kind
  m(&mut members, format!("  /** documentation comment that is longer than fifteen bytes */\n  function {}(): unit = {{ /* block comment that is long enough */ }} // trailing line comment, long", id("documented")));
  // constructs with a type error (never a syntax error) whose identifiers occur nowhere else:
  // surplus sub-patterns, unknown and duplicate fields, surplus arguments, unresolved names
  let (pe, e1, e2) = (id("arg"), id("surplusBinder"), id("keptBinder"));
  m(&mut members, format!("  function {}({pe}: {en}): int = match {pe} {{ {vb}({e2}, {e1}) -> 1, {va}({}) -> 2, _ -> 3 }}", id("wrongArity"), id("binderOnNullary")));
  let (pf, e3) = (id("arg"), id("renamedUnknown"));
  m(&mut members, format!("  function {}({pf}: {st}): int = {{ let {{ {f1}, {} as {e3}, {f1} as {} }} = {pf}; 4 }}", id("wrongFields"), id("unknownField"), id("duplicateField")));
  m(&mut members, format!("  function {}(): int = {c}.{genf}(1, 2, {}, {}) + {}", id("wrongCall"), id("unresolvedArgument"), id("anotherUnresolved"), id("unresolvedOperand")));
  let (pg, e4, e5) = (id("arg"), id("tupleSurplus"), id("tupleKept"));
  m(&mut members, format!("  function {}({pg}: Pair<int, Str>): int = {{ let ({e5}, _, {e4}) = {pg}; 5 }}", id("wrongTuple")));
  rng.shuffle(&mut members);
  let keep = 4 + rng.below(members.len() - 3);
  members.truncate(keep);
  let imports = if rng.chance(3, 4) { format!("import {{ {oc} }} from {other}\n") } else { String::new() };
  format!(
    "{imports}interface {itf}<{tp}> {{\n  method {}({}: {tp}): {tp}\n}}\nclass {en}({va}, {vb}(int), {vc}(int, Str)) {{}}\nclass {st}(val {f1}: int, val {f2}: Str) : {itf}<int> {{\n  method {}({}: int): int = this.{f1}\n}}\nclass {c} {{\n{}\n}}\n",
    id("required"),
    id("arg"),
    id("required"),
    id("arg"),
    members.join("\n")
  )
}

/// module contents; `others` are module names that may be imported
pub fn content(rng: &mut Rng, me: &str, others: &[&str], lng: bool) -> String {
  let c = class_of(me, lng);
  let other = *rng.pick(others);
  let oc = class_of(other, lng);
  let f = long("compute", lng);
  let g = long("other", lng);
  let p = long("param", lng);
  let q = long("unusedParam", lng);
  let v = long("local", lng);
  let fld = long("field", lng);
  let tp = if lng { "TypeParamWithLongName" } else { "T" };
  let imp = |names: &str, from: &str| format!("import {{ {names} }} from {from}\n");
  // a member that only interfaces declare (no class defines it, callers reach it through the
  // interface type)
  let iface_only = long("declaredOnlyByTheInterface", lng);
  // declarations often carry documentation
  let doc = if rng.chance(1, 3) { "/** documentation comment of the declaration, long enough */\n" } else { "" };
  let text = match rng.below(29) {
    16..=20 => zoo(rng, &c, other, &oc, lng),
    // caller of a member that other's interface declares
    21 | 22 => format!("{}class {c} {{\n  function {g}({p}: {oc}): int = {p}.{iface_only}() + {p}.{f}()\n}}\n", imp(&oc, other)),
    23 => format!("{}interface {c} : {oc} {{\n  method {iface_only}(): int\n}}\n", imp(&oc, other)),
    // an interface whose super type is a class of the same module (reported when an implementer in
    // ANOTHER module is checked), next to an error of its own
    24 => format!("class {c}Base {{ function {g}(): int = \"a string where an int is expected\" }}\ninterface {c} : {c}Base {{\n  method {f}(): int\n}}\n"),
    // hands out values of other's struct class (27) / uses what another module hands out (28):
    // the user depends on a module it does not import
    27 => format!("{}class {c} {{\n  function {f}(): int = 7\n  function handOut(): {oc} = {oc}.make()\n}}\n", imp(&oc, other)),
    28 => format!("{}class {c} {{\n  function {g}(): int = {{\n    let {{ {fld} as {v}, {} }} = {oc}.handOut();\n    {oc}.handOut().{f}() + {v}\n  }}\n}}\n", imp(&oc, other), long("anotherFieldOfTheStruct", lng)),
    // importer of two modules: implements other's interface and calls into a second module
    25 | 26 => {
      let other2 = *rng.pick(others);
      let oc2 = class_of(other2, lng);
      format!("{}{}class {c} : {oc} {{\n  method {f}(): int = {oc2}.{f}() + 9\n}}\n", imp(&oc, other), if other2 != other { imp(&oc2, other2) } else { String::new() })
    }
    // exporter with member f returning int
    0 => format!("class {c} {{\n  function {f}(): int = 1\n  function {g}({p}: int, {q}: Str): int = {p}\n}}\n"),
    // exporter where f is missing / has another type
    1 => format!("class {c} {{\n  function {g}({p}: int): Str = \"a string literal that is long enough\"\n}}\n"),
    2 => format!("class {c} {{\n  function {f}(): Str = \"changed return type of the function\"\n}}\n"),
    // importer that uses other.f() as int
    3 => format!("{}class {c} {{\n  function {g}({p}: int): int = {oc}.{f}() + {p}\n}}\n", imp(&oc, other)),
    // importer whose typing depends on the imported signature
    4 => format!("{}class {c} {{\n  function {g}(): Str = {oc}.{f}()\n  function {f}(): int = 2\n}}\n", imp(&oc, other)),
    // syntax error
    5 => format!("class {c} {{\n  function {f}(: int = \n}}\n"),
    // syntax error AND import (dependent that cannot be parsed)
    6 => format!("{}class {c} {{\n  function {g}(): int = {oc}.{f}( +\n}}\n", imp(&oc, other)),
    // self import
    7 => format!("{}class {c} {{\n  function {f}(): int = 3\n}}\n", imp(&c, me)),
    // missing module / missing export
    8 => format!("{}{}class {c} {{\n  function {f}(): int = 4\n}}\n", imp("Nothing", "no.such.Module"), imp(&format!("{oc}, NotExported"), other)),
    // struct class that mentions itself, with a field and a method
    9 => format!("class {c}(val {fld}: int) {{\n  function make(): {c} = {c}.init(5)\n  method {f}(): int = this.{fld}\n  function {g}({p}: {c}): {c} = {p}\n}}\n"),
    // enum class + match, generic
    10 => format!("class {c}<{tp}>(NoneValue, SomeValue({tp})) {{\n  method <R> {f}({p}: ({tp}) -> R, {q}: R): R = match this {{ NoneValue -> {q}, SomeValue({v}) -> {p}({v}) }}\n}}\n"),
    // interface
    11 => format!("interface {c} {{\n  method {f}(): int\n  method {iface_only}(): int\n}}\n"),
    // implementer of other's interface (ok / missing member / wrong type)
    12 => format!("{}class {c} : {oc} {{\n  method {f}(): int = 6\n}}\n", imp(&oc, other)),
    13 => format!("{}class {c} : {oc} {{\n  method {g}(): int = 7\n}}\n", imp(&oc, other)),
    // exports the same class name as another module
    14 => format!("class {oc} {{\n  function {f}(): bool = true\n}}\nclass {c} {{ function {f}(): int = 8 }}\n"),
    // locals, lambda, comments, string literal, unresolved names
    _ => format!(
      "// a line comment that is longer than fifteen bytes\n{}class {c} {{\n  /** documentation comment of the function */\n  function {f}({p}: int): int = {{\n    let {v} = ({q}: int) -> {q} + {p};\n    let _ = \"string literal kept in the heap\";\n    {v}({oc}.{f}()) + undefinedNameThatIsLong\n  }}\n}}\n",
      imp(&oc, other)
    ),
  };
  // the documentation goes in front of the first declaration (after the imports)
  if doc.is_empty() {
    return text;
  }
  match text.find("class ").into_iter().chain(text.find("interface ")).min() {
    Some(at) if at == 0 || text[..at].ends_with('\n') => format!("{}{doc}{}", &text[..at], &text[at..]),
    _ => text,
  }
}

pub fn gen_history(rng: &mut Rng, len: usize, lng: bool) -> (Vec<(String, String)>, Vec<Op>) {
  let nmods = 2 + rng.below(MODULES.len() - 1);
  let mods: Vec<&str> = MODULES[..nmods].to_vec();
  let mut initial = Vec::new();
  for m in &mods {
    if rng.chance(4, 5) {
      initial.push((m.to_string(), content(rng, m, &mods, lng)));
    }
  }
  let mut present: Vec<String> = initial.iter().map(|x| x.0.clone()).collect();
  let mut ops = Vec::new();
  let all_names: Vec<&str> = MODULES[..nmods].iter().chain(EXTRA_NAMES.iter()).copied().collect();
  for _ in 0..len {
    let r = rng.below(100);
    if r < 62 || present.is_empty() {
      let k = if rng.chance(1, 5) { 2 } else { 1 };
      let mut ups = Vec::new();
      for _ in 0..k {
        let m = *rng.pick(&all_names);
        if ups.iter().any(|(n, _): &(String, String)| n == m) {
          continue; // one document appears at most once in a change notification
        }
        ups.push((m.to_string(), content(rng, m, &all_names, lng)));
        if !present.contains(&m.to_string()) {
          present.push(m.to_string());
        }
      }
      ops.push(Op::Update(ups));
    } else if r < 82 {
      let from = if rng.chance(5, 6) { rng.pick(&present).clone() } else { rng.pick(&all_names).to_string() };
      let to = rng.pick(&all_names).to_string();
      if present.contains(&from) {
        present.retain(|x| *x != from);
        if !present.contains(&to) {
          present.push(to.clone());
        }
      }
      ops.push(Op::Rename(vec![(from, to)]));
    } else {
      let k = if rng.chance(1, 6) { 2 } else { 1 };
      let mut rm = Vec::new();
      for _ in 0..k {
        let m = if rng.chance(5, 6) && !present.is_empty() { rng.pick(&present).clone() } else { rng.pick(&all_names).to_string() };
        present.retain(|x| *x != m);
        rm.push(m);
      }
      ops.push(Op::Remove(rm));
    }
  }
  (initial, ops)
}

pub fn render_history(initial: &[(String, String)], ops: &[Op]) -> String {
  let mut s = String::from("initial state (ServerState::new):\n");
  for (m, t) in initial {
    s.push_str(&format!("--- {m} ---\n{t}\n"));
  }
  for (i, op) in ops.iter().enumerate() {
    match op {
      Op::Update(v) => {
        s.push_str(&format!("step {i}: update {:?}\n", v.iter().map(|x| &x.0).collect::<Vec<_>>()));
        for (m, t) in v {
          s.push_str(&format!("--- {m} ---\n{t}\n"));
        }
      }
      Op::Rename(v) => s.push_str(&format!("step {i}: rename_module {:?}\n", v)),
      Op::Remove(v) => s.push_str(&format!("step {i}: remove {:?}\n", v)),
    }
  }
  s
}

pub fn mref(heap: &mut Heap, name: &str) -> ModuleReference {
  crate::front::mod_ref(heap, name)
}

pub fn new_state(initial: &[(String, String)]) -> ServerState {
  let mut heap = Heap::new();
  let sources: HashMap<ModuleReference, String> = initial.iter().map(|(m, t)| (mref(&mut heap, m), t.clone())).collect();
  ServerState::new(heap, false, sources)
}

pub fn apply(state: &mut ServerState, op: &Op) {
  match op {
    Op::Update(v) => {
      let ups = v.iter().map(|(m, t)| (mref(&mut state.heap, m), t.clone())).collect();
      state.update(ups);
    }
    Op::Rename(v) => {
      let rs = v.iter().map(|(a, b)| (mref(&mut state.heap, a), mref(&mut state.heap, b))).collect();
      state.rename_module(rs);
    }
    Op::Remove(v) => {
      let ms: Vec<ModuleReference> = v.iter().map(|m| mref(&mut state.heap, m)).collect();
      state.remove(&ms);
    }
  }
}

fn render_loc(heap: &Heap, l: &samlang_ast::Location) -> String {
  format!("{}:{}:{}-{}:{}", l.module_reference.pretty_print(heap), l.start.0, l.start.1, l.end.0, l.end.1)
}

pub fn render_error(state: &ServerState, e: &CompileTimeError) -> (String, String) {
  let f = e.to_ide_format(&state.heap, &state.string_sources);
  let refs: Vec<String> = f.reference_locs.iter().map(|l| render_loc(&state.heap, l)).collect();
  // bullet lists inside a message (missing members, missing bindings) are printed in hash-map
  // order: compare them as sets (order dependence on hashing is C12's subject, not C10's)
  let mut head: Vec<&str> = Vec::new();
  let mut bullets: Vec<&str> = Vec::new();
  for l in f.ide_error.lines() {
    if l.starts_with("- `") { bullets.push(l) } else { head.push(l) }
  }
  bullets.sort();
  let msg = format!("{}{}{}", head.join("\n"), if bullets.is_empty() { "" } else { "\n" }, bullets.join("\n"));
  (crate::pipeline::detail_kind(&e.detail), format!("{} | {} | refs={:?}", render_loc(&state.heap, &f.location), msg, refs))
}

/// module name -> sorted rendered diagnostics (kind, text)
pub fn diagnostics(state: &ServerState) -> BTreeMap<String, Vec<(String, String)>> {
  let mut out = BTreeMap::new();
  for m in state.all_modules() {
    let mut v: Vec<(String, String)> = state.get_errors(m).iter().map(|e| render_error(state, e)).collect();
    v.sort();
    out.insert(m.pretty_print(&state.heap), v);
  }
  out
}

/// a freshly started server on the same file contents
pub fn fresh_like(state: &ServerState) -> ServerState {
  let sources: Vec<(String, String)> = state.string_sources.iter().map(|(m, t)| (m.pretty_print(&state.heap), t.clone())).collect();
  new_state(&sources)
}

/// direct import relation by text (module name -> names it imports), from the current sources
pub fn imports_of(state: &ServerState) -> BTreeMap<String, Vec<String>> {
  let mut out = BTreeMap::new();
  for (m, t) in &state.string_sources {
    let mut v = Vec::new();
    for l in t.lines() {
      if let Some(rest) = l.trim().strip_prefix("import") {
        if let Some(from) = rest.split(" from ").nth(1) {
          v.push(from.trim().trim_end_matches(';').trim().to_string());
        }
      }
    }
    out.insert(m.pretty_print(&state.heap), v);
  }
  out
}

/// Many modules with many distinct long identifiers: more than 10 000 heap strings and more than
/// 100 modules, so that the language server's incremental mark (100 modules per slice) and sweep
/// (10 000 slots per slice) really run in slices and the sweep cursor wraps.
pub fn bulk_initial(rng: &mut Rng, nmods: usize, fns_per_mod: usize) -> Vec<(String, String)> {
  let mut out = Vec::new();
  for m in 0..nmods {
    let name = format!("bulk.Module{m}");
    let class = format!("BulkClassNumber{m}WithLongName");
    let mut t = String::new();
    if m > 0 && rng.chance(2, 3) {
      let d = rng.below(m);
      t.push_str(&format!("import {{ BulkClassNumber{d}WithLongName }} from bulk.Module{d}\n"));
    }
    t.push_str(&format!("class {class} {{\n"));
    for f in 0..fns_per_mod {
      t.push_str(&format!(
        "  function functionNumber{m}x{f}WithLongName(parameterNumber{m}x{f}WithLongName: int, unusedParameter{m}x{f}WithLongName: Str): int = {{ let localVariable{m}x{f}WithLongName = parameterNumber{m}x{f}WithLongName + {f}; localVariable{m}x{f}WithLongName }}\n"
      ));
    }
    t.push_str("}\n");
    out.push((name, t));
  }
  out
}

pub fn bulk_history(rng: &mut Rng, nmods: usize, fns_per_mod: usize, len: usize) -> (Vec<(String, String)>, Vec<Op>) {
  let initial = bulk_initial(rng, nmods, fns_per_mod);
  let mut ops = Vec::new();
  for i in 0..len {
    let m = rng.below(nmods);
    match rng.below(6) {
      0 => ops.push(Op::Remove(vec![format!("bulk.Module{m}")])),
      1 => ops.push(Op::Rename(vec![(format!("bulk.Module{m}"), format!("bulk.Moved{i}"))])),
      _ => {
        // re-create the module with fresh names so that old strings become garbage
        let mut t = format!("class BulkClassNumber{m}WithLongName {{\n");
        for f in 0..fns_per_mod {
          t.push_str(&format!("  function regeneratedFunction{i}x{m}x{f}LongName(regeneratedParameter{i}x{m}x{f}Long: int): int = regeneratedParameter{i}x{m}x{f}Long\n"));
        }
        t.push_str("}\n");
        ops.push(Op::Update(vec![(format!("bulk.Module{m}"), t)]));
      }
    }
  }
  (initial, ops)
}
