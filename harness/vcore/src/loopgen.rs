//! Family of counted loops aimed at the loop optimizer (induction analysis, algebraic
//! optimization, induction variable elimination, strength reduction, invariant code motion):
//! tail-recursive functions over a basic induction variable with every guard operator in both
//! operand orders, positive / negative / large strides, bounds and start values near 0 and near the
//! 32-bit limits, derived induction variables that are unused / used through a let / passed
//! directly as the next value of another loop variable, one to three accumulators.
//!
//! Every loop is simulated here in wrapping 32-bit arithmetic first; a loop that would run more than
//! `MAX_TRIPS` iterations is regenerated, so all generated programs terminate quickly.

use crate::front::Project;
use crate::rng::Rng;

const MAX_TRIPS: usize = 4000;
/// in `wild` programs a loop may also wrap around the 32-bit range once or twice before its guard fails
const MAX_TRIPS_WILD: usize = 60_000;

#[derive(Clone, Copy, PartialEq, Debug)]
enum Cmp {
  Lt,
  Le,
  Gt,
  Ge,
  Eq,
  Ne,
}

impl Cmp {
  fn text(self) -> &'static str {
    match self {
      Cmp::Lt => "<",
      Cmp::Le => "<=",
      Cmp::Gt => ">",
      Cmp::Ge => ">=",
      Cmp::Eq => "==",
      Cmp::Ne => "!=",
    }
  }
  fn eval(self, a: i32, b: i32) -> bool {
    match self {
      Cmp::Lt => a < b,
      Cmp::Le => a <= b,
      Cmp::Gt => a > b,
      Cmp::Ge => a >= b,
      Cmp::Eq => a == b,
      Cmp::Ne => a != b,
    }
  }
}

fn lit(v: i32) -> String {
  if v < 0 {
    format!("({v})")
  } else {
    format!("{v}")
  }
}

struct LoopSpec {
  cmp: Cmp,
  i_on_left: bool,
  negated: bool, // guard written as !(i op' B) with the complementary operator
  start: i32,
  stride: i32,
  bound: i32,
  bound_is_param: bool,
  opaque_start: bool,
  /// derived variable (c1, c2, c3): (i + c1) * c2 + c3; shape selects how it is written
  derived: Option<(i32, i32, i32, u8)>,
  /// 0 unused, 1 added to an accumulator through a let, 2 passed directly as a loop variable
  derived_use: u8,
  accs: usize,
  acc_uses_i: bool,
  ret: u8, // 0 acc0, 1 i, 2 constant, 3 acc0 + acc1 (or acc0), 4 text
  swap_branches: bool,
}

fn small(rng: &mut Rng) -> i32 {
  *rng.pick(&[0, 1, -1, 2, -2, 3, 5, 7, -7, 10, 16, 31, 100])
}

/// a pure counting loop that runs into the end of the 32-bit range: the bound lies within one
/// stride of INT_MIN (descending) / INT_MAX (ascending), so the counter wraps around before the
/// guard can fail, and the loop takes one or more laps
fn boundary_lap_spec(rng: &mut Rng) -> LoopSpec {
  // draw until the wrapped run ends within the iteration budget (small strides need too many laps)
  let mut spec = boundary_lap_spec_once(rng);
  for _ in 0..40 {
    if trips_of(&spec, true).is_some() {
      break;
    }
    spec = boundary_lap_spec_once(rng);
  }
  spec
}

fn boundary_lap_spec_once(rng: &mut Rng) -> LoopSpec {
  let mag = *rng.pick(&[100_003i32, 249_300, 250_000, 1_000_003, 500_000, 65_537, 123_457, 7]);
  let down = rng.bool();
  let stride = if down { -mag } else { mag };
  let slack = rng.below(mag as usize) as i32;
  let bound = if down { i32::MIN.wrapping_add(slack) } else { i32::MAX.wrapping_sub(slack) };
  let cmp = if down { *rng.pick(&[Cmp::Gt, Cmp::Ge]) } else { *rng.pick(&[Cmp::Lt, Cmp::Le]) };
  let trips_before_wrap = 1 + rng.below(600) as i32;
  let start = bound.wrapping_sub(stride.wrapping_mul(trips_before_wrap)).wrapping_add(rng.range(-3, 3) as i32);
  LoopSpec {
    cmp,
    i_on_left: rng.bool(),
    negated: rng.chance(1, 8),
    start,
    stride,
    bound,
    bound_is_param: false,
    opaque_start: rng.chance(1, 3),
    derived: None,
    derived_use: 0,
    accs: 1 + rng.below(2),
    acc_uses_i: false,
    ret: *rng.pick(&[0u8, 0, 0, 2, 3]),
    swap_branches: rng.chance(1, 6),
  }
}

fn pick_spec(rng: &mut Rng, wild: bool) -> LoopSpec {
  if wild && rng.chance(1, 3) {
    return boundary_lap_spec(rng);
  }
  let strides: &[i32] = if wild { &[1, -1, 2, -2, 3, -3, 7, -7, 1 << 29, -(1 << 29), 1_000_000_000, -1_000_000_000, 100_003, -100_003, 249_300, -249_300, 1_000_003, -1_000_003] } else { &[1, -1, 2, -2, 3, -3, 7, -7] };
  let anchors: &[i32] = if wild { &[0, 7, -7, 1 << 30, -(1 << 30), i32::MAX, i32::MIN, i32::MAX - 9, i32::MIN + 9, 100, -100] } else { &[0, 7, -7, 100, -100, 1000, -28, 64] };
  let cmp = *rng.pick(&[Cmp::Lt, Cmp::Le, Cmp::Gt, Cmp::Ge, Cmp::Ne, Cmp::Lt, Cmp::Gt, Cmp::Le, Cmp::Ge, Cmp::Eq]);
  let stride = *rng.pick(strides);
  let start = rng.pick(anchors).wrapping_add(rng.range(-3, 3) as i32);
  // mostly short loops; some run long enough to survive the unrolling of their first iterations
  let trips = match rng.below(10) {
    0..=6 => rng.below(40),
    7 | 8 => 100 + rng.below(300),
    _ => 1000 + rng.below(2000),
  } as i32;
  // either the start or the bound sits at an anchor; the other end follows from the trip count
  let bound_anchored = rng.chance(1, 2);
  let start = if bound_anchored { rng.pick(anchors).wrapping_add(rng.range(-3, 3) as i32).wrapping_sub(stride.wrapping_mul(trips)) } else { start };
  // aim the bound so that the guard fails after about `trips` iterations when the direction fits
  let mut bound = start.wrapping_add(stride.wrapping_mul(trips));
  if !matches!(cmp, Cmp::Ne | Cmp::Eq) && rng.chance(1, 2) {
    bound = bound.wrapping_add(rng.range(-2, 2) as i32);
  }
  if rng.chance(1, 8) {
    bound = *rng.pick(anchors);
  }
  let derived = if rng.chance(3, 4) {
    let c1 = if rng.chance(1, 2) { 0 } else if wild && rng.chance(1, 3) { *rng.pick(&[-1073741823, 2147483548, -1000000000]) } else { small(rng) };
    let c2 = if rng.chance(1, 3) { 1 } else if wild && rng.chance(1, 4) { *rng.pick(&[1000, 268435456, -65536]) } else { *rng.pick(&[2, 3, -1, -2, 6, 0, 10, -3]) };
    let c3 = if rng.chance(1, 2) { 0 } else { small(rng) };
    Some((c1, c2, c3, rng.below(6) as u8))
  } else {
    None
  };
  LoopSpec {
    cmp,
    i_on_left: rng.chance(1, 2),
    negated: rng.chance(1, 5),
    start,
    stride,
    bound,
    bound_is_param: rng.chance(1, 3),
    opaque_start: rng.chance(1, 2),
    derived,
    derived_use: rng.below(3) as u8,
    accs: 1 + rng.below(3),
    acc_uses_i: rng.chance(1, 3),
    ret: rng.below(5) as u8,
    swap_branches: rng.chance(1, 6),
  }
}

fn trips_of(s: &LoopSpec, wild: bool) -> Option<usize> {
  let mut i = s.start;
  for t in 0..=(if wild { MAX_TRIPS_WILD } else { MAX_TRIPS }) {
    if !s.cmp.eval(i, s.bound) {
      return Some(t);
    }
    i = i.wrapping_add(s.stride);
  }
  None
}

fn derived_text(d: (i32, i32, i32, u8)) -> String {
  let (c1, c2, c3, shape) = d;
  let base = match shape % 3 {
    0 => format!("(i + {}) * {}", lit(c1), lit(c2)),
    1 => format!("{} * ({} + i)", lit(c2), lit(c1)),
    _ => {
      if c1 == 0 {
        format!("i * {}", lit(c2))
      } else {
        format!("(i + {})", lit(c1))
      }
    }
  };
  if c3 == 0 || shape >= 3 { base } else { format!("{base} + {}", lit(c3)) }
}

fn render_loop(k: usize, s: &LoopSpec) -> (String, String) {
  let name = format!("l{k}");
  let mut params = vec!["i: int".to_string()];
  if s.bound_is_param {
    params.push("n: int".into());
  }
  for a in 0..s.accs {
    params.push(format!("acc{a}: int"));
  }
  let direct = s.derived.is_some() && s.derived_use == 2;
  if direct {
    params.push("prev: int".into());
  }
  let b = if s.bound_is_param { "n".to_string() } else { lit(s.bound) };
  let complement = |c: Cmp| match c {
    Cmp::Lt => Cmp::Ge,
    Cmp::Le => Cmp::Gt,
    Cmp::Gt => Cmp::Le,
    Cmp::Ge => Cmp::Lt,
    Cmp::Eq => Cmp::Ne,
    Cmp::Ne => Cmp::Eq,
  };
  let mirror = |c: Cmp| match c {
    Cmp::Lt => Cmp::Gt,
    Cmp::Le => Cmp::Ge,
    Cmp::Gt => Cmp::Lt,
    Cmp::Ge => Cmp::Le,
    c => c,
  };
  // the continue-condition is `i cmp bound`
  let (mut op, neg) = if s.negated { (complement(s.cmp), true) } else { (s.cmp, false) };
  let cond = if s.i_on_left {
    format!("i {} {b}", op.text())
  } else {
    op = mirror(op);
    format!("{b} {} i", op.text())
  };
  let cond = if neg { format!("!({cond})") } else { cond };
  let mut body = String::new();
  let mut args = vec![format!("i + {}", lit(s.stride))];
  if s.bound_is_param {
    args.push("n".into());
  }
  let dv = s.derived.map(derived_text);
  if let (Some(d), true) = (&dv, s.derived_use <= 1) {
    body.push_str(&format!("let dv = {d}; "));
  }
  for a in 0..s.accs {
    let upd = match (a, s.derived_use, dv.is_some()) {
      (0, 1, true) => "acc0 + dv".to_string(),
      (0, _, _) => {
        if s.acc_uses_i { "acc0 + i".to_string() } else { "acc0 + 1".to_string() }
      }
      (1, _, _) => (if s.acc_uses_i { "acc1 * 3 % 1000003 + 1" } else { "acc1 + 2" }).to_string(),
      _ => format!("acc{a} + acc0"),
    };
    args.push(upd);
  }
  if direct {
    args.push(dv.clone().unwrap());
  }
  let rec = format!("{{ {body}Main.{name}({}) }}", args.join(", "));
  let ret_is_text = s.ret == 4;
  let ret = match s.ret {
    0 => "acc0".to_string(),
    1 => "i".to_string(),
    2 => "42".to_string(),
    3 => {
      if s.accs > 1 { "acc0 + acc1".to_string() } else if direct { "acc0 + prev".to_string() } else { "acc0".to_string() }
    }
    _ => "\"r=\" :: Str.fromInt(acc0)".to_string(),
  };
  let ret = if direct && s.ret == 0 { "prev".to_string() } else { ret };
  let rty = if ret_is_text { "Str" } else { "int" };
  let text = if s.swap_branches {
    // same loop with the exit in the then-branch
    format!("  function {name}({}): {rty} =\n    if !({cond}) {{ {ret} }} else {rec}\n", params.join(", "))
  } else {
    format!("  function {name}({}): {rty} =\n    if {cond} {rec} else {{ {ret} }}\n", params.join(", "))
  };
  let opaque = |v: i32| format!("Str.fromInt({}).toInt()", lit(v));
  let mut call_args = vec![if s.opaque_start { opaque(s.start) } else { lit(s.start) }];
  if s.bound_is_param {
    call_args.push(if s.opaque_start { lit(s.bound) } else { opaque(s.bound) });
  }
  for a in 0..s.accs {
    call_args.push(if a == 1 { "1".into() } else { "0".into() });
  }
  if direct {
    call_args.push("0".into());
  }
  let call = format!("Main.{name}({})", call_args.join(", "));
  let print = if ret_is_text { format!("    Process.println(\"{name}: \" :: {call});\n") } else { format!("    Process.println(\"{name}=\" :: Str.fromInt({call}));\n") };
  (text, print)
}

pub struct LoopProgram {
  pub project: Project,
  pub entry: String,
  /// loops whose guard runs at least once (by the generator's own simulation)
  pub loops_entered: usize,
  pub loops: usize,
  /// short description of the shapes, for evidence histograms
  pub shapes: Vec<String>,
}

/// `wild` admits strides / bounds / coefficients near the 32-bit limits (source-level overflow is
/// then likely, which only the MIR-level check can judge)
pub fn generate(seed: u64, wild: bool) -> LoopProgram {
  let mut rng = Rng::new(seed ^ 0x100F_6E4E_77AA_0001);
  let n = 3 + rng.below(6);
  let mut fns = String::new();
  let mut main = String::new();
  let mut entered = 0;
  let mut shapes = Vec::new();
  for k in 0..n {
    let mut spec = pick_spec(&mut rng, wild);
    let mut trips = trips_of(&spec, wild);
    let mut tries = 0;
    // loops that never enter their body are kept only now and then
    while (trips.is_none() || trips == Some(0) && !rng.chance(1, 6)) && tries < 80 {
      spec = pick_spec(&mut rng, wild);
      trips = trips_of(&spec, wild);
      tries += 1;
    }
    if trips.is_none() {
      continue;
    }
    if trips.unwrap() > 0 {
      entered += 1;
    }
    shapes.push(format!(
      "{}{}{}:stride{}:{}",
      if spec.negated { "!" } else { "" },
      if spec.i_on_left { "i" } else { "b" },
      spec.cmp.text(),
      if spec.stride > 0 { "+" } else { "-" },
      match (spec.derived.is_some(), spec.derived_use) {
        (false, _) => "no-derived",
        (true, 0) => "derived-unused",
        (true, 1) => "derived-let",
        _ => "derived-direct",
      }
    ));
    let (f, p) = render_loop(k, &spec);
    fns.push_str(&f);
    main.push_str(&p);
  }
  let text = format!("class Main {{\n{fns}  function main(): unit = {{\n{main}  }}\n}}\n");
  LoopProgram { project: Project::single("Main", &text), entry: "Main".into(), loops_entered: entered, loops: shapes.len(), shapes }
}
