//! The repository's own .sam files (tests/ and std/), read from /repo's working tree.
use crate::front::read_dir_modules;

pub struct Corpus {
  pub tests: Vec<(String, String)>,
  pub std: Vec<(String, String)>,
}

impl Corpus {
  pub fn load() -> Corpus {
    Corpus { tests: read_dir_modules("tests"), std: read_dir_modules("std") }
  }
  pub fn all(&self) -> Vec<&(String, String)> {
    self.tests.iter().chain(self.std.iter()).collect()
  }
  pub fn small(&self, max_bytes: usize) -> Vec<&(String, String)> {
    self.all().into_iter().filter(|(_, t)| t.len() <= max_bytes).collect()
  }
}
