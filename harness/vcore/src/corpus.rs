//! The repository's own .sam files (tests/ and std/), read from /repo's working tree.
use crate::front::read_dir_modules;

pub struct Corpus {
  pub tests: Vec<(String, String)>,
  pub std: Vec<(String, String)>,
}

impl Corpus {
  pub fn load() -> Corpus {
    Corpus { tests: read_dir_modules("tests"), std: read_dir_modules("std") }
  }
  pub fn all(&self) -> Vec<&(String, String)> {
    self.tests.iter().chain(self.std.iter()).collect()
  }
  pub fn small(&self, max_bytes: usize) -> Vec<&(String, String)> {
    self.all().into_iter().filter(|(_, t)| t.len() <= max_bytes).collect()
  }
}

/// The reproducers of defects found earlier (/verif/findings/*.sam): single-module programs with a
/// `class Main { function main(): unit }`, kept as a fixed regression workload.
pub fn regressions() -> Vec<(String, String)> {
  let dir = format!("{}/findings", crate::evidence::VERIF);
  let mut names: Vec<String> = std::fs::read_dir(&dir)
    .map(|d| d.filter_map(|e| e.ok()).map(|e| e.file_name().to_string_lossy().to_string()).filter(|n| n.ends_with(".sam")).collect())
    .unwrap_or_default();
  names.sort();
  names.into_iter().filter_map(|n| std::fs::read_to_string(format!("{dir}/{n}")).ok().map(|t| (n, t))).collect()
}
