//! Untyped expression generator for the formatter checks (C08/C09): every construct nested in
//! every operand position of every other construct, with and without explicit parentheses.
use crate::rng::Rng;

/// (label, template) — `@` marks the operand position under test, `#` other operands
pub const OUTERS: &[(&str, &str)] = &[
  ("not.arg", "!@"),
  ("neg.arg", "-@"),
  ("mul.l", "@ * #"), ("mul.r", "# * @"),
  ("div.l", "@ / #"), ("div.r", "# / @"),
  ("mod.l", "@ % #"), ("mod.r", "# % @"),
  ("plus.l", "@ + #"), ("plus.r", "# + @"),
  ("minus.l", "@ - #"), ("minus.r", "# - @"),
  ("concat.l", "@ :: #"), ("concat.r", "# :: @"),
  ("lt.l", "@ < #"), ("lt.r", "# < @"),
  ("le.l", "@ <= #"), ("le.r", "# <= @"),
  ("gt.l", "@ > #"), ("gt.r", "# > @"),
  ("ge.l", "@ >= #"), ("ge.r", "# >= @"),
  ("eq.l", "@ == #"), ("eq.r", "# == @"),
  ("ne.l", "@ != #"), ("ne.r", "# != @"),
  ("and.l", "@ && #"), ("and.r", "# && @"),
  ("or.l", "@ || #"), ("or.r", "# || @"),
  ("field.obj", "@.foo"),
  ("method.obj", "@.bar(#)"),
  ("method.targs.obj", "@.bar<int>(#)"),
  ("call.callee", "@(#)"),
  ("call.callee0", "@()"),
  ("call.arg", "f(#, @)"),
  ("call.arg0", "f(@)"),
  ("method.arg", "a.m(@, #)"),
  ("tuple.elem", "(#, @)"),
  ("tuple.first", "(@, #, #)"),
  ("if.cond", "if @ { # } else { # }"),
  ("if.then", "if c { @ } else { # }"),
  ("if.else", "if c { # } else { @ }"),
  ("iflet.scrutinee", "if let Some(v) = @ { # } else { # }"),
  ("elseif.cond", "if c { # } else if @ { # } else { # }"),
  ("match.scrutinee", "match @ { A -> #, B(w) -> # }"),
  ("match.arm", "match m { A -> @, B(w) -> # }"),
  ("match.lastarm", "match m { A -> #, B(w) -> @ }"),
  ("lambda.body", "(p) -> @"),
  ("lambda.typed.body", "(p: int, q: Str) -> @"),
  ("lambda0.body", "() -> @"),
  ("lambda.mixed.body", "(p, q: int) -> @"),
  ("lambda.mixed2.body", "(p: Str, q, r: bool) -> @"),
  ("block.value", "{ let z = #; @ }"),
  ("block.only", "{ @ }"),
  ("let.value", "{ let z = @; # }"),
  ("let.annotated.value", "{ let z: int = @; # }"),
  ("stmt", "{ @; # }"),
  ("stmt.last", "{ #; @; }"),
  ("variant.arg", "Opt.Some(@)"),
  ("init.arg", "Pt.init(@, #)"),
];

/// (label, text) inner constructs
pub const INNERS: &[(&str, &str)] = &[
  ("int", "1"), ("negint", "-1"), ("intmin", "-2147483648"), ("intmax", "2147483647"), ("zero", "0"),
  ("true", "true"), ("str", "\"s\""), ("str.escq", "\"a\\\"b\""), ("str.esc", "\"l1\\nl2\\t\\\\\""), ("str.empty", "\"\""),
  ("var", "x"), ("this", "this"), ("class", "Foo"),
  ("tuple", "(a, b)"), ("not", "!a"), ("neg", "-a"),
  ("mul", "a * b"), ("div", "a / b"), ("mod", "a % b"), ("plus", "a + b"), ("minus", "a - b"), ("concat", "a :: b"),
  ("lt", "a < b"), ("le", "a <= b"), ("gt", "a > b"), ("ge", "a >= b"), ("eq", "a == b"), ("ne", "a != b"), ("and", "a && b"), ("or", "a || b"),
  ("plus.rfield", "a + b.foo"), ("plus.lfield", "a.foo + b"), ("mul.rfield", "a * b.foo"), ("concat.rfield", "a :: b.foo"), ("lt.rfield", "a < b.foo"), ("and.rfield", "a && b.foo"), ("neg.field", "-a.foo"), ("not.call", "!f(a)"),
  ("field", "a.foo"), ("method", "a.bar(b)"), ("method.targs", "a.bar<int, Str>(b)"), ("call", "f(a)"), ("call0", "f()"), ("static", "Foo.make(a)"), ("static.targs", "Foo.make<int>()"),
  ("if", "if c { a } else { b }"), ("iflet", "if let Some(v) = o { v } else { b }"), ("elseif", "if c { a } else if d { b } else { e }"),
  ("match", "match m { A -> a, B(w) -> w }"), ("match.or", "match m { A | C -> a, B(_) -> b }"), ("match.nested", "match m { B(D(w, _)) -> w, _ -> b }"), ("match.struct", "match m { { f1, f2 as g } -> f1 }"),
  ("lambda", "(p) -> p"), ("lambda.typed", "(p: int) -> p"), ("lambda0", "() -> a"), ("lambda.fnty", "(p: (int) -> bool) -> p"), ("lambda.mixed", "(p, q: int) -> p + q"), ("lambda.mixed2", "(p: int, q) -> q"), ("lambda.multi", "(p, q, r) -> q"),
  ("block", "{ let y = a; y }"), ("block.empty", "{  }"), ("block.stmt", "{ f(a); }"), ("block.let.pat", "{ let (y1, y2) = a; let { f1, f2 as g } = b; let Some(s) = c; y1 }"),
];

/// number of systematic depth-3 nestings (outer, middle, inner, two paren flags)
pub fn nest3_count() -> usize {
  OUTERS.len() * OUTERS.len() * INNERS.len() * 4
}

/// the i-th systematic depth-3 nesting: inner inside middle inside outer
pub fn nest3(i: usize, rng: &mut Rng) -> (String, String) {
  let (p1, p2) = (i % 2 == 1, (i / 2) % 2 == 1);
  let j = i / 4;
  let o1 = &OUTERS[j % OUTERS.len()];
  let o2 = &OUTERS[(j / OUTERS.len()) % OUTERS.len()];
  let n = &INNERS[(j / OUTERS.len() / OUTERS.len()) % INNERS.len()];
  let mid = instantiate(o2.1, n.1, p2, rng);
  (format!("{}<{}{}<{}{}", o1.0, o2.0, if p1 { ":paren" } else { "" }, n.0, if p2 { ":paren" } else { "" }), instantiate(o1.1, &mid, p1, rng))
}

const BINOPS: &[&str] = &["*", "/", "%", "+", "-", "::", "<", "<=", ">", ">=", "==", "!=", "&&", "||"];
const LEAVES: &[&str] = &["a", "b", "1", "\"s\"", "a.foo", "this.x", "f(a)", "a.m(b)", "Foo.k", "-1", "true", "a.bar<int>(b)", "this", "Foo.make<int>()", "x.y.z"];

/// random tree over binary / unary / postfix operators, written fully parenthesised (so the
/// text pins the tree without any knowledge of precedence); returns (shape label, text)
pub fn opchain(rng: &mut Rng, depth: usize) -> (String, String) {
  if depth == 0 || rng.chance(1, 5) {
    let l = *rng.pick(LEAVES);
    return ("leaf".into(), l.to_string());
  }
  match rng.below(12) {
    0..=7 => {
      let op = *rng.pick(BINOPS);
      let (ll, l) = opchain(rng, depth - 1);
      let (rl, r) = opchain(rng, depth - 1);
      (format!("({ll}{op}{rl})"), format!("({l} {op} {r})"))
    }
    8 => {
      let op = if rng.bool() { "!" } else { "-" };
      let (l, e) = opchain(rng, depth - 1);
      (format!("{op}{l}"), format!("({op}{e})"))
    }
    9 => {
      let (l, e) = opchain(rng, depth - 1);
      match rng.below(4) {
        0 => (format!("{l}.f"), format!("({e}).foo")),
        1 => (format!("{l}.m()"), format!("({e}).bar(a)")),
        2 => (format!("{l}.m<>()"), format!("({e}).bar<int>(a)")),
        _ => (format!("{l}()"), format!("({e})(a)")),
      }
    }
    10 => {
      let (cl, c) = opchain(rng, depth - 1);
      let (tl, t) = opchain(rng, depth - 1);
      (format!("if({cl},{tl})"), format!("(if {c} {{ {t} }} else {{ b }})"))
    }
    _ => {
      let (l, e) = opchain(rng, depth - 1);
      match rng.below(3) {
        0 => (format!("lam({l})"), format!("((p) -> {e})")),
        1 => (format!("tup({l})"), format!("(a, {e})")),
        _ => (format!("match({l})"), format!("(match {e} {{ A -> a, _ -> b }})")),
      }
    }
  }
}

pub const FILL: &[&str] = &["a", "b", "1", "g(k)", "\"t\""];

pub fn wrap_in_module(expr: &str, style: usize) -> String {
  match style % 3 {
    0 => format!("class Main {{\n  function f(): unit = {{\n    let _ = {expr};\n  }}\n}}\n"),
    1 => format!("class Main {{\n  method m(a: int, b: int): int = {expr}\n}}\n"),
    _ => format!("class Main {{\n  function f(): unit = {{\n    {expr};\n    g({expr})\n  }}\n}}\n"),
  }
}

pub fn instantiate(outer: &str, inner: &str, paren: bool, rng: &mut Rng) -> String {
  let mut s = String::new();
  for ch in outer.chars() {
    match ch {
      '@' => {
        if paren {
          s.push('(');
          s.push_str(inner);
          s.push(')');
        } else {
          s.push_str(inner);
        }
      }
      '#' => s.push_str(*rng.pick(FILL)),
      c => s.push(c),
    }
  }
  s
}

/// number of systematic (outer, inner, paren) triples
pub fn triple_count() -> usize {
  OUTERS.len() * INNERS.len() * 2
}

/// the i-th systematic triple: (label, expression text)
pub fn triple(i: usize, rng: &mut Rng) -> (String, String) {
  let paren = i % 2 == 1;
  let o = &OUTERS[(i / 2) % OUTERS.len()];
  let n = &INNERS[(i / 2 / OUTERS.len()) % INNERS.len()];
  (format!("{}<{}{}", o.0, n.0, if paren { ":paren" } else { "" }), instantiate(o.1, n.1, paren, rng))
}

/// random nesting of depth d
pub fn random_nested(rng: &mut Rng, depth: usize) -> (String, String) {
  let mut label = String::new();
  let inner = rng.pick(INNERS);
  let mut text = inner.1.to_string();
  label.push_str(inner.0);
  for _ in 0..depth {
    let o = rng.pick(OUTERS);
    let paren = rng.chance(1, 3);
    text = instantiate(o.1, &text, paren, rng);
    label = format!("{}<{}{}", o.0, label, if paren { ":paren" } else { "" });
  }
  (label, text)
}

// ---------------------------------------------------------------------------------------------
// declaration-level generator: syntactically valid (not necessarily well-typed) modules that vary
// every declaration form: imports, private/public classes and interfaces, type parameters with
// bounds, supertypes, struct fields, enum variants, member modifiers, annotations, patterns.

fn ty(rng: &mut Rng, depth: usize) -> String {
  match rng.below(if depth == 0 { 6 } else { 9 }) {
    0 => "int".into(),
    1 => "bool".into(),
    2 => "unit".into(),
    3 => "Str".into(),
    4 => "T".into(),
    5 => "Foo".into(),
    6 => format!("Box<{}>", ty(rng, depth - 1)),
    7 => format!("Pair<{}, {}>", ty(rng, depth - 1), ty(rng, depth - 1)),
    _ => {
      let n = rng.below(3);
      let ps: Vec<String> = (0..n).map(|_| ty(rng, depth - 1)).collect();
      format!("({}) -> {}", ps.join(", "), ty(rng, depth - 1))
    }
  }
}

fn tparams(rng: &mut Rng) -> String {
  match rng.below(5) {
    0 | 1 => String::new(),
    2 => "<T>".into(),
    3 => "<T, R>".into(),
    _ => format!("<T: Cmp<T>, R: {}>", if rng.bool() { "Base" } else { "Cmp<Box<T>>" }),
  }
}

fn pattern(rng: &mut Rng, depth: usize, n: &mut usize) -> String {
  *n += 1;
  let v = format!("v{}", *n);
  match rng.below(if depth == 0 { 2 } else { 7 }) {
    0 => v,
    1 => "_".into(),
    2 => format!("({}, {})", pattern(rng, depth - 1, n), pattern(rng, depth - 1, n)),
    3 => format!("Some({})", pattern(rng, depth - 1, n)),
    4 => format!("{{ fa, fb as {} }}", pattern(rng, depth - 1, n)),
    5 => format!("Node({}, _, {})", pattern(rng, depth - 1, n), pattern(rng, depth - 1, n)),
    _ => "Leaf".into(),
  }
}

pub fn random_module(rng: &mut Rng) -> String {
  let mut s = String::new();
  let nimp = rng.below(5);
  let mods = ["std.list", "std.option", "a.b.C", "std.tuples", "zeta.Mod", "alpha"];
  // every class name is imported from one module only (importing the same name from two modules
  // is a collision whose resolution legitimately depends on the order of the import lines), but
  // the same (module, name) pair may be repeated and modules may appear on several lines
  let mut pool = vec!["List", "Option", "Pair", "Zed", "Alpha", "Triple", "Box", "Foo", "Base", "Cmp"];
  rng.shuffle(&mut pool);
  let mut owner: Vec<(&str, &str)> = Vec::new();
  for _ in 0..nimp {
    let k = 1 + rng.below(3);
    let m: &str = *rng.pick(&mods);
    let mut names: Vec<&str> = Vec::new();
    for _ in 0..k {
      let cand: &str = *rng.pick(&pool);
      match owner.iter().find(|(n, _)| *n == cand) {
        Some((_, om)) if *om != m => {}
        Some(_) => names.push(cand),
        None => {
          owner.push((cand, m));
          names.push(cand);
        }
      }
    }
    if names.is_empty() {
      continue;
    }
    s.push_str(&format!("import {{ {} }} from {}{}\n", names.join(", "), m, if rng.bool() { ";" } else { "" }));
  }
  let ntop = 1 + rng.below(4);
  for t in 0..ntop {
    let private = if rng.chance(1, 4) { "private " } else { "" };
    if rng.chance(1, 4) {
      let ext = match rng.below(3) {
        0 => String::new(),
        1 => " : Base".into(),
        _ => " : Base, Cmp<int>".into(),
      };
      s.push_str(&format!("{private}interface I{t}{}{ext} {{\n", tparams(rng)));
      for m in 0..rng.below(3) {
        s.push_str(&format!("  method {}m{m}(a: {}): {}\n", tparams(rng).replace("<", "<").as_str().to_owned() + if rng.bool() { "" } else { "" }, ty(rng, 2), ty(rng, 2)));
      }
      s.push_str("}\n\n");
      continue;
    }
    let def = match rng.below(4) {
      0 => String::new(),
      1 => {
        let n = 1 + rng.below(4);
        let fs: Vec<String> = (0..n).map(|i| format!("{}val f{i}: {}", if rng.chance(1, 3) { "private " } else { "" }, ty(rng, 2))).collect();
        format!("({})", fs.join(", "))
      }
      _ => {
        let n = 1 + rng.below(4);
        let vs: Vec<String> = (0..n)
          .map(|i| {
            let k = rng.below(4);
            if k == 0 { format!("V{i}") } else { format!("V{i}({})", (0..k).map(|_| ty(rng, 2)).collect::<Vec<_>>().join(", ")) }
          })
          .collect();
        format!("({})", vs.join(", "))
      }
    };
    let sup = match rng.below(4) {
      0 => " : Base".to_string(),
      1 => " : Cmp<C0>, Base".to_string(),
      _ => String::new(),
    };
    s.push_str(&format!("{private}class C{t}{}{def}{sup} {{\n", tparams(rng)));
    for m in 0..rng.below(4) {
      let vis = if rng.chance(1, 3) { "private " } else { "" };
      let kind = if rng.bool() { "function" } else { "method" };
      let np = rng.below(4);
      let ps: Vec<String> = (0..np).map(|i| format!("p{i}: {}", ty(rng, 2))).collect();
      let mut n = 0;
      let body = match rng.below(5) {
        0 => random_nested(rng, 2).1,
        1 => format!("{{ let {} = p0; let {}: {} = g(p1); {} }}", pattern(rng, 2, &mut n), pattern(rng, 1, &mut n), ty(rng, 1), random_nested(rng, 1).1),
        2 => format!("match p0 {{ {} -> 1, {} | {} -> 2, _ -> 3 }}", pattern(rng, 2, &mut n), "Leaf", "Empty"),
        3 => format!("if let {} = p0 {{ 1 }} else {{ 2 }}", pattern(rng, 2, &mut n)),
        _ => "{  }".to_string(),
      };
      let tp = tparams(rng);
      s.push_str(&format!("  {vis}{kind} {}{}m{m}({}): {} = {body}\n", tp, if tp.is_empty() { "" } else { " " }, ps.join(", "), ty(rng, 2)));
    }
    s.push_str("}\n\n");
  }
  s
}

// ---------------------------------------------------------------------------------------------
// binder zoo: a well-typed module in which every binder form (parameter, let, tuple / struct /
// variant pattern, shorthand and renamed fields, or-pattern alternatives, if-let, lambda
// parameters with and without annotations, nested scopes with shadow-free reuse of field names)
// occurs in every binding construct, and every binder is read zero to two times.

fn rec_pat(rng: &mut Rng, names: &mut Vec<String>, n: &mut usize) -> String {
  let mut bind = |stem: &str, names: &mut Vec<String>| {
    *n += 1;
    let v = format!("{stem}{}", *n);
    names.push(v.clone());
    v
  };
  match rng.below(6) {
    // shorthand binds the field name itself: only once per scope
    0 if !names.iter().any(|x| x == "x" || x == "y") => {
      names.push("x".into());
      names.push("y".into());
      "{ x, y }".into()
    }
    1 if !names.iter().any(|x| x == "x") => {
      names.push("x".into());
      "{ x, y as _ }".into()
    }
    2 => format!("{{ x as {}, y as {} }}", bind("a", names), bind("b", names)),
    3 if !names.iter().any(|x| x == "y") => {
      names.push("y".into());
      format!("{{ x as {}, y }}", bind("a", names))
    }
    4 => format!("{{ x as _, y as {} }}", bind("b", names)),
    _ => bind("r", names),
  }
}

fn sh_pat(rng: &mut Rng, names: &mut Vec<String>, n: &mut usize) -> String {
  let sub = rec_pat(rng, names, n);
  match rng.below(6) {
    0 => format!("Dot({sub})"),
    1 => format!("Dot({sub}) | Mark({sub})"),
    2 => {
      *n += 1;
      let k = format!("k{}", *n);
      names.push(k.clone());
      format!("Two({sub}, {k}) | Duo({sub}, {k})")
    }
    3 => format!("Two({sub}, _)"),
    4 => format!("Two({sub}, _) | Duo({sub}, _)"),
    _ => format!("Mark({sub}) | Dot({sub})"),
  }
}

fn use_of(rng: &mut Rng, names: &[String]) -> String {
  // records are read through a field, ints directly; every name is read 0..2 times
  let mut terms: Vec<String> = vec!["1".into()];
  for v in names {
    for _ in 0..rng.below(3) {
      terms.push(if v.starts_with('r') { format!("{v}.x") } else { v.clone() });
    }
  }
  rng.shuffle(&mut terms);
  terms.join(" + ")
}

pub fn binder_zoo(rng: &mut Rng) -> String {
  let mut fns = String::new();
  let nf = 3 + rng.below(5);
  let mut n = 0usize;
  for f in 0..nf {
    let mut names: Vec<String> = Vec::new();
    let body = match rng.below(9) {
      7 => {
        // the same binder names again in the else side of an if-let (disjoint scopes)
        let n0 = n;
        let mut n1: Vec<String> = Vec::new();
        let p1 = sh_pat(rng, &mut n1, &mut n);
        let u1 = use_of(rng, &n1);
        n = n0;
        let mut n2: Vec<String> = Vec::new();
        let p2 = sh_pat(rng, &mut n2, &mut n);
        let u2 = use_of(rng, &n2);
        format!("if let {p1} = s {{ {u1} }} else if let {p2} = s {{ {u2} }} else {{ c }}")
      }
      8 => {
        let n0 = n;
        let mut n1: Vec<String> = Vec::new();
        let p1 = sh_pat(rng, &mut n1, &mut n);
        let u1 = use_of(rng, &n1);
        n = n0;
        let mut n2: Vec<String> = Vec::new();
        let p2 = rec_pat(rng, &mut n2, &mut n);
        let u2 = use_of(rng, &n2);
        format!("if let {p1} = s {{ {u1} }} else {{ let {p2} = r; {u2} }}")
      }
      0 => {
        let p = sh_pat(rng, &mut names, &mut n);
        format!("match s {{ {p} -> {}, _ -> 0 }}", use_of(rng, &names))
      }
      1 => {
        let p = rec_pat(rng, &mut names, &mut n);
        format!("{{ let {p} = r; {} }}", use_of(rng, &names))
      }
      2 => {
        let p = sh_pat(rng, &mut names, &mut n);
        format!("if let {p} = s {{ {} }} else {{ 0 }}", use_of(rng, &names))
      }
      3 => {
        let p1 = sh_pat(rng, &mut names, &mut n);
        let p2 = rec_pat(rng, &mut names, &mut n);
        format!("match (s, r) {{ ({p1}, {p2}) -> {}, _ -> 0 }}", use_of(rng, &names))
      }
      4 => {
        // lambda parameters (all / some / none annotated) capturing a pattern binder
        let p = rec_pat(rng, &mut names, &mut n);
        n += 2;
        let (l1, l2) = (format!("p{}", n - 1), format!("q{n}"));
        let params = match rng.below(4) {
          0 => format!("{l1}: int, {l2}: int"),
          1 => format!("{l1}, {l2}: int"),
          2 => format!("{l1}: int, {l2}"),
          _ => format!("{l1}, {l2}"),
        };
        let inner = use_of(rng, &names);
        format!("{{ let {p} = r; Main.apply2(({params}) -> {l1} + {l2} + {inner}, c, 2) }}")
      }
      5 => {
        // the same field names bound again in a nested scope of another arm
        let mut n1: Vec<String> = Vec::new();
        let p1 = sh_pat(rng, &mut n1, &mut n);
        let u1 = use_of(rng, &n1);
        let mut n2: Vec<String> = Vec::new();
        let p2 = sh_pat(rng, &mut n2, &mut n);
        let u2 = use_of(rng, &n2);
        format!("match s {{ {p1} -> {u1}, _ -> if let {p2} = s {{ {u2} }} else {{ c }} }}")
      }
      _ => {
        let (a, b) = (format!("t{}", n + 1), format!("t{}", n + 2));
        n += 2;
        names.push(a.clone());
        names.push(b.clone());
        let p = rec_pat(rng, &mut names, &mut n);
        format!("{{ let ({a}, {b}) = (c, 2); let {p} = r; {} }}", use_of(rng, &names))
      }
    };
    fns.push_str(&format!("  function f{f}(s: Sh, r: Rec, c: int): int = {body}\n"));
  }
  format!(
    "class Rec(val x: int, val y: int) {{}}\nclass Sh(Dot(Rec), Mark(Rec), Two(Rec, int), Duo(Rec, int), Nil) {{}}\nclass Main {{\n  function apply2(f: (int, int) -> int, a: int, b: int): int = f(a, b)\n{fns}  function main(): unit = {{\n    let r = Rec.init(3, 4);\n{}  }}\n}}\n",
    (0..nf).map(|f| format!("    Process.println(Str.fromInt(Main.f{f}(Sh.Two(r, 5), r, {f})));\n    Process.println(Str.fromInt(Main.f{f}(Sh.Mark(r), r, {f})));\n")).collect::<String>()
  )
}

// ---------------------------------------------------------------------------------------------
// string literals by adjacency of "atoms": every sequence of up to three atoms, where the atoms are
// the escape sequences, the characters that are special in one of the target languages (backtick,
// `$`, `{`), the letters that would form an escape if a preceding backslash were misread, and a
// non-ASCII character. Source text of the literal, quotes included.

const STRING_ATOMS_EXEC: &[&str] = &["a", " ", "\\\\", "\\\"", "\\n", "\\t", "`", "$", "{", "}", "\u{e9}", "'", "n", "t", "b", "0"];
const STRING_ATOMS_MORE: &[&str] = &["\\r", "\\0", "\\b", "\\f", "\\v", "%", "\u{1F600}", "/", "*"];

pub fn string_literal_count(exec_safe: bool) -> usize {
  let n = STRING_ATOMS_EXEC.len() + if exec_safe { 0 } else { STRING_ATOMS_MORE.len() };
  n + n * n + n * n * n
}

pub fn string_literal(i: usize, exec_safe: bool) -> String {
  let atoms: Vec<&str> = STRING_ATOMS_EXEC.iter().chain(if exec_safe { [].iter() } else { STRING_ATOMS_MORE.iter() }).copied().collect();
  let n = atoms.len();
  let mut i = i % (n + n * n + n * n * n);
  let mut s = String::from("\"");
  if i < n {
    s.push_str(atoms[i]);
  } else if i < n + n * n {
    i -= n;
    s.push_str(atoms[i / n]);
    s.push_str(atoms[i % n]);
  } else {
    i -= n + n * n;
    s.push_str(atoms[i / (n * n)]);
    s.push_str(atoms[(i / n) % n]);
    s.push_str(atoms[i % n]);
  }
  s.push('"');
  s
}

/// single ill-formed edits of patterns in a binder zoo module: (operator, edited text). Every
/// result contains exactly one static error.
pub fn pattern_faults(text: &str, rng: &mut Rng) -> Vec<(&'static str, String)> {
  let edits: &[(&'static str, &str, &str)] = &[
    ("variant-pattern-extra-subpattern", "Dot(", "Dot(zzExtra, "),
    ("variant-pattern-extra-subpattern", "Mark(", "Mark(zzExtra, "),
    ("variant-pattern-extra-subpattern", ", _) ->", ", _, zzExtra) ->"),
    ("variant-pattern-missing-subpattern", ", _)", ")"),
    ("struct-pattern-duplicate-field", "{ x as", "{ x as zzFirst, x as"),
    ("struct-pattern-duplicate-field", "{ x, y", "{ x, y, y as zzAgain"),
    ("struct-pattern-duplicate-field", ", y as _ }", ", y as _, y as zzAgain }"),
    ("struct-pattern-unknown-field", "y }", "y, zzUnknown }"),
    ("struct-pattern-unknown-field", "y as _ }", "y as _, zzUnknown as _ }"),
    ("tuple-pattern-arity", ") = (c, 2);", ", zzThird) = (c, 2);"),
    ("nullary-variant-with-subpattern", "_ -> 0", "Nil(zzNothing) -> 0, _ -> 0"),
  ];
  let mut out = Vec::new();
  for (op, from, to) in edits {
    let places: Vec<usize> = text.match_indices(from).map(|(i, _)| i).collect();
    if places.is_empty() {
      continue;
    }
    let at = places[rng.below(places.len())];
    out.push((*op, format!("{}{}{}", &text[..at], to, &text[at + from.len()..])));
  }
  // or-patterns: a later / the first alternative binds one more name (the parameter `c`, so the
  // name itself resolves), or a different name than the other alternative
  let ors: Vec<usize> = text.match_indices(", _) | Duo(").map(|(i, _)| i).collect();
  if !ors.is_empty() {
    let at = ors[rng.below(ors.len())];
    out.push(("or-pattern-first-alternative-binds-extra-name", format!("{}, c) | Duo({}", &text[..at], &text[at + ", _) | Duo(".len()..])));
    if let Some(rel) = text[at + 4..].find(", _)") {
      let q = at + 4 + rel;
      out.push(("or-pattern-later-alternative-binds-extra-name", format!("{}, c){}", &text[..q], &text[q + ", _)".len()..])));
    }
  }
  out
}

// ---------------------------------------------------------------------------------------------
// order zoo: constructs whose lowering walks sets / maps of names — closures capturing `this`
// plus one to five other variables (parameters and locals, ints and strings, nested lambdas),
// classes with many members reached through an interface. Every value is printed with a positional
// weight, so that two captured variables swapping places changes the output.

pub fn order_zoo(rng: &mut Rng) -> String {
  let pool = ["alpha", "beta", "gamma", "delta", "eps", "zeta", "eta", "theta", "iota", "kappa", "lam", "mu", "nu", "xi", "omi", "pi", "rho", "sigma"];
  let mut methods = String::new();
  let mut calls = String::new();
  let nm = 4 + rng.below(6);
  for m in 0..nm {
    let k = 1 + rng.below(5);
    let mut names: Vec<&str> = pool.to_vec();
    rng.shuffle(&mut names);
    names.truncate(k);
    let as_locals = rng.chance(1, 3);
    let with_str = rng.chance(1, 3);
    let nested = rng.chance(1, 4);
    // the weighted sum mentions the captured names in a random order
    let mut terms: Vec<String> = names.iter().enumerate().map(|(i, n)| format!("{n} * {}", 10i64.pow((k - i) as u32))).collect();
    terms.push(format!("this.base * {}", 10i64.pow((k + 1) as u32)));
    rng.shuffle(&mut terms);
    let sum = format!("{} + x", terms.join(" + "));
    let params: String = names.iter().map(|n| format!("{n}: int")).collect::<Vec<_>>().join(", ");
    let args: String = (0..k).map(|i| format!("{}", i + 1)).collect::<Vec<_>>().join(", ");
    if as_locals {
      let lets: String = names.iter().enumerate().map(|(i, n)| format!("let {n} = seed + {i}; ")).collect();
      methods.push_str(&format!("  method m{m}(seed: int): (int) -> int = {{ {lets}(x) -> {sum} }}\n"));
      calls.push_str(&format!("    Process.println(\"m{m}=\" :: Str.fromInt(acc.m{m}(1)(0)));\n"));
    } else if with_str {
      methods.push_str(&format!("  method m{m}({params}, label: Str): (int) -> Str = (x) -> this.tag :: label :: Str.fromInt({sum})\n"));
      calls.push_str(&format!("    Process.println(\"m{m}=\" :: acc.m{m}({args}, \"L{m}:\")(0));\n"));
    } else if nested {
      methods.push_str(&format!("  method m{m}({params}): (int) -> (int) -> int = (x) -> (y) -> ({sum}) * 10 + y + this.base\n"));
      calls.push_str(&format!("    Process.println(\"m{m}=\" :: Str.fromInt(acc.m{m}({args})(0)(7)));\n"));
    } else {
      methods.push_str(&format!("  method m{m}({params}): (int) -> int = (x) -> {sum}\n"));
      calls.push_str(&format!("    Process.println(\"m{m}=\" :: Str.fromInt(acc.m{m}({args})(0)));\n"));
    }
  }
  // many members reached through an interface
  let ns = 3 + rng.below(4);
  let mut shapes = String::new();
  let mut uses = String::new();
  let mut members = vec!["area", "sides", "weight", "code"];
  rng.shuffle(&mut members);
  let decl: String = members.iter().map(|m| format!("  method {m}(): int\n")).collect();
  for s in 0..ns {
    let mut order = members.clone();
    rng.shuffle(&mut order);
    let impls: String = order.iter().map(|m| format!("  method {m}(): int = this.v * {} + {}\n", 2 + s, members.iter().position(|x| x == m).unwrap())).collect();
    shapes.push_str(&format!("class S{s}(val v: int) : Shape {{\n{impls}}}\n"));
    uses.push_str(&format!("    Process.println(\"s{s}=\" :: Str.fromInt(Main.total(S{s}.init({}))));\n", s + 3));
  }
  format!(
    "interface Shape {{\n{decl}}}\n{shapes}class Acc(val base: int, val tag: Str) {{\n{methods}}}\nclass Main {{\n  function <T: Shape> total(t: T): int = t.{}() * 1000 + t.{}() * 100 + t.{}() * 10 + t.{}()\n  function main(): unit = {{\n    let acc = Acc.init(9, \"t:\");\n{calls}{uses}  }}\n}}\n",
    members[0], members[1], members[2], members[3]
  )
}

// ---------------------------------------------------------------------------------------------
// generic zoo: bounded generic classes and functions in every shape — a bound that refers to the
// parameter itself, to an earlier parameter, to a LATER parameter, nested bounds — with values
// built by inference only, so that the "make the inferred type explicit" rewrites have every kind
// of instantiated type to write down.

pub fn generic_zoo(rng: &mut Rng) -> String {
  let mut classes = vec![
    // forward reference: the bound of A mentions B, declared after it
    "class Fwd<A: Into<B>, B>(val a: A, val b: B) {\n  method run(): B = this.a.into()\n}\n",
    // backward reference
    "class Bwd<A, B: Into<A>>(val a: A, val b: B) {\n  method run(): A = this.b.into()\n}\n",
    // self reference
    "class Best<T: Cmp<T>>(val l: T, val r: T) {\n  method pick(): T = if this.l.cmp(this.r) >= 0 { this.l } else { this.r }\n}\n",
    // three parameters chained forward
    "class Chain<A: Into<B>, B: Into<C>, C>(val a: A, val b: B, val c: C) {\n  method end(): C = this.a.into().into()\n}\n",
  ];
  rng.shuffle(&mut classes);
  let mut uses: Vec<&str> = vec![
    "    let fwd = Fwd.init(Meters.init(2), Feet.init(0));\n    let fwdOut = fwd.run();\n    Process.println(\"fwd=\" :: Str.fromInt(fwdOut.v));\n",
    "    let bwd = Bwd.init(Feet.init(1), Meters.init(3));\n    let bwdOut = bwd.run();\n    Process.println(\"bwd=\" :: Str.fromInt(bwdOut.v));\n",
    "    let best = Best.init(Feet.init(4), Feet.init(9));\n    let bestOut = best.pick();\n    Process.println(\"best=\" :: Str.fromInt(bestOut.v));\n",
    "    let chain = Chain.init(Meters.init(1), Feet.init(0), Inches.init(0));\n    let chainOut = chain.end();\n    Process.println(\"chain=\" :: Str.fromInt(chainOut.v));\n",
    "    let viaFn = Main.conv(Meters.init(7), Feet.init(0));\n    Process.println(\"fn=\" :: Str.fromInt(viaFn.v));\n",
    "    let viaFn2 = Main.convBack(Feet.init(0), Meters.init(8));\n    Process.println(\"fn2=\" :: Str.fromInt(viaFn2.v));\n",
    "    let boxed = Box.init(Fwd.init(Meters.init(4), Feet.init(0)));\n    Process.println(\"boxed=\" :: Str.fromInt(boxed.item.run().v));\n",
    "    let lam = (m: Meters) -> Fwd.init(m, Feet.init(0)).run();\n    Process.println(\"lam=\" :: Str.fromInt(lam(Meters.init(5)).v));\n",
    // unannotated lambdas as arguments of calls whose type parameters are inferred
    "    let viaLam = Main.apply1(3, (x) -> x + 1);\n    Process.println(\"viaLam=\" :: Str.fromInt(viaLam));\n",
    "    let viaLam2 = Main.apply1(Meters.init(2), (m) -> m.into().v);\n    Process.println(\"viaLam2=\" :: Str.fromInt(viaLam2));\n",
    "    let viaLam3 = Main.apply1(Feet.init(7), (f) -> if f.v > 3 { (y: int) -> y + f.v } else { (y: int) -> y });\n    Process.println(\"viaLam3=\" :: Str.fromInt(viaLam3(1)));\n",
    // branches that can only be typed from an earlier branch (no type from outside)
    "    let elseIfOpt = if Feet.init(1).v > 5 { Option.Some(3) } else if Feet.init(2).v > 5 { Option.None() } else { Option.None() };\n    Process.println(\"elseIfOpt=\" :: Str.fromInt(elseIfOpt.valueMap(7, (v) -> v)));\n",
    "    let elseIfLam = if Feet.init(1).v > 5 { (x: int) -> x + 1 } else if Feet.init(2).v > 5 { (x) -> x } else { (x) -> 0 - x };\n    Process.println(\"elseIfLam=\" :: Str.fromInt(elseIfLam(4)));\n",
    "    let elseIfGeneric = if Feet.init(1).v > 5 { Option.Some(Fwd.init(Meters.init(1), Feet.init(0))) } else if Feet.init(9).v > 5 { Option.Some(Fwd.init(Meters.init(2), Feet.init(0))) } else { Option.None() };\n    Process.println(\"elseIfGeneric=\" :: Str.fromInt(elseIfGeneric.valueMap(0, (f) -> f.run().v)));\n",
  ];
  rng.shuffle(&mut uses);
  let keep = 4 + rng.below(uses.len() - 3);
  uses.truncate(keep);
  format!(
    "import {{ Option }} from std.option\ninterface Into<T> {{\n  method into(): T\n}}\ninterface Cmp<T> {{\n  method cmp(other: T): int\n}}\nclass Box<T>(val item: T) {{}}\nclass Feet(val v: int) : Cmp<Feet>, Into<Inches> {{\n  method cmp(other: Feet): int = this.v - other.v\n  method into(): Inches = Inches.init(this.v * 12)\n}}\nclass Inches(val v: int) {{}}\nclass Meters(val v: int) : Into<Feet> {{\n  method into(): Feet = Feet.init(this.v * 3)\n}}\nclass Crate(val f: Feet) : Into<Box<Feet>> {{\n  method into(): Box<Feet> = Box.init(this.f)\n}}\n{}class Main {{\n  function <A: Into<B>, B> conv(a: A, unused: B): B = a.into()\n  function <A, B: Into<A>> convBack(unused: A, b: B): A = b.into()\n  function <A, B> apply1(a: A, f: (A) -> B): B = f(a)\n  function main(): unit = {{\n{}  }}\n}}\n",
    classes.concat(),
    uses.concat()
  )
}

/// type arguments that violate a bound, one per result, in a generic zoo module (operator, text)
pub fn generic_faults(text: &str) -> Vec<(&'static str, String)> {
  let edits: &[(&'static str, &str, &str)] = &[
    ("bound-violated:later-type-parameter-of-function", "Main.convBack(Feet.init(0), Meters.init(8))", "Main.convBack(Feet.init(0), Inches.init(8))"),
    ("bound-violated:later-type-parameter-of-class", "Bwd.init(Feet.init(1), Meters.init(3))", "Bwd.init(Feet.init(1), Inches.init(3))"),
    ("bound-violated:first-type-parameter-of-class", "Fwd.init(Meters.init(2), Feet.init(0))", "Fwd.init(Inches.init(2), Feet.init(0))"),
    ("bound-violated:self-referential-bound", "Best.init(Feet.init(4), Feet.init(9))", "Best.init(Inches.init(4), Inches.init(9))"),
    ("bound-violated:first-type-parameter-of-function", "Main.conv(Meters.init(7), Feet.init(0))", "Main.conv(Inches.init(7), Feet.init(0))"),
    ("bound-violated:middle-type-parameter-of-chain", "Chain.init(Meters.init(1), Feet.init(0), Inches.init(0))", "Chain.init(Meters.init(1), Feet.init(0), Feet.init(0))"),
    ("bound-violated:nested-in-type-argument", "Box.init(Fwd.init(Meters.init(4), Feet.init(0)))", "Box.init(Fwd.init(Inches.init(4), Feet.init(0)))"),
    ("bound-violated:inside-lambda", "(m: Meters) -> Fwd.init(m, Feet.init(0)).run()", "(m: Inches) -> Fwd.init(m, Feet.init(0)).run()"),
  ];
  edits.iter().filter(|(_, from, _)| text.contains(from)).map(|(op, from, to)| (*op, text.replacen(from, to, 1))).collect()
}

/// spellings of the same generic zoo module that the generator knows to be equivalent (it knows
/// the types it built): an annotation on a let, explicit type arguments, an else-if written as a
/// nested block. (kind, rewritten text); only edits whose anchor occurs in `text` are returned.
pub fn generic_zoo_equivalents(text: &str) -> Vec<(&'static str, String)> {
  let edits: &[(&'static str, &str, &str)] = &[
    ("known-annotation-on-let", "let elseIfOpt = if", "let elseIfOpt: Option<int> = if"),
    ("known-explicit-type-arguments", "{ Option.None() } else { Option.None() };\n    Process.println(\"elseIfOpt", "{ Option.None<int>() } else { Option.None<int>() };\n    Process.println(\"elseIfOpt"),
    ("else-if-as-nested-block", " else if Feet.init(2).v > 5 { Option.None() } else { Option.None() };", " else { if Feet.init(2).v > 5 { Option.None() } else { Option.None() } };"),
    ("known-annotation-on-let", "let elseIfLam = if", "let elseIfLam: (int) -> int = if"),
    ("else-if-as-nested-block", " else if Feet.init(2).v > 5 { (x) -> x } else { (x) -> 0 - x };", " else { if Feet.init(2).v > 5 { (x) -> x } else { (x) -> 0 - x } };"),
    ("known-annotation-on-lambda-parameters", "{ (x) -> x } else { (x) -> 0 - x }", "{ (x: int) -> x } else { (x: int) -> 0 - x }"),
    ("known-annotation-on-let", "let elseIfGeneric = if", "let elseIfGeneric: Option<Fwd<Meters, Feet>> = if"),
    ("else-if-as-nested-block", " else if Feet.init(9).v > 5 { Option.Some(Fwd.init(Meters.init(2), Feet.init(0))) } else { Option.None() };", " else { if Feet.init(9).v > 5 { Option.Some(Fwd.init(Meters.init(2), Feet.init(0))) } else { Option.None() } };"),
    ("known-annotation-on-let", "let fwd = Fwd.init(", "let fwd: Fwd<Meters, Feet> = Fwd.init("),
    ("known-explicit-type-arguments", "let fwd = Fwd.init(", "let fwd = Fwd.init<Meters, Feet>("),
    ("known-annotation-on-let", "let bwd = Bwd.init(", "let bwd: Bwd<Feet, Meters> = Bwd.init("),
    ("known-explicit-type-arguments", "let bwd = Bwd.init(", "let bwd = Bwd.init<Feet, Meters>("),
    ("known-annotation-on-let", "let best = Best.init(", "let best: Best<Feet> = Best.init("),
    ("known-annotation-on-let", "let chain = Chain.init(", "let chain: Chain<Meters, Feet, Inches> = Chain.init("),
    ("known-explicit-type-arguments", "let chain = Chain.init(", "let chain = Chain.init<Meters, Feet, Inches>("),
    ("known-explicit-type-arguments", "Main.conv(Meters.init(7)", "Main.conv<Meters, Feet>(Meters.init(7)"),
    ("known-explicit-type-arguments", "Main.convBack(Feet.init(0)", "Main.convBack<Feet, Meters>(Feet.init(0)"),
    ("known-annotation-on-let", "let boxed = Box.init(", "let boxed: Box<Fwd<Meters, Feet>> = Box.init("),
  ];
  edits.iter().filter(|(_, from, _)| text.contains(from)).map(|(k, from, to)| (*k, text.replacen(from, to, 1))).collect()
}
