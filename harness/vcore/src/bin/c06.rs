//! C06 — a program containing a static error is always rejected and never compiled.
//! Monitor: single guaranteed-ill-typed edits (fault operators) are spliced into accepted
//! programs at locations taken from the parsed tree; the front end must report at least one error
//! located in the edited module and compile_sources must return no code.
use samlang_ast::Location;
use serde_json::{Value, json};
use std::collections::{BTreeMap, BTreeSet};
use std::panic::AssertUnwindSafe;
use std::time::Duration;
use vcore::astwalk::{Node, Walker};
use vcore::corpus::Corpus;
use vcore::diffexec;
use vcore::evidence::{Run, env_seed, env_tier};
use vcore::front::{self, Project};
use vcore::pgen::{self, GenConfig};
use vcore::pool::{self, DriveOpts, WorkerCtx};
use vcore::rng::Rng;

fn offset(text: &str, line: u32, col: u32) -> Option<usize> {
  let mut l = 0u32;
  let mut start = 0usize;
  for (i, b) in text.bytes().enumerate() {
    if l == line {
      break;
    }
    if b == b'\n' {
      l += 1;
      start = i + 1;
    }
  }
  if l != line { None } else { Some(start + col as usize) }
}

fn splice(text: &str, loc: &Location, replacement: &str) -> Option<String> {
  let (a, b) = (offset(text, loc.start.0, loc.start.1)?, offset(text, loc.end.0, loc.end.1)?);
  if a > b || b > text.len() || !text.is_char_boundary(a) || !text.is_char_boundary(b) {
    return None;
  }
  Some(format!("{}{}{}", &text[..a], replacement, &text[b..]))
}

#[derive(Clone, Debug)]
struct Site {
  op: &'static str,
  loc: Location,
  replacement: String,
  detail: String,
}

const ARITH: &[&str] = &["+", "-", "*", "/", "%"];
const CMP: &[&str] = &["<", "<=", ">", ">="];

fn is_expr_kind(k: &str) -> bool {
  matches!(k, "bool_literal" | "int_literal" | "string_literal" | "local" | "class_ref" | "tuple" | "member_access" | "unary" | "call" | "binary" | "if" | "match" | "lambda" | "block")
}

fn collect_sites(n: &Node, text: &str, interfaces: &BTreeMap<String, Vec<String>>, out: &mut Vec<Site>) {
  match n.kind {
    "binary" => {
      let op = n.attr.as_str();
      for (k, c) in n.children.iter().enumerate() {
        let Some(loc) = c.loc else { continue };
        let side = if k == 0 { "left" } else { "right" };
        if ARITH.contains(&op) {
          out.push(Site { op: "arith-operand-is-string", loc, replacement: "(\"notAnInt\")".into(), detail: format!("{side} operand of `{op}`") });
        } else if CMP.contains(&op) {
          out.push(Site { op: "comparison-operand-is-string", loc, replacement: "(\"notAnInt\")".into(), detail: format!("{side} operand of `{op}`") });
        } else if op == "&&" || op == "||" {
          out.push(Site { op: "logic-operand-is-int", loc, replacement: "(12345)".into(), detail: format!("{side} operand of `{op}`") });
        } else if op == "::" {
          out.push(Site { op: "concat-operand-is-int", loc, replacement: "(12345)".into(), detail: format!("{side} operand of `::`") });
        }
      }
    }
    "unary" => {
      if let Some(loc) = n.children.first().and_then(|c| c.loc) {
        if n.attr == "!" {
          out.push(Site { op: "not-operand-is-int", loc, replacement: "(12345)".into(), detail: "operand of `!`".into() });
        } else {
          out.push(Site { op: "neg-operand-is-string", loc, replacement: "(\"notAnInt\")".into(), detail: "operand of unary `-`".into() });
        }
      }
    }
    "if" => {
      // then-branch of another type than the else-branch
      let else_text = n.children.get(2).and_then(|e| e.children.first()).and_then(|b| b.loc).and_then(|l| splice_source(text, &l)).unwrap_or_default();
      if n.children.len() >= 3 && !else_text.contains("panic") && !else_text.trim().is_empty() {
        if let Some(l) = n.children[1].children.first().and_then(|b| b.loc) {
          out.push(Site { op: "if-branch-of-another-type", loc: l, replacement: "{ ZzWrong.make() }".into(), detail: "then-branch".into() });
        }
      }
    }
    "condition" => {
      if let Some(loc) = n.children.first().and_then(|c| c.loc) {
        out.push(Site { op: "if-condition-is-int", loc, replacement: "(12345)".into(), detail: "condition of `if`".into() });
        out.push(Site { op: "if-condition-is-string", loc, replacement: "(\"notABool\")".into(), detail: "condition of `if`".into() });
      }
    }
    "arguments" => {
      if let Some(loc) = n.loc {
        // `(a, b)` -> `(a, b, 0)` / drop the last argument
        if let Some(src) = splice_source(text, &loc) {
          let inner = src.trim_start_matches('(').trim_end_matches(')').trim();
          let extra = if inner.is_empty() { "(0)".to_string() } else { format!("({inner}, 0)") };
          out.push(Site { op: "one-argument-too-many", loc, replacement: extra, detail: format!("call with {} arguments", n.children.len()) });
          if let (Some(last), true) = (n.children.last().and_then(|c| c.loc), !n.children.is_empty()) {
            let start = if n.children.len() >= 2 { n.children[n.children.len() - 2].loc.map(|l| l.end) } else { Some(samlang_ast::Position(loc.start.0, loc.start.1 + 1)) };
            if let Some(s) = start {
              out.push(Site { op: "one-argument-too-few", loc: Location { module_reference: loc.module_reference, start: s, end: last.end }, replacement: String::new(), detail: format!("call with {} arguments", n.children.len()) });
            }
          }
        }
      }
    }
    "local_name" if n.attr != "this" => {
      if let Some(loc) = n.loc {
        out.push(Site { op: "unresolved-variable", loc, replacement: "undefinedVariableZz".into(), detail: format!("use of `{}`", n.attr) });
      }
    }
    "class_ref_name" => {
      if let Some(loc) = n.loc {
        out.push(Site { op: "unresolved-class", loc, replacement: "UndefinedClassZz".into(), detail: format!("reference to class `{}`", n.attr) });
      }
    }
    "accessed_name" => {
      if let Some(loc) = n.loc {
        out.push(Site { op: "unresolved-member", loc, replacement: "undefinedMemberZz".into(), detail: format!("member `{}`", n.attr) });
      }
    }
    "import_module" => {
      if let Some(loc) = n.loc {
        out.push(Site { op: "unresolved-module", loc, replacement: "no.such.moduleZz".into(), detail: format!("import from `{}`", n.attr) });
      }
    }
    "import_member" => {
      if let Some(loc) = n.loc {
        out.push(Site { op: "unresolved-import-member", loc, replacement: "NotExportedZz".into(), detail: format!("imported member `{}`", n.attr) });
      }
    }
    "int_literal" => {
      if let Some(loc) = n.loc {
        // `-2147483648` is legal: the literal 2147483648 is only a fault when no `-` precedes it
        let after_minus = offset(text, loc.start.0, loc.start.1).map(|o| text[..o].trim_end().ends_with('-')).unwrap_or(true);
        if !n.attr.starts_with('-') {
          for v in ["2147483648", "2147483649", "10000000000", "99999999999999999999"] {
            if v == "2147483648" && after_minus {
              continue;
            }
            out.push(Site { op: "int-literal-out-of-range", loc, replacement: v.into(), detail: format!("literal `{}` -> `{v}`", n.attr) });
          }
        } else {
          out.push(Site { op: "int-literal-out-of-range", loc, replacement: "-2147483649".into(), detail: format!("literal `{}` -> `-2147483649`", n.attr) });
        }
      }
    }
    "match" => {
      // one arm (any but a lone one) gets a body of a type that occurs nowhere else: the arms of a
      // match must agree (the helper class ZzWrong is appended to the module by the splice step)
      let arms_all: Vec<&Node> = n.children.iter().filter(|c| c.kind == "arm").collect();
      // (a sibling arm that only panics has every type: then nothing is guaranteed)
      let sibling_is_polymorphic = |skip: usize| arms_all.iter().enumerate().filter(|(j, _)| *j != skip).all(|(_, a)| a.children.last().and_then(|b| b.loc).and_then(|l| splice_source(text, &l)).map(|t| t.contains("panic")).unwrap_or(true));
      if arms_all.len() >= 2 {
        for (k, a) in arms_all.iter().enumerate() {
          if sibling_is_polymorphic(k) {
            continue;
          }
          if let Some(body) = a.children.last().and_then(|b| b.loc) {
            out.push(Site { op: "match-arm-of-another-type", loc: body, replacement: "ZzWrong.make()".into(), detail: format!("arm {} of {}", k + 1, arms_all.len()) });
          }
        }
      }
      // delete one variant arm when no other arm can cover its tag
      let arms: Vec<&Node> = n.children.iter().filter(|c| c.kind == "arm").collect();
      let tag_of = |a: &Node| -> Option<String> {
        let p = a.children.first()?;
        if p.kind == "pattern_variant" { p.children.iter().find(|c| c.kind == "pattern_tag").map(|c| c.attr.clone()) } else { None }
      };
      let all_variant = arms.iter().all(|a| tag_of(a).is_some());
      if all_variant && arms.len() >= 2 {
        for (k, a) in arms.iter().enumerate() {
          let t = tag_of(a).unwrap();
          if arms.iter().enumerate().any(|(j, b)| j != k && tag_of(b).as_deref() == Some(t.as_str())) {
            continue;
          }
          if let Some(loc) = a.loc {
            // remove the arm and its separating comma: from this arm's start to the next arm's start, or from the previous arm's end
            let l = if k + 1 < arms.len() {
              Location { module_reference: loc.module_reference, start: loc.start, end: arms[k + 1].loc.map(|x| x.start).unwrap_or(loc.end) }
            } else {
              Location { module_reference: loc.module_reference, start: arms[k - 1].loc.map(|x| x.end).unwrap_or(loc.start), end: loc.end }
            };
            out.push(Site { op: "match-arm-deleted", loc: l, replacement: String::new(), detail: format!("arm `{t}` of a match over {} variant arms", arms.len()) });
          }
        }
      }
    }
    "member_definition" => {
      // or-patterns: every alternative must bind exactly the same names. Make one alternative
      // bind an extra name (a parameter of the enclosing member, so the name itself resolves),
      // or bind a different name than the others.
      let params: Vec<String> = n.children.iter().filter(|c| c.kind == "parameters").flat_map(|p| p.children.iter()).filter_map(|p| p.children.iter().find(|c| c.kind == "parameter_name").map(|c| c.attr.clone())).collect();
      fn ors<'a>(n: &'a Node, out: &mut Vec<&'a Node>) {
        if n.kind == "pattern_or" {
          out.push(n);
        }
        for c in &n.children {
          ors(c, out);
        }
      }
      fn leaves<'a>(n: &'a Node, kind: &str, out: &mut Vec<&'a Node>) {
        if n.kind == kind {
          out.push(n);
        }
        for c in &n.children {
          leaves(c, kind, out);
        }
      }
      let mut found = Vec::new();
      ors(n, &mut found);
      for o in found {
        for (k, alt) in o.children.iter().enumerate() {
          let mut binders = Vec::new();
          leaves(alt, "pattern_id", &mut binders);
          let bound: BTreeSet<&str> = binders.iter().map(|b| b.attr.as_str()).collect();
          let Some(extra) = params.iter().find(|p| !bound.contains(p.as_str())) else { continue };
          let mut wild = Vec::new();
          leaves(alt, "pattern_wildcard", &mut wild);
          if let Some(loc) = wild.first().and_then(|w| w.loc) {
            let which = if k == 0 { "or-pattern-first-alternative-binds-extra-name" } else { "or-pattern-later-alternative-binds-extra-name" };
            out.push(Site { op: which, loc, replacement: extra.clone(), detail: format!("alternative {} of {} binds `{extra}` in addition", k + 1, o.children.len()) });
          }
          if let Some(loc) = binders.first().and_then(|b| b.loc) {
            out.push(Site { op: "or-pattern-alternative-binds-different-name", loc, replacement: "otherBinderZz".into(), detail: format!("alternative {} of {} binds `otherBinderZz` instead of `{}`", k + 1, o.children.len(), binders[0].attr) });
          }
        }
      }
    }
    "class" => {
      // a class that implements an interface of this module: delete a required method / change its return type
      let supers: Vec<String> = n.children.iter().filter(|c| c.kind == "supertypes").flat_map(|s| s.children.iter()).filter_map(|a| a.children.iter().find(|c| c.kind == "annot_id_name").map(|c| c.attr.clone())).collect();
      let required: BTreeSet<&String> = supers.iter().filter_map(|s| interfaces.get(s)).flatten().collect();
      if let Some(members) = n.children.iter().find(|c| c.kind == "members") {
        for m in members.children.iter().filter(|c| c.kind == "member_definition") {
          let name = m.children.iter().find(|c| c.kind == "member_name").map(|c| c.attr.clone()).unwrap_or_default();
          if required.contains(&name) {
            if let Some(loc) = m.loc {
              out.push(Site { op: "interface-member-missing", loc, replacement: String::new(), detail: format!("method `{name}` required by {supers:?}") });
            }
            if let Some(rt) = m.children.iter().find(|c| c.kind == "return_type").and_then(|c| c.children.first()) {
              if let (Some(loc), true) = (rt.loc, rt.kind == "annot_primitive" || rt.kind == "annot_id") {
                let new_t = if rt.attr == "bool" { "int" } else { "bool" };
                out.push(Site { op: "interface-member-mistyped", loc, replacement: new_t.into(), detail: format!("return type of `{name}` required by {supers:?}") });
              }
            }
          }
        }
      }
    }
    _ => {}
  }
  let _ = is_expr_kind;
  for c in &n.children {
    collect_sites(c, text, interfaces, out);
  }
}

fn splice_source(text: &str, loc: &Location) -> Option<String> {
  let (a, b) = (offset(text, loc.start.0, loc.start.1)?, offset(text, loc.end.0, loc.end.1)?);
  text.get(a..b).map(|s| s.to_string())
}

/// interfaces declared anywhere in the project: name -> method names
fn interfaces_of(trees: &[Node]) -> BTreeMap<String, Vec<String>> {
  let mut m = BTreeMap::new();
  for t in trees {
    for c in &t.children {
      if c.kind == "interface" {
        let name = c.children.iter().find(|x| x.kind == "toplevel_name").map(|x| x.attr.clone()).unwrap_or_default();
        let methods: Vec<String> = c.children.iter().filter(|x| x.kind == "members").flat_map(|x| x.children.iter()).filter_map(|d| d.children.iter().find(|x| x.kind == "member_name").map(|x| x.attr.clone())).collect();
        // only non-generic interfaces without parents keep the "required" reasoning simple
        if !c.children.iter().any(|x| x.kind == "supertypes") {
          m.insert(name, methods);
        }
      }
    }
  }
  m
}

/// hand-written templates for faults that need cross-module structure
fn template_faults() -> Vec<(&'static str, String, Project, String)> {
  let base_a = "class Secret { private function hidden(): int = 1  function shown(): int = 2 }\nprivate class Hidden { function f(): int = 3 }\ninterface Shape { method area(): int }\nclass Sq(val s: int) : Shape { method area(): int = this.s * this.s }\nclass NotAShape(val s: int) { method other(): int = 0 }\nclass Holder<T: Shape>(val item: T) { method a(): int = this.item.area() }\nclass Util { function <T: Shape> measure(t: T): int = t.area() }\n";
  let ok_b = "import { Secret, Sq, Holder, Util } from lib.A\nclass Main { function main(): unit = { Process.println(Str.fromInt(Secret.shown() + Holder.init(Sq.init(2)).a() + Util.measure(Sq.init(3)))); } }\n";
  let mk = |b: &str| Project::default().with("lib.A", base_a).with("app.B", b);
  vec![
    ("private-member-from-other-module", "Secret.hidden() called from app.B".into(), mk(&ok_b.replace("Secret.shown()", "Secret.hidden()")), "app.B".into()),
    ("private-class-from-other-module", "private class Hidden imported into app.B".into(), mk(&ok_b.replace("import { Secret,", "import { Hidden, Secret,").replace("Secret.shown()", "Hidden.f()")), "app.B".into()),
    ("bound-violated-class-type-argument", "Holder<NotAShape>".into(), mk(&ok_b.replace("import { Secret,", "import { NotAShape, Secret,").replace("Holder.init(Sq.init(2)).a()", "Holder.init(NotAShape.init(2)).a()")), "app.B".into()),
    ("bound-violated-function-type-argument", "Util.measure(NotAShape)".into(), mk(&ok_b.replace("import { Secret,", "import { NotAShape, Secret,").replace("Util.measure(Sq.init(3))", "Util.measure(NotAShape.init(3))")), "app.B".into()),
    ("explicit-type-argument-count", "Util.measure<Sq, Sq>(..)".into(), mk(&ok_b.replace("Util.measure(Sq.init(3))", "Util.measure<Sq, Sq>(Sq.init(3))")), "app.B".into()),
    ("explicit-class-type-argument-count", "annotation Holder<Sq, Sq>".into(), mk(&ok_b.replace("class Main {", "class Main { function h(x: Holder<Sq, Sq>): int = 1 ")), "app.B".into()),
  ]
}

/// Pattern matrices built from scratch: the scrutinee is a tuple / a struct / a variant payload of
/// 2-3 small enums; the complete matrix has one arm per combination of tags, so the arms are
/// pairwise disjoint and deleting ANY single arm makes the match non-exhaustive. The same holes as
/// refutable `let` patterns. Returns the complete (accepted) program and the faulty variants.
fn matrix_family(rng: &mut Rng) -> (Project, Vec<(&'static str, String, Project)>) {
  let k = 2 + rng.below(2);
  let shape = rng.below(3); // 0 tuple, 1 struct, 2 variant payload
  let mut decls = String::new();
  let mut enums: Vec<Vec<(String, bool)>> = Vec::new(); // per column: (tag, has int payload)
  for c in 0..k {
    let nv = 2 + rng.below(2);
    let tags: Vec<(String, bool)> = (0..nv).map(|v| (format!("T{c}v{v}"), rng.chance(1, 2))).collect();
    decls.push_str(&format!("class E{c}({}) {{}}\n", tags.iter().map(|(t, p)| if *p { format!("{t}(int)") } else { t.clone() }).collect::<Vec<_>>().join(", ")));
    enums.push(tags);
  }
  let tys: Vec<String> = (0..k).map(|c| format!("E{c}")).collect();
  let fields: Vec<String> = (0..k).map(|c| format!("fld{c}")).collect();
  let (scrut_ty, imports) = match shape {
    0 => (format!("{}<{}>", if k == 2 { "Pair" } else { "Triple" }, tys.join(", ")), format!("import {{ {} }} from std.tuples\n", if k == 2 { "Pair" } else { "Triple" })),
    1 => {
      decls.push_str(&format!("class Rec({}) {{}}\n", (0..k).map(|c| format!("val {}: {}", fields[c], tys[c])).collect::<Vec<_>>().join(", ")));
      ("Rec".to_string(), String::new())
    }
    _ => {
      decls.push_str(&format!("class Wrap(Only({})) {{}}\n", tys.join(", ")));
      ("Wrap".to_string(), String::new())
    }
  };
  // mention order of struct fields (any order is legal)
  let mut order: Vec<usize> = (0..k).collect();
  if shape == 1 {
    rng.shuffle(&mut order);
  }
  let sub = |c: usize, v: usize| -> String {
    let (t, p) = &enums[c][v];
    if *p { format!("{t}(_)") } else { t.clone() }
  };
  let row_text = |combo: &[usize]| -> String {
    match shape {
      0 => format!("({})", (0..k).map(|c| sub(c, combo[c])).collect::<Vec<_>>().join(", ")),
      1 => format!("{{ {} }}", order.iter().map(|&c| format!("{} as {}", fields[c], sub(c, combo[c]))).collect::<Vec<_>>().join(", ")),
      _ => format!("Only({})", (0..k).map(|c| sub(c, combo[c])).collect::<Vec<_>>().join(", ")),
    }
  };
  let mut combos: Vec<Vec<usize>> = vec![vec![]];
  for c in 0..k {
    combos = combos.into_iter().flat_map(|pre| (0..enums[c].len()).map(move |v| { let mut x = pre.clone(); x.push(v); x })).collect();
  }
  let program = |rows: &[Vec<usize>], let_row: Option<&Vec<usize>>| -> Project {
    let arms: Vec<String> = rows.iter().enumerate().map(|(n, r)| format!("      {} -> {n}", row_text(r))).collect();
    let let_fn = match let_row {
      Some(r) => format!("  function g(x: {scrut_ty}): int = {{ let {} = x; 1 }}\n", row_text(r)),
      None => String::new(),
    };
    let text = format!("{imports}{decls}class Main {{\n  function f(x: {scrut_ty}): int =\n    match x {{\n{}\n    }}\n{let_fn}  function main(): unit = {{ }}\n}}\n", arms.join(",\n"));
    Project::single("pat.Matrix", &text)
  };
  let base = program(&combos, None);
  let mut faults = Vec::new();
  let shape_name = ["tuple", "struct", "variant-payload"][shape];
  for r in 0..combos.len() {
    let mut rows = combos.clone();
    let gone = rows.remove(r);
    faults.push(("pattern-matrix-arm-deleted", format!("{shape_name} of {k} enums, field order {order:?}: arm {} of {} deleted", row_text(&gone), combos.len()), program(&rows, None)));
  }
  // a refutable pattern in a plain let
  let r = combos[rng.below(combos.len())].clone();
  faults.push(("refutable-pattern-in-let", format!("{shape_name} of {k} enums: let {} = x", row_text(&r)), program(&combos, Some(&r))));
  (base, faults)
}

struct CaseOut {
  sites_tried: u64,
  by_op: BTreeMap<String, u64>,
  fails: Vec<(String, String, String)>,
  base_rejected: bool,
}

fn judge_mutant(project: &Project, module: &str, entry: &str, op: &str, detail: &str, out: &mut CaseOut) {
  out.sites_tried += 1;
  *out.by_op.entry(op.to_string()).or_insert(0) += 1;
  let res = pool::catch(AssertUnwindSafe(|| {
    let mut heap = samlang_heap::Heap::new();
    let checked = front::check_project(&mut heap, project);
    let m = front::mod_ref(&mut heap, module);
    let total = checked.errors.errors().len();
    let in_module = checked.errors.errors().iter().filter(|e| e.location.module_reference == m).count();
    (total, in_module)
  }));
  let replay = || format!("# fault operator {op}: {detail} (module {module})\n{}", diffexec::render_project(&Project { modules: project.modules.iter().filter(|(n, _)| !n.starts_with("std.")).cloned().collect() }));
  match res {
    Err(e) => out.fails.push((format!("front-end-panic:{}", e.rsplit(" @ ").next().unwrap_or("").replace("/repo/", "")), format!("front end panicked on the mutant ({op}: {detail}): {e}"), replay())),
    Ok((total, in_module)) => {
      if total == 0 {
        out.fails.push((format!("accepted:{op}"), format!("mutant with a guaranteed static error is accepted without any diagnostic ({op}: {detail})"), replay()));
      } else if in_module == 0 {
        out.fails.push((format!("error-not-in-offending-module:{op}"), format!("the mutant is rejected but no diagnostic is located in the edited module {module} ({op}: {detail})"), replay()));
      }
      // the compiler must emit no code
      let p2 = project.clone();
      let e2 = entry.to_string();
      match pool::catch(AssertUnwindSafe(move || front::compile_project(&p2, &e2).is_ok())) {
        Ok(true) => out.fails.push((format!("compiled:{op}"), format!("compile_sources emitted code for a program with a static error ({op}: {detail})"), replay())),
        Ok(false) => {}
        Err(e) => out.fails.push((format!("compiler-panic-on-rejected-program:{}", e.rsplit(" @ ").next().unwrap_or("").replace("/repo/", "")), format!("compile_sources panicked instead of reporting diagnostics ({op}: {detail}): {e}"), replay())),
      }
    }
  }
}

fn run_case(seed: u64, i: u64, corpus: &Corpus, tier: &str) -> (CaseOut, String, Option<Value>) {
  let mut rng = Rng::new(seed.wrapping_mul(0x9E3779B97F4A7C15) ^ i.wrapping_mul(0xD1B54A32D192ED03));
  let mut out = CaseOut { sites_tried: 0, by_op: BTreeMap::new(), fails: vec![], base_rejected: false };
  if i == 0 {
    for (op, detail, p, module) in template_faults() {
      let project = p.with_std();
      judge_mutant(&project, &module, "app.B", op, &detail, &mut out);
    }
    return (out, "templates".into(), None);
  }
  if i % 10 == 5 {
    // complete pattern matrices with one arm removed
    let (base, faults) = matrix_family(&mut rng);
    let mut heap = samlang_heap::Heap::new();
    let ok = !front::check_project(&mut heap, &base.clone().with_std()).errors.has_errors();
    if !ok {
      out.base_rejected = true;
      return (out, "pattern matrix (complete matrix rejected)".into(), None);
    }
    let n = faults.len();
    for (op, detail, p) in faults {
      judge_mutant(&p.with_std(), "pat.Matrix", "pat.Matrix", op, &detail, &mut out);
    }
    return (out, format!("pattern matrix with {n} single-arm deletions"), None);
  }
  if i % 10 == 2 {
    // a local used outside its scope: a use of one local is replaced by the name of another local
    // of the same function; the fault is only kept when the independent scope resolver finds no
    // binding for the new occurrence (e.g. an if-let binder used in the else side, a match-arm
    // binder used in another arm, a lambda parameter used after the lambda)
    let base = vcore::exprgen::binder_zoo(&mut rng);
    let mut heap = samlang_heap::Heap::new();
    if front::check_project(&mut heap, &Project::single("Zoo", &base).with_std()).errors.has_errors() {
      out.base_rejected = true;
      return (out, "binder zoo (base rejected)".into(), None);
    }
    let Ok(parsed) = vcore::fmtcheck::parse(&base) else { return (out, "binder zoo (unparsable)".into(), None) };
    let tree = Walker::new(&parsed.heap).module(&parsed.module);
    let bindings = vcore::scope::resolve(&tree);
    let mut tried = 0;
    let mut attempts = 0;
    while tried < 8 && attempts < 60 && !bindings.is_empty() {
      attempts += 1;
      let x = &bindings[rng.below(bindings.len())];
      if x.uses.is_empty() {
        continue;
      }
      let site = x.uses[rng.below(x.uses.len())];
      let others: Vec<&vcore::scope::Binding> = bindings.iter().filter(|y| y.member == x.member && y.name != x.name && y.name != "this").collect();
      if others.is_empty() {
        continue;
      }
      let y = others[rng.below(others.len())];
      let Some(mutated) = splice(&base, &site, &y.name) else { continue };
      let Ok(p2) = vcore::fmtcheck::parse(&mutated) else { continue };
      if !p2.syntax_errors.is_empty() {
        continue;
      }
      let tree2 = Walker::new(&p2.heap).module(&p2.module);
      let resolved = vcore::scope::resolve(&tree2).iter().any(|b| b.name == y.name && b.uses.iter().chain(b.defs.iter()).any(|l| l.start == site.start));
      if resolved {
        continue; // the other local is in scope there: not a guaranteed error
      }
      tried += 1;
      judge_mutant(&Project::single("Zoo", &mutated).with_std(), "Zoo", "Zoo", "variable-used-outside-its-scope", &format!("`{}` ({}) written where `{}` was used, at {}:{}", y.name, y.kind, x.name, site.start.0 + 1, site.start.1 + 1), &mut out);
    }
    return (out, format!("binder zoo with {tried} out-of-scope uses"), None);
  }
  if i % 10 == 7 {
    // bounded generics in every shape: one type argument that violates its bound
    let base = vcore::exprgen::generic_zoo(&mut rng);
    let mut heap = samlang_heap::Heap::new();
    if front::check_project(&mut heap, &Project::single("Zoo", &base).with_std()).errors.has_errors() {
      out.base_rejected = true;
      return (out, "generic zoo (base rejected)".into(), None);
    }
    let faults = vcore::exprgen::generic_faults(&base);
    let n = faults.len();
    for (op, text) in faults {
      judge_mutant(&Project::single("Zoo", &text).with_std(), "Zoo", "Zoo", op, "a type argument that does not satisfy the bound of its type parameter", &mut out);
    }
    return (out, format!("generic zoo with {n} bound violations"), None);
  }
  if i % 10 == 8 {
    // arity / field errors in patterns of every binding construct
    let base = vcore::exprgen::binder_zoo(&mut rng);
    let mut heap = samlang_heap::Heap::new();
    if front::check_project(&mut heap, &Project::single("Zoo", &base).with_std()).errors.has_errors() {
      out.base_rejected = true;
      return (out, "binder zoo (base rejected)".into(), None);
    }
    let faults = vcore::exprgen::pattern_faults(&base, &mut rng);
    let n = faults.len();
    for (op, text) in faults {
      judge_mutant(&Project::single("Zoo", &text).with_std(), "Zoo", "Zoo", op, "one ill-formed pattern in a binder zoo module", &mut out);
    }
    return (out, format!("binder zoo with {n} pattern faults"), None);
  }
  // base program: generated (2 of 3) or a sample program with its dependencies
  let (label, user, entry): (String, Project, String) = if i % 3 != 0 {
    let pseed = seed.wrapping_mul(1_000_003).wrapping_add(i);
    let g = pgen::generate(pseed, &GenConfig::default_for(pseed));
    (format!("pgen seed {pseed}"), g.project, g.entry)
  } else {
    let mut p = Project::default();
    p.modules.extend(corpus.tests.iter().cloned());
    ("tests.*".into(), p, "tests.AllTests".into())
  };
  let project = user.clone().with_std();
  // the base must be accepted
  let mut heap = samlang_heap::Heap::new();
  let checked = front::check_project(&mut heap, &project);
  if checked.errors.has_errors() {
    out.base_rejected = true;
    return (out, label, None);
  }
  // pick one user module to mutate
  let user_mods: Vec<&(String, String)> = user.modules.iter().collect();
  let (mname, mtext) = user_mods[rng.below(user_mods.len())].clone();
  let trees: Vec<Node> = project.modules.iter().map(|(n, _)| Walker::new(&heap).module(&checked.parsed[&front::mod_ref_lookup(&heap, n).unwrap()])).collect();
  let interfaces = interfaces_of(&trees);
  let tree = Walker::new(&heap).module(&checked.parsed[&front::mod_ref_lookup(&heap, &mname).unwrap()]);
  let mut sites = Vec::new();
  collect_sites(&tree, &mtext, &interfaces, &mut sites);
  // all operators, a bounded number of random sites each
  let per_op = if tier == "thorough" { 6 } else { 3 };
  let mut by_op: BTreeMap<&'static str, Vec<Site>> = BTreeMap::new();
  for s in sites {
    by_op.entry(s.op).or_default().push(s);
  }
  let mut sample = None;
  for (op, mut v) in by_op {
    rng.shuffle(&mut v);
    for s in v.into_iter().take(per_op) {
      let Some(mut mutated) = splice(&mtext, &s.loc, &s.replacement) else { continue };
      if s.replacement.contains("ZzWrong") {
        mutated.push_str("\nclass ZzWrong { function make(): ZzWrong = ZzWrong.make() }\n");
      }
      let mut p2 = project.clone();
      for m in p2.modules.iter_mut() {
        if m.0 == mname {
          m.1 = mutated.clone();
        }
      }
      if sample.is_none() {
        let ln = s.loc.start.0 as usize;
        sample = Some(json!({"operator": op, "site": s.detail, "module": mname, "mutated_line": mutated.lines().nth(ln).unwrap_or("").chars().take(160).collect::<String>()}));
      }
      judge_mutant(&p2, &mname, &entry, op, &s.detail, &mut out);
    }
  }
  (out, label, sample)
}

fn total(tier: &str) -> u64 {
  if tier == "thorough" { 4_000 } else { 200 }
}

fn main() {
  let args: Vec<String> = std::env::args().collect();
  if let Some(ctx) = WorkerCtx::from_args(&args) {
    pool::install_hook();
    let corpus = Corpus::load();
    let n = total(&ctx.tier);
    let mut i = ctx.only_case.unwrap_or(ctx.start_case);
    while i < n {
      if ctx.mine(i) {
        ctx.begin(i, &format!("base program {i}"));
        let (o, label, sample) = run_case(ctx.seed, i, &corpus, &ctx.tier);
        let mut v = json!({"t": "r", "case": i, "label": label, "sites": o.sites_tried, "by_op": o.by_op, "base_rejected": o.base_rejected});
        if !o.fails.is_empty() {
          v["fails"] = json!(o.fails.iter().map(|(s, w, r)| json!({"sig": s, "what": w, "replay": r})).collect::<Vec<_>>());
        }
        if let Some(s) = sample {
          v["sample"] = s;
        }
        pool::emit(&v);
        ctx.end(i);
      }
      if ctx.only_case.is_some() {
        break;
      }
      i += 1;
    }
    return;
  }
  let tier = args.get(1).cloned().unwrap_or_else(|| env_tier("quick"));
  let seed = env_seed();
  let mut run = Run::new("C06", &tier, seed, "fault_enumeration");
  let opts = DriveOpts {
    nshards: 16,
    tier: tier.clone(),
    seed,
    stall: Duration::from_secs(300),
    overall: Duration::from_secs(if tier == "thorough" { 3000 } else { 900 }),
    extra: vec![],
    env: vec![("RAYON_NUM_THREADS".into(), "2".into())],
    max_deaths_per_shard: 30,
  };
  let (res, timed_out) = pool::drive(&opts);
  if timed_out {
    run.inconclusive("overall wall-clock cap reached before all base programs ran");
  }
  let mut by_op: BTreeMap<String, u64> = BTreeMap::new();
  let mut bases = 0u64;
  let mut seen: BTreeSet<String> = BTreeSet::new();
  for v in &res.events {
    if v["t"].as_str() != Some("r") {
      continue;
    }
    bases += 1;
    if v["base_rejected"].as_bool() == Some(true) {
      run.inconclusive("base program was not accepted (no mutants derived)");
      continue;
    }
    run.evaluations += v["sites"].as_u64().unwrap_or(0);
    if let Some(m) = v["by_op"].as_object() {
      for (k, c) in m {
        *by_op.entry(k.clone()).or_insert(0) += c.as_u64().unwrap_or(0);
      }
    }
    for f in v["fails"].as_array().cloned().unwrap_or_default() {
      let sig = f["sig"].as_str().unwrap_or("").to_string();
      let replay = if seen.insert(sig.clone()) { f["replay"].as_str().unwrap_or("").to_string() } else { f["replay"].as_str().unwrap_or("").lines().take(3).collect::<Vec<_>>().join("\n") };
      run.violation(sig, format!("{} [{}]", f["what"].as_str().unwrap_or(""), v["label"].as_str().unwrap_or("")), replay);
    }
    if let Some(s) = v.get("sample") {
      run.sample(s.clone());
    }
  }
  for d in &res.deaths {
    run.violation(format!("front-end-{}:{}", if d.hang { "hang" } else { "abort" }, d.how), format!("worker died ({}) on base program {:?}: {}", d.how, d.case, d.stderr_tail.lines().rev().find(|l| !l.trim().is_empty()).unwrap_or("")), format!("case {:?} seed {seed}", d.case));
  }
  run.distinct_nontrivial = run.evaluations;
  run.rule = "base programs: generator programs and the repository's sample programs (accepted by the checker); each fault operator (string operand of an arithmetic / comparison operator, int operand of && || ! and of ::, non-bool if condition, one argument too many / too few, unresolved variable / class / member / module / import member, int literal out of the 32-bit range, deleted match arm that no other arm covers, deleted or mistyped interface member, plus cross-module templates for private access, violated bounds and wrong type-argument counts) is applied at up to 3 (quick) / 6 (thorough) random sites per base program; non-trivial = distinct (program, operator, site) triples, every one of which is a different ill-typed program".into();
  run.cov("base_programs", json!(bases));
  run.cov("mutants_per_fault_operator", json!(by_op));
  run.assumptions = vec![
    "each fault operator yields a statically incorrect program by the language definition alone (operand types of built-in operators, arity, name resolution, literal range, exhaustiveness, interface conformance)".into(),
    "locations of the spliced constructs come from the repository's parser (judged separately by C14)".into(),
  ];
  std::process::exit(run.finish());
}
