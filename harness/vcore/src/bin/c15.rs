//! C15 — navigation and rename agree with the language's scoping rules.
//! Oracle: an independent scope resolver (vcore::scope) gives, for every local binding, its
//! defining occurrence(s) and uses; go-to-definition, find-references and rename are queried at
//! every occurrence and compared; renamed programs are re-checked and re-run.
use samlang_ast::{Location, Position};
use samlang_services::{query, rewrite};
use serde_json::json;
use std::collections::{BTreeMap, BTreeSet};
use std::panic::AssertUnwindSafe;
use vcore::astwalk::Walker;
use vcore::corpus::Corpus;
use vcore::evidence::{Run, env_seed, env_tier};
use vcore::fmtcheck;
use vcore::front::{self, Project};
use vcore::lsphist;
use vcore::pool;
use vcore::rng::Rng;
use vcore::scope::{self, Binding};

fn key(l: &Location) -> (u32, u32, u32, u32) {
  (l.start.0, l.start.1, l.end.0, l.end.1)
}

fn fmt_loc(l: &Location) -> String {
  format!("{}:{}-{}:{}", l.start.0 + 1, l.start.1 + 1, l.end.0 + 1, l.end.1 + 1)
}

fn bindings_of(text: &str) -> Option<Vec<Binding>> {
  let p = fmtcheck::parse(text).ok()?;
  if !p.syntax_errors.is_empty() {
    return None;
  }
  Some(scope::resolve(&Walker::new(&p.heap).module(&p.module)))
}

/// normalised diagnostics of one module: (kind, message with positions removed)
fn diag_signature(state: &samlang_services::server_state::ServerState, m: &samlang_heap::ModuleReference, rename: Option<(&str, &str)>) -> Vec<String> {
  let mut v: Vec<String> = state
    .get_errors(m)
    .iter()
    .map(|e| {
      let f = e.to_ide_format(&state.heap, &state.string_sources);
      let mut msg = format!("{}|{}", vcore::pipeline::detail_kind(&e.detail), f.ide_error);
      if let Some((new, old)) = rename {
        msg = msg.replace(new, old);
      }
      msg
    })
    .collect();
  v.sort();
  v
}

struct Out {
  queries: u64,
  renames: u64,
  forms: BTreeSet<String>,
  fails: Vec<(String, String)>,
}

fn check_module(name: &str, text: &str, others: &[(String, String)], entry: Option<&str>, rng: &mut Rng, max_bindings: usize, out: &mut Out) {
  let Some(bindings) = bindings_of(text) else { return };
  let mut srcs = vec![(name.to_string(), text.to_string())];
  srcs.extend(others.iter().cloned());
  let Ok(mut state) = pool::catch(AssertUnwindSafe(|| lsphist::new_state(&srcs))) else { return };
  let m = lsphist::mref(&mut state.heap, name);
  let base_diags = diag_signature(&state, &m, None);
  let accepted = srcs.iter().all(|(n, _)| {
    let mm = lsphist::mref(&mut state.heap, n);
    state.get_errors(&mm).is_empty()
  });
  let mut idx: Vec<usize> = (0..bindings.len()).collect();
  rng.shuffle(&mut idx);
  for bi in idx.into_iter().take(max_bindings) {
    let b = &bindings[bi];
    let truth: BTreeSet<(u32, u32, u32, u32)> = b.defs.iter().chain(b.uses.iter()).map(key).collect();
    let defs: BTreeSet<(u32, u32, u32, u32)> = b.defs.iter().map(key).collect();
    let form = format!("{}{}{}", b.kind, if b.shorthand { ":shorthand-field" } else { "" }, if b.defs.len() > 1 { ":or-pattern" } else { "" });
    let occurrences: Vec<(&'static str, Location)> = b.defs.iter().map(|l| ("definition", *l)).chain(b.uses.iter().map(|l| ("use", *l))).collect();
    for (okind, l) in &occurrences {
      out.forms.insert(format!("{form}@{okind}"));
      // query in the middle and at the start of the occurrence
      for p in [Position(l.start.0, l.start.1), Position(l.start.0, (l.start.1 + l.end.1) / 2)] {
        out.queries += 2;
        match pool::catch(AssertUnwindSafe(|| query::definition_location(&state, &m, p))) {
          Err(e) => out.fails.push((format!("definition-panic:{}", e.rsplit(" @ ").next().unwrap_or("")), e)),
          Ok(d) => match d {
            Some(d) if d.module_reference == m && defs.contains(&key(&d)) => {}
            other => out.fails.push((
              format!("definition-wrong:{form}@{okind}"),
              format!("go-to-definition at {} ({okind} of `{}` in {}, {form}) returned {:?}, expected one of {:?}", fmt_loc(l), b.name, b.member, other.map(|d| fmt_loc(&d)), b.defs.iter().map(fmt_loc).collect::<Vec<_>>()),
            )),
          },
        }
        match pool::catch(AssertUnwindSafe(|| query::all_references(&state, &m, p))) {
          Err(e) => out.fails.push((format!("references-panic:{}", e.rsplit(" @ ").next().unwrap_or("")), e)),
          Ok(refs) => {
            let got: BTreeSet<(u32, u32, u32, u32)> = refs.iter().filter(|r| r.module_reference == m).map(key).collect();
            if got != truth {
              let missing: Vec<_> = truth.difference(&got).collect();
              let extra: Vec<_> = got.difference(&truth).collect();
              let class = match (missing.is_empty(), extra.is_empty()) {
                (false, true) => "missing",
                (true, false) => "extra",
                _ => "missing+extra",
              };
              out.fails.push((
                format!("references-wrong:{class}:{form}@{okind}"),
                format!("find-references at {} ({okind} of `{}` in {}, {form}): missing {:?}, unexpected {:?}", fmt_loc(l), b.name, b.member, missing, extra),
              ));
            }
          }
        }
      }
    }
    // rename through one occurrence
    let (okind, l) = occurrences[rng.below(occurrences.len())];
    let fresh = format!("renamedFresh{}", rng.below(1000));
    out.renames += 1;
    let renamed = pool::catch(AssertUnwindSafe(|| rewrite::rename(&mut state, &m, Position(l.start.0, l.start.1), &fresh)));
    match renamed {
      Err(e) => out.fails.push((format!("rename-panic:{}", e.rsplit(" @ ").next().unwrap_or("")), e)),
      Ok(None) => out.fails.push((format!("rename-refused:{form}@{okind}"), format!("rename at {} ({okind} of `{}` in {}, {form}) returned nothing", fmt_loc(&l), b.name, b.member))),
      Ok(Some(new_text)) => {
        let ctx = format!("rename of `{}` ({form}, via {okind} at {}) in {}", b.name, fmt_loc(&l), b.member);
        let Some(new_bindings) = bindings_of(&new_text) else {
          out.fails.push((format!("rename-breaks-syntax:{form}"), format!("{ctx}: the returned document does not parse:\n{new_text}")));
          continue;
        };
        // same diagnostics as before
        let mut srcs2 = vec![(name.to_string(), new_text.clone())];
        srcs2.extend(others.iter().cloned());
        if let Ok(mut st2) = pool::catch(AssertUnwindSafe(|| lsphist::new_state(&srcs2))) {
          let m2 = lsphist::mref(&mut st2.heap, name);
          let d2 = diag_signature(&st2, &m2, Some((&fresh, &b.name)));
          if d2 != base_diags {
            out.fails.push((format!("rename-changes-diagnostics:{form}"), format!("{ctx}: diagnostics before {:?}, after {:?}", base_diags, d2)));
            continue;
          }
        }
        // the renamed binding has exactly as many occurrences as before
        match new_bindings.iter().find(|nb| nb.name == fresh) {
          None => out.fails.push((format!("rename-lost-binding:{form}"), format!("{ctx}: no binding called `{fresh}` in the returned document"))),
          Some(nb) => {
            if nb.defs.len() + nb.uses.len() != b.defs.len() + b.uses.len() {
              out.fails.push((
                format!("rename-occurrence-count:{form}"),
                format!("{ctx}: {} occurrences before, {} occurrences of the new name after", b.defs.len() + b.uses.len(), nb.defs.len() + nb.uses.len()),
              ));
            }
            // rename back restores the (formatted) original
            if let Ok(mut st3) = pool::catch(AssertUnwindSafe(|| lsphist::new_state(&srcs2))) {
              let m3 = lsphist::mref(&mut st3.heap, name);
              let back = pool::catch(AssertUnwindSafe(|| rewrite::rename(&mut st3, &m3, nb.defs[0].start, &b.name)));
              let formatted_original = fmtcheck::parse(text).ok().and_then(|p| fmtcheck::format(&p, 100).ok());
              match (back, formatted_original) {
                (Ok(Some(t)), Some(o)) if t == o => {}
                (Ok(Some(t)), Some(o)) => {
                  let (a, bb) = t.lines().zip(o.lines()).find(|(x, y)| x != y).map(|(x, y)| (x.to_string(), y.to_string())).unwrap_or_default();
                  out.fails.push((format!("rename-back-differs:{form}"), format!("{ctx}: renaming back does not restore the formatted original: `{}` vs `{}`", a.trim(), bb.trim())));
                }
                (Ok(None), _) => out.fails.push((format!("rename-back-refused:{form}"), format!("{ctx}: renaming back returned nothing"))),
                _ => {}
              }
            }
          }
        }
        // behaviour: only for accepted whole programs with an entry point
        if let (true, Some(entry)) = (accepted, entry) {
          let mk = |t: &str| {
            let mut p = Project::default();
            p.modules.push((name.to_string(), t.to_string()));
            p.modules.extend(others.iter().cloned());
            p
          };
          let run = |p: &Project| {
            let mut heap = samlang_heap::Heap::new();
            let c = front::check_project(&mut heap, p);
            if c.errors.has_errors() {
              return None;
            }
            let e = front::mod_ref(&mut heap, entry);
            Some(vcore::refint::run(&heap, &c.checked, e, &vcore::trace::Limits { max_steps: 20_000_000, max_depth: 4000, max_lines: 20_000 }).0)
          };
          if let (Some(a), Some(bb)) = (run(&mk(text)), run(&mk(&new_text))) {
            if a.conclusive() && (a.lines != bb.lines || a.ending != bb.ending) {
              out.fails.push((format!("rename-changes-behaviour:{form}"), format!("{ctx}: {}", vcore::diffexec::describe_diff("the original", &a, "the renamed program", &bb))));
            }
          }
        }
      }
    }
  }
}

fn main() {
  let args: Vec<String> = std::env::args().collect();
  let tier = args.get(1).cloned().unwrap_or_else(|| env_tier("quick"));
  let seed = env_seed();
  pool::install_hook();
  let mut run = Run::new("C15", &tier, seed, "exploration");
  let thorough = tier == "thorough";
  let corpus = Corpus::load();
  let ncases: u64 = if thorough { 6_000 } else { 320 };
  let nthreads = 16u64;
  let corpus_ref = &corpus;
  let results: Vec<_> = std::thread::scope(|sc| {
    let hs: Vec<_> = (0..nthreads)
      .map(|t| {
        sc.spawn(move || {
          let mut out = Out { queries: 0, renames: 0, forms: BTreeSet::new(), fails: vec![] };
          let mut found: BTreeMap<String, (String, String)> = BTreeMap::new();
          let mut cases = 0u64;
          let mut sample = None;
          let mut k = t;
          while k < ncases {
            let mut rng = Rng::new(seed.wrapping_mul(0x9E3779B97F4A7C15) ^ k);
            let before = out.fails.len();
            let shown: String;
            if k % 4 == 0 {
              // a sample program of the repository, surrounded by the others
              let f = &corpus_ref.tests[(k / 4) as usize % corpus_ref.tests.len()];
              let others: Vec<(String, String)> = corpus_ref.tests.iter().chain(corpus_ref.std.iter()).filter(|x| x.0 != f.0).cloned().collect();
              check_module(&f.0, &f.1, &others, None, &mut rng, if thorough { 12 } else { 4 }, &mut out);
              shown = format!("# module {}\n{}", f.0, f.1);
            } else if k % 4 == 1 {
              // every binder form in every binding construct (or-pattern alternatives, shorthand
              // fields, nested scopes reusing field names, partially annotated lambdas)
              let text = vcore::exprgen::binder_zoo(&mut rng);
              let others: Vec<(String, String)> = corpus_ref.std.iter().cloned().collect();
              check_module("Zoo", &text, &others, Some("Zoo"), &mut rng, if thorough { 16 } else { 8 }, &mut out);
              shown = format!("# module Zoo (binder zoo)\n{text}");
            } else {
              let pseed = seed.wrapping_mul(7919).wrapping_add(k);
              let g = vcore::pgen::generate(pseed, &vcore::pgen::GenConfig::default_for(pseed));
              let mut ms = g.project.modules.clone();
              let pick = rng.below(ms.len());
              let first = ms.remove(pick);
              let mut others = ms;
              others.extend(corpus_ref.std.iter().cloned());
              check_module(&first.0, &first.1, &others, Some(&g.entry), &mut rng, if thorough { 10 } else { 5 }, &mut out);
              shown = format!("# module {} of pgen seed {pseed}\n{}", first.0, first.1);
            }
            cases += 1;
            if sample.is_none() && shown.len() < 1500 {
              sample = Some(shown.clone());
            }
            for (sig, what) in out.fails.drain(before..).collect::<Vec<_>>() {
              found.entry(sig).or_insert((what, shown.clone()));
            }
            k += nthreads;
          }
          (out.queries, out.renames, out.forms, found, cases, sample)
        })
      })
      .collect();
    hs.into_iter().map(|h| h.join().unwrap()).collect()
  });
  let (mut queries, mut renames) = (0u64, 0u64);
  let mut forms: BTreeSet<String> = BTreeSet::new();
  for (q, r, f, found, cases, sample) in results {
    queries += q;
    renames += r;
    forms.extend(f);
    run.evaluations += cases;
    for (sig, (what, replay)) in found {
      run.violation(sig, what, replay);
    }
    if let Some(s) = sample {
      run.sample(json!(s.chars().take(600).collect::<String>()));
    }
  }
  run.distinct_nontrivial = forms.len() as u64;
  run.rule = "modules of generator programs and of the repository's samples; for randomly chosen local bindings every occurrence (definitions and uses) is queried with go-to-definition and find-references at two positions, and the binding is renamed through one random occurrence to a fresh name and back; non-trivial = distinct (binder form, occurrence kind) pairs exercised, binder forms being parameter / let / match-arm pattern / if-let pattern / lambda parameter, each possibly :shorthand-field or :or-pattern".into();
  run.cov("definition_and_reference_queries", json!(queries));
  run.cov("renames", json!(renames));
  run.cov("binder_forms_x_occurrence_kinds", json!(forms));
  run.assumptions = vec![
    "the independent scope resolver (vcore::scope, written from the spec's scoping rules) is the ground truth for binders and uses".into(),
    "after a rename, diagnostics are compared as sorted (kind, message) lists with the new name mapped back; behaviour through the reference interpreter".into(),
  ];
  std::process::exit(run.finish());
}
