//! C05 — any input text yields a result or diagnostics, never a crash or a hang; a syntax error
//! is always reported when the parser had to skip or invent tokens.
//! Subprocess workers run parse → (yield oracle, format) → check → render (text/IDE/terminal)
//! → compile on generated hostile inputs; the driver owns watchdog and crash attribution.
use serde_json::{Value, json};
use std::collections::{BTreeMap, BTreeSet};
use std::time::Duration;
use vcore::corpus::Corpus;
use vcore::evidence::{Run, env_seed, env_tier, hash_str};
use vcore::mutate;
use vcore::pool::{self, DriveOpts, WorkerCtx};
use vcore::rng::Rng;

const KINDS: &[&str] = &[
  "random-bytes", "utf8-soup", "token-soup", "structured-soup", "truncation", "token-mutation", "range-mutation", "ladder", "multi-module", "std-mutation", "heavy-mutation", "comment-string-edges", "malformed-patterns",
];

fn total_cases(tier: &str) -> u64 {
  if tier == "thorough" { 1_600_000 } else { 48_000 }
}

fn edge_soup(rng: &mut Rng) -> String {
  let parts = [
    "/**/", "/***/", "/** */", "/* */", "/*", "*/", "//", "// x", "/*/", "/**", "\"", "\"\"", "\"\\\"", "\"\\\\\"", "\"a\\\"b\"", "\"\n\"", "\"é\"", "\"\\n\\t\\0\\b\\f\\v\"", "\"\\x\"", "'", "`", "${x}", "\r\n", "\n", " ", "\t", "\u{b}", "\u{c}",
    "class", "A", "{", "}", "function", "f", "(", ")", ":", "unit", "=", "1", "let", "x", ";", "é", "€",
  ];
  let n = 1 + rng.below(24);
  let mut s = String::new();
  for _ in 0..n {
    s.push_str(*rng.pick(&parts));
    if rng.chance(1, 3) {
      s.push(' ');
    }
  }
  if rng.bool() { format!("class Main {{ function main(): unit = {{ let s = {s}; }} }}") } else { s }
}

/// deterministic case generator: (kind, description, modules, in_bounds)
fn gen_case(seed: u64, i: u64, corpus: &Corpus) -> (String, String, Vec<(String, String)>, bool) {
  let mut rng = Rng::new(seed ^ i.wrapping_mul(0x9E3779B97F4A7C15));
  let kind = KINDS[(i % KINDS.len() as u64) as usize];
  let all = corpus.all();
  let pick_file = |rng: &mut Rng| -> (String, String) {
    let f = all[rng.below(all.len())];
    (f.0.clone(), f.1.clone())
  };
  let single = |t: String| vec![("Main".to_string(), t)];
  match kind {
    "random-bytes" => (kind.into(), String::new(), single(mutate::random_bytes(&mut rng, 600)), true),
    "utf8-soup" => (kind.into(), String::new(), single(mutate::utf8_soup(&mut rng, 300)), true),
    "token-soup" => (kind.into(), String::new(), single(mutate::token_soup(&mut rng, 120)), true),
    "structured-soup" => (kind.into(), String::new(), single(mutate::structured_soup(&mut rng, 60)), true),
    "comment-string-edges" => (kind.into(), String::new(), single(edge_soup(&mut rng)), true),
    "malformed-patterns" => {
      // a module full of binding constructs with one to three ill-formed patterns (arity, duplicate
      // or unknown fields, sub-patterns on payload-free variants), sometimes mutated further
      let base = vcore::exprgen::binder_zoo(&mut rng);
      let mut text = base.clone();
      let mut ops = Vec::new();
      for _ in 0..1 + rng.below(3) {
        let faults = vcore::exprgen::pattern_faults(&text, &mut rng);
        if faults.is_empty() {
          break;
        }
        let (op, t) = faults[rng.below(faults.len())].clone();
        ops.push(op);
        text = t;
      }
      if rng.chance(1, 3) {
        text = mutate::token_mutation(&text, &mut rng, 1).0;
      }
      (kind.into(), ops.join("+"), single(text), true)
    }
    "truncation" => {
      let (n, t) = pick_file(&mut rng);
      (kind.into(), format!("{n}"), vec![(n, mutate::truncate_at(&t, &mut rng))], true)
    }
    "token-mutation" => {
      let (n, t) = pick_file(&mut rng);
      let k = 1 + rng.below(3);
      let (m, d) = mutate::token_mutation(&t, &mut rng, k);
      (kind.into(), format!("{n}: {d}"), vec![(n, m)], true)
    }
    "heavy-mutation" => {
      let (n, t) = pick_file(&mut rng);
      let k = 5 + rng.below(40);
      let (m, d) = mutate::token_mutation(&t, &mut rng, k);
      (kind.into(), format!("{n}: {} edits {}", k, d.chars().take(60).collect::<String>()), vec![(n, m)], true)
    }
    "range-mutation" => {
      let (n, t) = pick_file(&mut rng);
      let (_, donor) = pick_file(&mut rng);
      let (m, d) = mutate::range_mutation(&t, &donor, &mut rng);
      (kind.into(), format!("{n}: {d}"), vec![(n, m)], true)
    }
    "std-mutation" => {
      // a broken standard-library module underneath an unmodified user module that depends on it
      let (sn, st) = {
        let f = &corpus.std[rng.below(corpus.std.len())];
        (f.0.clone(), f.1.clone())
      };
      let nedits = 1 + rng.below(2);
      let (m, d) = if rng.bool() { mutate::token_mutation(&st, &mut rng, nedits) } else { mutate::range_mutation(&st, &st.clone(), &mut rng) };
      let (un, ut) = {
        let f = &corpus.tests[rng.below(corpus.tests.len())];
        (f.0.clone(), f.1.clone())
      };
      (kind.into(), format!("{un} over mutated {sn}: {d}"), vec![(un, ut), (sn, m)], true)
    }
    "multi-module" => {
      let k = 2 + rng.below(3);
      let mut mods = Vec::new();
      let names: Vec<String> = (0..k).map(|j| format!("m.M{j}")).collect();
      for j in 0..k {
        let other = &names[rng.below(k)];
        let cls = format!("C{}", rng.below(k));
        let body = match rng.below(4) {
          0 => mutate::structured_soup(&mut rng, 30),
          1 => {
            let (_, t) = pick_file(&mut rng);
            mutate::truncate_at(&t, &mut rng)
          }
          2 => format!("class C{j}(val a: int) {{ function make(): C{j} = C{j}.init(1) method get(): int = this.a }}"),
          _ => format!("class C{j} {{ function f(x: {cls}): {cls} = {} }}", mutate::token_soup(&mut rng, 12)),
        };
        let imp = match rng.below(4) {
          0 => String::new(),
          1 => format!("import {{ {cls} }} from {other}\n"),
          2 => format!("import {{ {cls}, Missing }} from {other};\nimport {{ X }} from no.such.module\n"),
          _ => format!("import {{ {cls} }} from {}\n", names[j]),
        };
        mods.push((names[j].clone(), format!("{imp}{body}")));
      }
      (kind.into(), format!("{k} modules"), mods, true)
    }
    "ladder" => {
      let j = (i / KINDS.len() as u64) as usize;
      let nk = mutate::LADDER_KINDS.len();
      let depths = [1usize, 2, 3, 5, 8, 16, 24, 32, 48, 64, 100, 128, 160, 200, 230, 256];
      let deep = [512usize, 2000, 10000];
      if j < nk * depths.len() {
        let (lk, d) = (mutate::LADDER_KINDS[j % nk], depths[j / nk]);
        let text = mutate::ladder(lk, d);
        let in_bounds = text.len() <= 8192;
        (kind.into(), format!("{lk} depth {d} ({} bytes)", text.len()), single(text), in_bounds)
      } else if j < nk * depths.len() + nk * deep.len() {
        let jj = j - nk * depths.len();
        let (lk, d) = (mutate::LADDER_KINDS[jj % nk], deep[jj / nk]);
        let text = mutate::ladder(lk, d);
        (kind.into(), format!("{lk} depth {d} ({} bytes)", text.len()), single(text), false)
      } else if j < nk * (depths.len() + deep.len()) + mutate::WIDE_KINDS.len() * 14 {
        // width ladders around the parser's size limits
        let widths = [0usize, 1, 2, 3, 15, 16, 17, 18, 31, 32, 33, 64, 100, 300];
        let jj = j - nk * (depths.len() + deep.len());
        let (wk, n) = (mutate::WIDE_KINDS[jj % mutate::WIDE_KINDS.len()], widths[jj / mutate::WIDE_KINDS.len()]);
        let text = mutate::wide(wk, n);
        let in_bounds = text.len() <= 8192;
        (kind.into(), format!("{wk} width {n} ({} bytes)", text.len()), single(text), in_bounds)
      } else {
        // mixed nesting: a random stack of different constructs, total depth <= 120
        let d = 2 + rng.below(119);
        let mut open = String::new();
        let mut close = String::new();
        for _ in 0..d {
          let (o, c) = match rng.below(9) {
            0 => ("(", ")"),
            1 => ("{ ", " }"),
            2 => ("if true { ", " } else { 0 }"),
            3 => ("f(", ")"),
            4 => ("(1, ", ")"),
            5 => ("() -> ", ""),
            6 => ("match a { X -> ", ", _ -> 0 }"),
            7 => ("1 + ", " * 2"),
            _ => ("a.b(", ").c"),
          };
          open.push_str(o);
          close.insert_str(0, c);
        }
        let text = format!("class Main {{ function main(): unit = {{ let x = {open}1{close}; }} }}");
        let in_bounds = text.len() <= 8192;
        (kind.into(), format!("mixed depth {d} ({} bytes)", text.len()), single(text), in_bounds)
      }
    }
    _ => unreachable!(),
  }
}

fn render_modules(mods: &[(String, String)]) -> String {
  let mut s = String::new();
  for (n, t) in mods {
    s.push_str(&format!("=== module {n} ===\n{t}\n"));
  }
  s
}

fn parse_replay(text: &str) -> Vec<(String, String)> {
  let mut mods: Vec<(String, String)> = Vec::new();
  for l in text.lines() {
    if l.starts_with('#') && mods.is_empty() {
      continue;
    }
    if let Some(n) = l.strip_prefix("=== module ").and_then(|r| r.strip_suffix(" ===")) {
      mods.push((n.to_string(), String::new()));
    } else if let Some(m) = mods.last_mut() {
      if !m.1.is_empty() {
        m.1.push('\n');
      }
      m.1.push_str(l);
    }
  }
  mods
}

/// the CLI and the language server always compile user modules together with the standard
/// library (`collect_sources`): add every std module the case does not itself provide
fn with_std(mut mods: Vec<(String, String)>, corpus: &Corpus) -> Vec<(String, String)> {
  for (n, t) in &corpus.std {
    if !mods.iter().any(|(m, _)| m == n) {
      mods.push((n.clone(), t.clone()));
    }
  }
  mods
}

fn worker(ctx: WorkerCtx) {
  let corpus = Corpus::load();
  let total = total_cases(&ctx.tier);
  let mut i = ctx.only_case.unwrap_or(ctx.start_case);
  while i < total {
    if ctx.mine(i) {
      let (kind, desc, mods, in_bounds) = gen_case(ctx.seed, i, &corpus);
      let n_own = mods.len();
      let mods = with_std(mods, &corpus);
      ctx.begin(i, &format!("{kind} {desc}"));
      let t0 = std::time::Instant::now();
      // pipeline on a thread with the default main-thread stack size of the CLI (8 MiB)
      let mods2 = mods.clone();
      let first_pass = std::thread::Builder::new().stack_size(8 << 20).spawn(move || vcore::pipeline::run_own(&mods2, n_own, false, true)).unwrap().join();
      let rep = match first_pass {
        Ok(r) => r,
        Err(_) => {
          pool::emit(&json!({"t":"r","case":i,"kind":kind,"harness":"pipeline thread died"}));
          ctx.end(i);
          i += 1;
          continue;
        }
      };
      let mut rep = rep;
      let no_errors = rep.syntax_errors + rep.other_errors == 0 && rep.panic.is_none();
      if rep.panic.is_none() && (no_errors || i % 7 == 0) {
        let mods3 = mods.clone();
        if let Ok(r2) = std::thread::Builder::new().stack_size(8 << 20).spawn(move || vcore::pipeline::run(&mods3, true, false)).unwrap().join() {
          rep.compiled = r2.compiled;
          if r2.panic.is_some() {
            rep.panic = r2.panic;
          }
          for s in r2.silent_recovery {
            if s.starts_with("compile_sources") {
              rep.silent_recovery.push(s);
            }
          }
        }
      }
      let ms = t0.elapsed().as_millis() as u64;
      let h = hash_str(&render_modules(&mods));
      let mut v = json!({
        "t": "r", "case": i, "kind": kind, "hash": format!("{h:016x}"), "in_bounds": in_bounds,
        "syn": rep.syntax_errors, "oth": rep.other_errors, "checker": rep.reached_checker,
        "fmt": rep.formatted, "compiled": rep.compiled, "kinds": rep.diag_kinds, "ms": ms,
        "bytes": mods.iter().map(|m| m.1.len()).sum::<usize>(),
      });
      if let Some((stage, msg)) = &rep.panic {
        v["panic"] = json!({"stage": stage, "msg": msg, "desc": desc, "input": render_modules(&mods)});
      }
      if !rep.silent_recovery.is_empty() {
        v["silent"] = json!({"what": rep.silent_recovery, "desc": desc, "input": render_modules(&mods)});
      }
      if i % 4001 == 0 {
        v["sample"] = json!({"desc": desc, "input": render_modules(&mods).chars().take(400).collect::<String>()});
      }
      pool::emit(&v);
      ctx.end(i);
    }
    if ctx.only_case.is_some() {
      break;
    }
    i += 1;
  }
}

fn panic_signature(stage: &str, msg: &str) -> String {
  // location + message class (digits normalised)
  let loc = msg.rsplit(" @ ").next().unwrap_or("");
  let head: String = msg.split(" @ ").next().unwrap_or("").chars().map(|c| if c.is_ascii_digit() { '#' } else { c }).take(60).collect();
  let loc = loc.replace("/repo/", "");
  format!("panic:{stage}:{loc}:{head}")
}

fn main() {
  let args: Vec<String> = std::env::args().collect();
  if let Some(ctx) = WorkerCtx::from_args(&args) {
    pool::install_hook();
    worker(ctx);
    return;
  }
  let tier = args.get(1).cloned().unwrap_or_else(|| env_tier("quick"));
  let seed = env_seed();
  if let Some(p) = args.iter().position(|a| a == "--minimise") {
    let text = std::fs::read_to_string(&args[p + 1]).expect("file");
    let mods = parse_replay(&text);
    pool::install_hook();
    let rep = vcore::pipeline::run(&mods, true, true);
    let Some((st, m)) = rep.panic else {
      println!("no panic");
      return;
    };
    let want = panic_signature(&st, &m);
    let min = vcore::ddmin::minimise_modules(&mods, &mut |c| matches!(&vcore::pipeline::run(c, true, true).panic, Some((s2, m2)) if panic_signature(s2, m2) == want), 4000);
    println!("# {want}\n{}", render_modules(&min));
    return;
  }
  if let Some(p) = args.iter().position(|a| a == "--replay") {
    let text = std::fs::read_to_string(&args[p + 1]).expect("replay file");
    let mods = parse_replay(&text);
    pool::install_hook();
    let rep = vcore::pipeline::run(&mods, true, true);
    println!("{rep:?}");
    std::process::exit(if rep.panic.is_some() || !rep.silent_recovery.is_empty() { 1 } else { 0 });
  }
  let mut run = Run::new("C05", &tier, seed, "exploration");
  let thorough = tier == "thorough";
  let opts = DriveOpts {
    nshards: 16,
    tier: tier.clone(),
    seed,
    stall: Duration::from_secs(if thorough { 120 } else { 60 }),
    overall: Duration::from_secs(if thorough { 3000 } else { 900 }),
    extra: vec![],
    // 16 worker processes: keep rayon small per process (still multi-threaded)
    env: vec![("RAYON_NUM_THREADS".into(), "2".into())],
    max_deaths_per_shard: 200,
  };
  pool::MAX_HANGS.store(if thorough { 24 } else { 6 }, std::sync::atomic::Ordering::SeqCst);
  let (res, timed_out) = pool::drive(&opts);
  if pool::STOPPED_EARLY.load(std::sync::atomic::Ordering::SeqCst) {
    run.inconclusive("the run was stopped early after several stalled inputs (each is examined below); the remaining inputs were not tried");
  }
  if timed_out {
    run.inconclusive("overall wall-clock cap reached before all cases ran");
  }
  let corpus = Corpus::load();
  let mut per_kind: BTreeMap<String, u64> = BTreeMap::new();
  let mut diag_kinds: BTreeMap<String, u64> = BTreeMap::new();
  let mut nt: BTreeSet<String> = BTreeSet::new();
  let (mut reached_checker, mut formatted, mut compiled_ok, mut compiled_err, mut accepted) = (0u64, 0u64, 0u64, 0u64, 0u64);
  let mut slowest = (0u64, String::new());
  let mut seen_sigs: BTreeSet<String> = BTreeSet::new();
  pool::install_hook();
  for v in &res.events {
    if v.get("t").and_then(|t| t.as_str()) != Some("r") {
      continue;
    }
    run.evaluations += 1;
    let kind = v["kind"].as_str().unwrap_or("").to_string();
    *per_kind.entry(kind.clone()).or_insert(0) += 1;
    if let Some(h) = v.get("harness") {
      run.inconclusive(&format!("worker: {h}"));
      continue;
    }
    let ndiag = v["syn"].as_u64().unwrap_or(0) + v["oth"].as_u64().unwrap_or(0);
    if v["checker"].as_bool() == Some(true) {
      reached_checker += 1;
      if ndiag > 0 {
        nt.insert(v["hash"].as_str().unwrap_or("").to_string());
      } else {
        accepted += 1;
      }
    }
    if v["fmt"].as_u64().unwrap_or(0) > 0 {
      formatted += 1;
    }
    match v["compiled"].as_bool() {
      Some(true) => compiled_ok += 1,
      Some(false) => compiled_err += 1,
      None => {}
    }
    for k in v["kinds"].as_array().cloned().unwrap_or_default() {
      *diag_kinds.entry(k.as_str().unwrap_or("").to_string()).or_insert(0) += 1;
    }
    let ms = v["ms"].as_u64().unwrap_or(0);
    if ms > slowest.0 {
      slowest = (ms, format!("case {} ({kind}, {} bytes)", v["case"], v["bytes"]));
    }
    if let Some(p) = v.get("panic") {
      let (stage, msg) = (p["stage"].as_str().unwrap_or(""), p["msg"].as_str().unwrap_or(""));
      let sig = panic_signature(stage, msg);
      let input = p["input"].as_str().unwrap_or("").to_string();
      let replay = if seen_sigs.insert(sig.clone()) {
        // first example of this signature: delta-debug it (modules, lines, tokens)
        let mods = parse_replay(&input);
        let want = sig.clone();
        let min = vcore::ddmin::minimise_modules(
          &mods,
          &mut |c| {
            let r = vcore::pipeline::run(c, true, true);
            matches!(&r.panic, Some((st, m)) if panic_signature(st, m) == want)
          },
          1500,
        );
        format!("minimised input:\n{}\noriginal input:\n{}", render_modules(&min), input)
      } else {
        input
      };
      run.violation(sig, format!("panic in {stage}: {msg} [{kind} {}]", p["desc"].as_str().unwrap_or("")), replay);
    }
    if let Some(s) = v.get("silent") {
      let what = s["what"].as_array().map(|a| a.iter().map(|x| x.as_str().unwrap_or("").to_string()).collect::<Vec<_>>().join(" | ")).unwrap_or_default();
      let class = if what.contains("compile_sources") { "compiled-despite-errors" } else if what.contains("invalid token") { "invalid-token-without-syntax-error" } else if what.contains("identifier `missing`") { "invented-identifier" } else { "token-yield-mismatch" };
      run.violation(format!("silent-recovery:{class}"), format!("no syntax error reported, but {what} [{kind} {}]", s["desc"].as_str().unwrap_or("")), s["input"].as_str().unwrap_or("").to_string());
    }
    if let Some(s) = v.get("sample") {
      run.sample(json!({"kind": kind, "what": s["desc"], "input_head": s["input"], "syntax_errors": v["syn"], "other_errors": v["oth"]}));
    }
  }
  // worker deaths: abort / stack overflow / hang, attributed to the announced case
  let mut deep_observations: Vec<String> = Vec::new();
  let mut hangs_seen = 0u32;
  for d in &res.deaths {
    let Some(case) = d.case else {
      run.harness_errors.push(format!("worker shard {} died outside any case: {} {}", d.shard, d.how, d.stderr_tail.lines().last().unwrap_or("")));
      continue;
    };
    let (kind, desc, mods, in_bounds) = gen_case(seed, case, &corpus);
    let mods = with_std(mods, &corpus);
    let overflow = d.stderr_tail.contains("overflowed its stack") || d.how.contains("signal 11") || d.how.contains("signal 6") && d.stderr_tail.contains("stack");
    if d.hang {
      // re-run alone with a 100x larger budget before calling it a hang (the first few only: a tree
      // that hangs on one input usually hangs on many, and each confirmation costs minutes)
      hangs_seen += 1;
      if hangs_seen > 3 {
        run.inconclusive("further stalled inputs were not re-run alone (three stalls already examined in this run)");
        continue;
      }
      let (_, again) = pool::run_single(&opts, d.shard, case, Duration::from_secs(if thorough { 900 } else { 240 }));
      match again {
        Some(a) if a.hang => run.violation(format!("hang:{kind}"), format!("no result after {} alone: {kind} {desc}", a.how), render_modules(&mods)),
        Some(a) if !in_bounds && (a.stderr_tail.contains("overflowed its stack") || a.how.contains("signal 11") || a.how.contains("signal 6") && a.stderr_tail.contains("stack")) => {
          deep_observations.push(format!("{desc}: {} (when re-run alone)", a.how));
        }
        Some(a) => run.violation(format!("crash:{kind}:{}", a.how), format!("worker died ({}) on {kind} {desc}: {}", a.how, a.stderr_tail.lines().rev().find(|l| !l.trim().is_empty()).unwrap_or("")), render_modules(&mods)),
        None => run.inconclusive("slow case finished when re-run alone (machine load)"),
      }
      continue;
    }
    if overflow && !in_bounds {
      deep_observations.push(format!("{desc}: {}", d.how));
      continue;
    }
    let what = if overflow { "stack overflow" } else { "abort" };
    let sig = if overflow { format!("stack-overflow:{}", desc.split(' ').next().unwrap_or("")) } else { format!("abort:{kind}:{}", d.how) };
    run.violation(sig, format!("{what} ({}) on {kind} {desc}: {}", d.how, d.stderr_tail.lines().rev().find(|l| !l.trim().is_empty()).unwrap_or("")), render_modules(&mods));
  }
  run.distinct_nontrivial = nt.len() as u64;
  run.rule = "inputs generated from VERIF_SEED (random bytes, UTF-8 soups, token soups, structured soups, truncations / token / range mutations of every tests/*.sam and std/*.sam, multi-module sets with cross imports, nesting ladders); non-trivial = distinct input (by content hash) that reached the type checker and produced at least one diagnostic".into();
  run.cov("inputs_per_generator", json!(per_kind));
  run.cov("reached_checker", json!(reached_checker));
  run.cov("accepted_without_diagnostics", json!(accepted));
  run.cov("formatted_modules_inputs", json!(formatted));
  run.cov("compile_ok", json!(compiled_ok));
  run.cov("compile_rejected", json!(compiled_err));
  run.cov("diagnostic_kinds_seen", json!(diag_kinds));
  run.cov("slowest_case_ms", json!({"ms": slowest.0, "case": slowest.1}));
  run.cov("worker_deaths", json!(res.deaths.len()));
  run.cov("deep_nesting_overflows_recorded_not_violations", json!(deep_observations));
  run.cov("stack_bound_rule", json!("text <= 8 KiB and nesting depth <= 256 counts as reasonably sized; pipeline runs on an 8 MiB thread (the CLI's main-thread default), rayon workers use their own default"));
  run.assumptions = vec![
    "the independent tokenizer (toks.rs) agrees with the repository's lexer on inputs for which no syntax error is reported (calibrated: zero yield mismatches on all corpus files)".into(),
    "a hang is only reported after the single input, re-run alone, exceeds a 100x larger wall-clock budget".into(),
    "formatting is exercised only on modules without syntax errors, as the CLI and the language server do".into(),
  ];
  let _: Option<Value> = None;
  std::process::exit(run.finish());
}
