//! C16 — text edits proposed by the language server apply cleanly and do what they say.
//! Monitor: for generated documents with assorted import sections and an unresolved class that
//! other modules export, every auto-import quick fix and every completion item's additional
//! edits are applied to the text by an independent text-edit applier; the result must parse
//! without new syntax errors, import the class from an exporting module, no longer report the
//! class as unresolved, and be otherwise the same program (canonical tree of the declarations).
use samlang_ast::{Location, Position};
use samlang_errors::ErrorDetail;
use samlang_services::{completion, rewrite};
use serde_json::json;
use std::collections::{BTreeMap, BTreeSet};
use std::panic::AssertUnwindSafe;
use vcore::astwalk::{self, Walker};
use vcore::evidence::{Run, env_seed, env_tier};
use vcore::fmtcheck;
use vcore::lsphist;
use vcore::pool;
use vcore::rng::Rng;

fn offset(text: &str, p: Position) -> Option<usize> {
  let mut line = 0u32;
  let mut start = 0usize;
  for (i, b) in text.bytes().enumerate() {
    if line == p.0 {
      break;
    }
    if b == b'\n' {
      line += 1;
      start = i + 1;
    }
  }
  if line != p.0 {
    // position on the line after the last newline is still inside when the text ends with \n
    return None;
  }
  let end = text[start..].find('\n').map(|k| start + k).unwrap_or(text.len());
  let o = start + p.1 as usize;
  if o <= end { Some(o) } else { None }
}

/// applies edits back to front; Err = ranges outside the document / inverted / overlapping
fn apply_edits(text: &str, edits: &[(Location, String)]) -> Result<String, String> {
  let mut v: Vec<(usize, usize, &str)> = Vec::new();
  for (l, s) in edits {
    let (Some(a), Some(b)) = (offset(text, l.start), offset(text, l.end)) else {
      return Err(format!("edit range {}:{}-{}:{} lies outside the document", l.start.0 + 1, l.start.1 + 1, l.end.0 + 1, l.end.1 + 1));
    };
    if a > b {
      return Err("edit range has start after end".into());
    }
    v.push((a, b, s.as_str()));
  }
  v.sort();
  for w in v.windows(2) {
    if w[0].1 > w[1].0 {
      return Err("edit ranges overlap".into());
    }
  }
  let mut out = text.to_string();
  for (a, b, s) in v.iter().rev() {
    out.replace_range(*a..*b, s);
  }
  Ok(out)
}

const EXPORTERS: &[&str] = &["lib.Alpha", "lib.Beta", "zz.Last", "Aaa"];
const OTHER_IMPORTS: &[(&str, &str)] = &[("std.list", "List"), ("std.option", "Option"), ("lib.Other", "Other"), ("mm.Middle", "Middle"), ("std.tuples", "Pair"), ("lib.Alpha", "Helper")];

fn gen_doc(rng: &mut Rng) -> (Vec<(String, String)>, String, String, Vec<String>, String) {
  // the class to import and which modules export it
  let target = ["Widget", "WidgetWithAVeryLongClassName", "Zed"][rng.below(3)].to_string();
  let nexp = 1 + rng.below(3);
  let mut exporters: Vec<String> = EXPORTERS.to_vec().iter().map(|s| s.to_string()).collect();
  rng.shuffle(&mut exporters);
  exporters.truncate(nexp);
  let mut mods: Vec<(String, String)> = Vec::new();
  for e in &exporters {
    let helper = if e == "lib.Alpha" { "class Helper { function h(): int = 1 }\n" } else { "" };
    mods.push((e.clone(), format!("{helper}class {target}(val a: int) {{\n  function make(): {target} = {target}.init(1)\n  method get(): int = this.a\n}}\n")));
  }
  if !exporters.contains(&"lib.Alpha".to_string()) {
    mods.push(("lib.Alpha".into(), "class Helper { function h(): int = 1 }\n".into()));
  }
  mods.push(("lib.Other".into(), "class Other { function o(): int = 2 }\n".into()));
  mods.push(("mm.Middle".into(), "class Middle { function m(): int = 3 }\n".into()));
  // the document
  let nl = if rng.chance(1, 5) { "\r\n" } else { "\n" };
  let mut doc = String::new();
  let nimp = rng.below(5);
  let mut pool: Vec<(&str, &str)> = OTHER_IMPORTS.to_vec();
  rng.shuffle(&mut pool);
  let mut layout = vec![format!("{nimp} imports")];
  if rng.chance(1, 4) {
    doc.push_str(&format!("// leading comment{nl}"));
    layout.push("leading-comment".into());
  }
  for (m, c) in pool.iter().take(nimp) {
    let dup = if rng.chance(1, 6) { format!(", {c}") } else { String::new() };
    let semi = if rng.bool() { ";" } else { "" };
    if rng.chance(1, 8) {
      doc.push_str(&format!("import {{{nl}  {c}{dup}{nl}}} from {m}{semi}"));
      layout.push("import-over-several-lines".into());
    } else {
      doc.push_str(&format!("import {{ {c}{dup} }} from {m}{semi}"));
    }
    // what follows the import on its own line
    match rng.below(12) {
      0..=2 => {
        doc.push_str(" // trailing comment");
        layout.push("comment-after-import".into());
        doc.push_str(nl);
      }
      3 => {
        doc.push_str(&format!(" /* block comment that starts here{nl}   and ends on a later line */{nl}"));
        layout.push("multi-line-comment-after-import".into());
      }
      4 if semi == ";" => {
        // the next item continues on the same line
        doc.push(' ');
        layout.push("next-item-on-the-same-line".into());
      }
      5 => {
        doc.push_str(&format!("   \t{nl}"));
        layout.push("trailing-whitespace".into());
      }
      _ => doc.push_str(nl),
    }
    if rng.chance(1, 5) {
      doc.push_str(&format!("/* comment between imports */{nl}"));
      layout.push("comment-between-imports".into());
    }
    if rng.chance(1, 8) {
      // a comment over several lines whose end shares its line with the next import / declaration
      let indent = if rng.bool() { "" } else { "  " };
      doc.push_str(&format!("/*{nl} legacy notes, kept for reference{nl}{indent}*/ "));
      layout.push("multi-line-comment-ends-on-the-next-items-line".into());
    }
    if rng.chance(1, 6) {
      doc.push_str(nl);
    }
  }
  if exporters.iter().any(|e| e == "lib.Alpha") && rng.chance(1, 3) {
    // the exporting module is already imported, for another of its classes
    let semi = if rng.bool() { ";" } else { "" };
    doc.push_str(&format!("import {{ Helper }} from lib.Alpha{semi}{nl}"));
    layout.push("exporter-already-imported-for-another-class".into());
  }
  if nl == "\r\n" {
    layout.push("crlf".into());
  }
  let use_kind = rng.below(3);
  let body = match use_kind {
    0 => format!("class Main {{{nl}  function main(): int = {target}.make().get(){nl}}}{nl}"),
    1 => format!("class Main {{{nl}  function take(w: {target}): int = 1{nl}  function main(): int = 2{nl}}}{nl}"),
    _ => format!("/** doc */{nl}class Main {{{nl}  function main(): int = {{{nl}    let w: {target} = {target}.make();{nl}    w.get(){nl}  }}{nl}}}{nl}"),
  };
  layout.push(["use-in-expression", "use-in-annotation", "use-in-both"][use_kind].to_string());
  doc.push_str(&body);
  if rng.chance(1, 6) {
    // no line terminator at the end of the document
    while doc.ends_with('\n') || doc.ends_with('\r') {
      doc.pop();
    }
    layout.push("no-final-newline".into());
  }

  mods.push(("app.Doc".into(), doc.clone()));
  (mods, "app.Doc".into(), target, exporters, layout.join(","))
}

struct CaseResult {
  actions: u64,
  completions_with_edits: u64,
  fails: Vec<(String, String)>,
}

fn declarations_canon(text: &str) -> Option<(String, BTreeSet<(String, String)>, usize)> {
  let p = fmtcheck::parse(text).ok()?;
  let tree = Walker::new(&p.heap).module(&p.module);
  let mut decls = String::new();
  let mut imports = BTreeSet::new();
  for c in &tree.children {
    if c.kind == "import" {
      for m in &c.children {
        if m.kind == "import_member" {
          imports.insert((c.attr.clone(), m.attr.clone()));
        }
      }
    } else {
      decls.push_str(&astwalk::canon_subtree(c));
    }
  }
  // resolved module names inside declarations change when the import appears: strip them
  let decls = decls.lines().map(|l| if l.trim_start().starts_with("(annot_id ") || l.trim_start().starts_with("(class_ref ") { l.split('"').next().unwrap_or(l).to_string() } else { l.to_string() }).collect::<Vec<_>>().join("\n");
  Some((decls, imports, p.syntax_errors.len()))
}

fn check_edits(what0: &str, mods: &[(String, String)], doc_name: &str, doc: &str, target: &str, exporters: &[String], named_module: Option<&str>, edits: &[(Location, String)], fails: &mut Vec<(String, String)>) {
  // shape class of the document for signatures: does the last existing import line end its
  // statement with `;` (the inserted import is placed right after it)?
  // (decided on tokens, not on lines: a comment or the next declaration may share the line)
  let toks: Vec<vcore::toks::Tok> = vcore::toks::lex(doc).into_iter().filter(|t| !matches!(t.kind, vcore::toks::TokKind::LineComment | vcore::toks::TokKind::BlockComment | vcore::toks::TokKind::DocComment)).collect();
  let shape = match toks.iter().rposition(|t| t.text == "import") {
    None => "no-imports",
    Some(i) => {
      // import { .. } from a.b.c [;]
      let mut j = i;
      while j < toks.len() && toks[j].text != "from" {
        j += 1;
      }
      j += 1; // first part of the module path
      while j + 2 < toks.len() && toks[j + 1].text == "." {
        j += 2;
      }
      if toks.get(j + 1).map(|t| t.text == ";").unwrap_or(false) { "last-import-ends-with-semicolon" } else { "last-import-without-semicolon" }
    }
  };
  let what_owned = format!("{what0}:{shape}");
  let what = what_owned.as_str();
  let new_text = match apply_edits(doc, edits) {
    Ok(t) => t,
    Err(e) => {
      fails.push((format!("{what}:bad-ranges"), format!("{what}: {e}; edits {:?}", edits.iter().map(|(l, s)| (l.start, l.end, s)).collect::<Vec<_>>())));
      return;
    }
  };
  let (Some((d0, i0, s0)), Some((d1, i1, s1))) = (declarations_canon(doc), declarations_canon(&new_text)) else {
    fails.push((format!("{what}:parser-panic"), "parser panicked on the edited document".into()));
    return;
  };
  if s1 > s0 {
    fails.push((format!("{what}:new-syntax-errors"), format!("{what}: the edited document has {s1} syntax errors (before: {s0}); edited text:\n{new_text}")));
    return;
  }
  let added: Vec<&(String, String)> = i1.difference(&i0).collect();
  let removed: Vec<&(String, String)> = i0.difference(&i1).collect();
  if !removed.is_empty() {
    fails.push((format!("{what}:import-removed"), format!("{what}: existing imports disappeared: {removed:?}; edited text:\n{new_text}")));
  }
  let ok_import = added.len() == 1 && added[0].1 == target && exporters.contains(&added[0].0) && named_module.map(|m| m == added[0].0).unwrap_or(true);
  if !ok_import {
    fails.push((format!("{what}:wrong-import"), format!("{what}: expected exactly one new import of `{target}` from {}; imports added: {added:?}; edited text:\n{new_text}", named_module.map(|m| m.to_string()).unwrap_or(format!("one of {exporters:?}")))));
  }
  if d0 != d1 {
    fails.push((format!("{what}:declarations-changed"), format!("{what}: the rest of the module changed; edited text:\n{new_text}")));
  }
  // the class must no longer be reported as unresolved
  let mut srcs: Vec<(String, String)> = mods.iter().filter(|(n, _)| n != doc_name).cloned().collect();
  srcs.push((doc_name.to_string(), new_text.clone()));
  if let Ok(mut st) = pool::catch(AssertUnwindSafe(|| lsphist::new_state(&srcs))) {
    let m = lsphist::mref(&mut st.heap, doc_name);
    let still = st.get_errors(&m).iter().any(|e| matches!(&e.detail, ErrorDetail::CannotResolveClass { name, .. } if name.as_str(&st.heap) == target));
    if still {
      fails.push((format!("{what}:still-unresolved"), format!("{what}: `{target}` is still reported as unresolved after the edit; edited text:\n{new_text}")));
    }
  }
}

fn run_case(rng: &mut Rng) -> (CaseResult, String, String) {
  let (mods, doc_name, target, exporters, layout) = gen_doc(rng);
  let doc = mods.iter().find(|(n, _)| *n == doc_name).unwrap().1.clone();
  let mut res = CaseResult { actions: 0, completions_with_edits: 0, fails: vec![] };
  let with_history = rng.chance(1, 3);
  let state = pool::catch(AssertUnwindSafe(|| {
    if with_history {
      // reach the same contents through an edit history instead of a cold start
      let mut st = lsphist::new_state(&mods.iter().filter(|(n, _)| *n != doc_name).cloned().collect::<Vec<_>>());
      lsphist::apply(&mut st, &lsphist::Op::Update(vec![(doc_name.clone(), "class Main { function main(): int = 0 }\n".into())]));
      lsphist::apply(&mut st, &lsphist::Op::Update(vec![(doc_name.clone(), doc.clone())]));
      st
    } else {
      lsphist::new_state(&mods)
    }
  }));
  let Ok(mut state) = state else {
    res.fails.push(("server-panic".into(), "building the server state panicked".into()));
    return (res, layout, doc);
  };
  let m = lsphist::mref(&mut state.heap, &doc_name);
  let unresolved: Vec<Location> = state.get_errors(&m).iter().filter(|e| matches!(&e.detail, ErrorDetail::CannotResolveClass { name, .. } if name.as_str(&state.heap) == target)).map(|e| e.location).collect();
  for loc in &unresolved {
    match pool::catch(AssertUnwindSafe(|| rewrite::code_actions(&state, *loc))) {
      Err(e) => res.fails.push((format!("code_actions-panic:{}", e.rsplit(" @ ").next().unwrap_or("")), e)),
      Ok(actions) => {
        for a in actions {
          let rewrite::CodeAction::Quickfix { title, edits } = a;
          res.actions += 1;
          // "Import `X` from `M`"
          let named: Vec<&str> = title.split('`').collect();
          let named_module = named.get(3).copied();
          check_edits("quickfix", &mods, &doc_name, &doc, &target, &exporters, named_module, &edits, &mut res.fails);
        }
      }
    }
    // completion at the unresolved name
    let p = Position(loc.start.0, loc.start.1 + 1);
    if let Ok(items) = pool::catch(AssertUnwindSafe(|| completion::auto_complete(&state, &m, p))) {
      for it in items {
        // the class is not importable yet in this document: an item offering it must bring the import
        if it.label == target {
          res.completions_with_edits += 1;
          check_edits("completion", &mods, &doc_name, &doc, &target, &exporters, None, &it.additional_edits, &mut res.fails);
        }
      }
    }
  }
  if unresolved.is_empty() {
    let errs: Vec<String> = state.get_errors(&m).iter().map(|e| e.to_ide_format(&state.heap, &state.string_sources).ide_error).collect();
    res.fails.push(("skip:no-unresolved-class".into(), format!("the generated document does not report `{target}` as unresolved; diagnostics {errs:?}; doc:\n{doc}")));
  }
  (res, layout, doc)
}

fn main() {
  let args: Vec<String> = std::env::args().collect();
  let tier = args.get(1).cloned().unwrap_or_else(|| env_tier("quick"));
  let seed = env_seed();
  pool::install_hook();
  let mut run = Run::new("C16", &tier, seed, "exploration");
  let ncases: u64 = if tier == "thorough" { 200_000 } else { 8_000 };
  let nthreads = 16u64;
  let results: Vec<_> = std::thread::scope(|sc| {
    let hs: Vec<_> = (0..nthreads)
      .map(|t| {
        sc.spawn(move || {
          let mut layouts: BTreeSet<String> = BTreeSet::new();
          let mut found: BTreeMap<String, (String, String)> = BTreeMap::new();
          let (mut actions, mut comps, mut cases) = (0u64, 0u64, 0u64);
          let mut sample = None;
          let mut k = t;
          while k < ncases {
            let mut rng = Rng::new(seed.wrapping_mul(0x9E3779B97F4A7C15) ^ k);
            let (r, layout, doc) = run_case(&mut rng);
            cases += 1;
            actions += r.actions;
            comps += r.completions_with_edits;
            if r.actions + r.completions_with_edits > 0 {
              layouts.insert(layout.clone());
            }
            if sample.is_none() {
              sample = Some(doc.clone());
            }
            for (sig, what) in r.fails {
              found.entry(sig).or_insert((what, format!("# document (layout {layout})\n{doc}")));
            }
            k += nthreads;
          }
          (layouts, found, actions, comps, cases, sample)
        })
      })
      .collect();
    hs.into_iter().map(|h| h.join().unwrap()).collect()
  });
  let mut layouts: BTreeSet<String> = BTreeSet::new();
  let (mut actions, mut comps) = (0u64, 0u64);
  for (l, found, a, c, cases, sample) in results {
    layouts.extend(l);
    actions += a;
    comps += c;
    run.evaluations += cases;
    for (sig, (what, replay)) in found {
      if sig.starts_with("skip:") {
        run.inconclusive("document does not report the class as CannotResolveClass (no quick fix is offered)");
        let _ = what;
      } else {
        run.violation(sig, what, replay);
      }
    }
    if let Some(s) = sample {
      run.sample(json!(s));
    }
  }
  run.distinct_nontrivial = layouts.len() as u64;
  run.rule = "documents with 0-4 existing import lines in random order (with/without `;`, duplicate members, comments before / between / after imports, CRLF) that use a class exported by 1-3 other modules in expression and/or annotation position, reached by a cold start or through an edit history; every auto-import quick fix and every completion item with additional edits is applied; non-trivial = distinct import layouts for which at least one edit list was applied".into();
  run.cov("quickfix_edit_lists_applied", json!(actions));
  run.cov("completion_edit_lists_applied", json!(comps));
  run.cov("distinct_import_layouts", json!(layouts.len()));
  run.assumptions = vec![
    "positions are (line, byte column); the independent applier sorts edits by offset and applies them back to front".into(),
    "'otherwise the same program' = canonical tree of all declarations with resolved module names stripped; imports compared as sets of (module, member)".into(),
  ];
  std::process::exit(run.finish());
}
