//! C02 — optimization passes never change what a program prints or how it terminates.
//! Monitor: the MIR interpreter (wasm integer semantics) runs the unoptimized MIR and the MIR
//! after each of the 32 on/off configurations of optimize_sources and after each single pass
//! applied in isolation (hook); traces and step counts are compared.
use samlang_heap::Heap;
use samlang_optimization::OptimizationConfiguration;
use serde_json::{Value, json};
use std::collections::{BTreeMap, BTreeSet};
use std::panic::AssertUnwindSafe;
use std::time::Duration;
use vcore::corpus::Corpus;
use vcore::diffexec;
use vcore::evidence::{Run, env_seed, env_tier, hash_str};
use vcore::front::{self, Project};
use vcore::mirint;
use vcore::pgen::{self, GenConfig};
use vcore::pool::{self, DriveOpts, WorkerCtx};
use vcore::rng::Rng;
use vcore::trace::{Ending, Limits, Trace};

fn cfg_of(bits: u32) -> OptimizationConfiguration {
  OptimizationConfiguration {
    does_perform_local_value_numbering: bits & 1 != 0,
    does_perform_common_sub_expression_elimination: bits & 2 != 0,
    does_perform_loop_optimization: bits & 4 != 0,
    does_perform_inlining: bits & 8 != 0,
    does_perform_scalar_replacement: bits & 16 != 0,
  }
}

fn cfg_name(bits: u32) -> String {
  let names = ["lvn", "cse", "loop", "inline", "sroa"];
  let v: Vec<&str> = (0..5).filter(|i| bits & (1 << i) != 0).map(|i| names[i]).collect();
  if v.is_empty() { "none".into() } else { v.join("+") }
}

#[derive(Clone)]
enum Variant {
  Unoptimized,
  Config(u32),
  Pass(&'static str),
  Inlining,
}

impl Variant {
  fn name(&self) -> String {
    match self {
      Variant::Unoptimized => "unoptimized".into(),
      Variant::Config(b) => format!("config:{}", cfg_name(*b)),
      Variant::Pass(p) => format!("pass:{p}"),
      Variant::Inlining => "pass:inlining".into(),
    }
  }
}

struct RunOut {
  trace: Trace,
  steps: u64,
  loop_iterations: u64,
  calls: u64,
  printed: String,
}

fn limits(max_steps: u64) -> Limits {
  Limits { max_steps, max_depth: 4000, max_lines: 50_000 }
}

/// lower from scratch (Sources is not Clone), apply the variant, run under the MIR interpreter
fn run_variant(project: &Project, entry: &str, v: &Variant, max_steps: u64, want_text: bool) -> Result<RunOut, String> {
  pool::catch(AssertUnwindSafe(|| {
    let mut heap = Heap::new();
    let checked = front::check_project(&mut heap, project);
    if checked.errors.has_errors() {
      return Err("rejected".to_string());
    }
    let entry_ref = front::mod_ref(&mut heap, entry);
    let mut mir = samlang_compiler::compile_sources_to_mir(&mut heap, &checked.checked);
    match v {
      Variant::Unoptimized => {}
      Variant::Config(b) => mir = samlang_optimization::optimize_sources(&mut heap, mir, &cfg_of(*b)),
      Variant::Pass(p) => {
        if !samlang_optimization::verif::run_function_pass_on_sources(p, &mut heap, &mut mir) {
          return Err(format!("unknown pass {p}"));
        }
      }
      Variant::Inlining => {
        // in the real pipeline inlining always sees functions that went through a round of
        // per-function passes; the weakest such precondition is constant propagation + DCE
        // (both checked in isolation themselves)
        samlang_optimization::verif::run_function_pass_on_sources("conditional_constant_propagation", &mut heap, &mut mir);
        samlang_optimization::verif::run_function_pass_on_sources("dead_code_elimination", &mut heap, &mut mir);
        mir = samlang_optimization::verif::run_inlining(&mut heap, mir);
      }
    }
    let printed = if want_text { mir.debug_print(&heap) } else { String::new() };
    let (trace, st) = mirint::run_main(&heap, &mir, entry_ref, &limits(max_steps));
    Ok(RunOut { trace, steps: st.steps, loop_iterations: st.loop_iterations, calls: st.calls, printed })
  }))
  .unwrap_or_else(|e| Err(format!("panic: {e}")))
}

/// how many steps an optimized run may take before it counts as non-terminating: 200x the
/// unoptimized run for short programs, 8x (plus slack) for programs that already run long
fn step_cap_of(base_steps: u64) -> u64 {
  if base_steps < 50_000 { base_steps.saturating_mul(200).saturating_add(1_000_000) } else { base_steps.saturating_mul(8).saturating_add(10_000_000) }
}

fn same(a: &Trace, b: &Trace) -> bool {
  a.lines == b.lines && a.ending == b.ending
}

fn gen_case(seed: u64, i: u64, corpus: &Corpus) -> (String, String, Project, String) {
  let mut rng = Rng::new(seed.wrapping_mul(0x9E3779B97F4A7C15) ^ i.wrapping_mul(0xD1B54A32D192ED03));
  if i == 0 {
    let mut p = Project::default();
    p.modules.extend(corpus.tests.iter().cloned());
    p.modules.extend(corpus.std.iter().cloned());
    return ("corpus".into(), "tests.AllTests".into(), p, "tests.AllTests".into());
  }
  if let Some((n, t)) = vcore::corpus::regressions().get((i - 1) as usize) {
    let mut p = Project::default();
    p.modules.push(("Main".into(), t.clone()));
    return ("regression".into(), n.clone(), p.with_std(), "Main".into());
  }
  let pseed = seed.wrapping_mul(1_000_003).wrapping_add(i);
  if i % 9 == 4 {
    // operator tables over boundary values, literal or hidden operands (constant folding must
    // compute what the target computes)
    let p = vcore::diffcheck::operator_table(&mut rng);
    return ("operator-table".into(), format!("table {i}"), p.with_std(), "ops.Table".into());
  }
  if i % 3 == 0 {
    // counted-loop family aimed at the loop optimizer; wrap-around is deterministic at MIR level
    let g = vcore::loopgen::generate(pseed, i % 2 == 0);
    return ("loop-family".into(), format!("loopgen seed {pseed} ({} loops, {} entered)", g.loops, g.loops_entered), g.project.with_std(), g.entry);
  }
  let mut cfg = GenConfig::default_for(pseed);
  if rng.chance(2, 3) {
    cfg.loop_heavy = true;
  }
  if rng.chance(1, 4) {
    cfg.allow_overflow = true; // wrap-around is deterministic at MIR level
  }
  let g = pgen::generate(pseed, &cfg);
  ("generated".into(), format!("pgen seed {pseed}"), g.project.with_std(), g.entry)
}

fn total(tier: &str) -> u64 {
  if tier == "thorough" { 6_000 } else { 250 }
}

fn judge(base: &RunOut, out: &Result<RunOut, String>, vname: &str) -> Option<(String, String)> {
  match out {
    Err(e) if e.starts_with("panic") => Some((format!("optimizer-panic:{}", e.rsplit(" @ ").next().unwrap_or("").replace("/repo/", "")), format!("{vname}: {e}"))),
    Err(e) => Some(("harness".into(), e.clone())),
    Ok(o) => {
      if !base.trace.conclusive() {
        return None;
      }
      if matches!(o.trace.ending, Ending::Harness(_)) {
        return Some(("harness".into(), format!("{vname}: {:?}", o.trace.ending)));
      }
      if matches!(o.trace.ending, Ending::StepLimit) {
        if o.steps > step_cap_of(base.steps) {
          return Some(("introduces-non-termination".into(), format!("{vname}: ran {} steps without finishing; unoptimized finished in {} steps", o.steps, base.steps)));
        }
        return None;
      }
      if same(&base.trace, &o.trace) {
        return None;
      }
      // temporaries are numbered per compilation: keep them out of the signature
      let class = {
        let c = diffexec::diff_class(&base.trace, &o.trace);
        let mut out = String::new();
        let mut it = c.chars().peekable();
        while let Some(ch) = it.next() {
          out.push(ch);
          if ch == 't' && out.ends_with("_t") && it.peek().map(|d| d.is_ascii_digit()).unwrap_or(false) {
            while it.peek().map(|d| d.is_ascii_digit()).unwrap_or(false) {
              it.next();
            }
            out.push('#');
          }
        }
        out
      };
      Some((format!("behaviour-differs:{class}"), format!("{vname}: {}", diffexec::describe_diff("the unoptimized MIR", &base.trace, "the optimized MIR", &o.trace))))
    }
  }
}

fn worker(ctx: WorkerCtx) {
  let corpus = Corpus::load();
  let n = total(&ctx.tier);
  let thorough = ctx.tier == "thorough";
  let mut i = ctx.only_case.unwrap_or(ctx.start_case);
  while i < n {
    if ctx.mine(i) {
      let (kind, label, project, entry) = gen_case(ctx.seed, i, &corpus);
      ctx.begin(i, &format!("{kind} {label}"));
      let big = kind == "corpus";
      let budget = if big { 3_000_000_000 } else { 40_000_000 };
      let mut v = json!({"t": "r", "case": i, "kind": kind, "hash": format!("{:016x}", hash_str(&diffexec::render_project(&project)))});
      match run_variant(&project, &entry, &Variant::Unoptimized, budget, true) {
        Err(e) => {
          v["skip"] = json!(e);
        }
        Ok(base) => {
          v["base_steps"] = json!(base.steps);
          v["base_loop_iterations"] = json!(base.loop_iterations);
          v["base_calls"] = json!(base.calls);
          v["base_ending"] = json!(format!("{:?}", base.trace.ending).chars().take(24).collect::<String>());
          v["base_overflow"] = json!(base.trace.ub.overflow);
          let mut variants: Vec<Variant> = (0..32).map(Variant::Config).collect();
          if big && !thorough {
            variants = vec![Variant::Config(31), Variant::Config(0), Variant::Config(4), Variant::Config(8 + 16)];
          } else if base.steps > 1_500_000 && !thorough {
            // long-running programs (loops that take a lap around the 32-bit range): the quick tier
            // runs the configurations that differ in the loop / inlining flags only
            variants = vec![Variant::Config(31), Variant::Config(0), Variant::Config(4), Variant::Config(4 + 8), Variant::Config(8), Variant::Config(1 + 2 + 4)];
          }
          for p in samlang_optimization::verif::FUNCTION_PASSES {
            variants.push(Variant::Pass(p));
          }
          variants.push(Variant::Inlining);
          let mut changed: BTreeMap<String, bool> = BTreeMap::new();
          let mut fails: Vec<Value> = Vec::new();
          let mut failing: Vec<(Variant, String, String)> = Vec::new();
          for var in &variants {
            ctx.begin(i, &format!("{kind} {label} {}", var.name()));
            let step_cap = step_cap_of(base.steps).saturating_add(1_000_000).min(budget.saturating_mul(4));
            let out = run_variant(&project, &entry, var, step_cap, true);
            if let Ok(o) = &out {
              changed.insert(var.name(), o.printed != base.printed);
            }
            if let Some((sig, what)) = judge(&base, &out, &var.name()) {
              failing.push((var.clone(), sig, what));
            }
          }
          if !failing.is_empty() {
            // name the guilty pass if a single pass reproduces, else the smallest failing config
            let pick = failing.iter().find(|f| matches!(f.0, Variant::Pass(_) | Variant::Inlining)).or_else(|| {
              failing.iter().filter(|f| matches!(f.0, Variant::Config(_))).min_by_key(|f| if let Variant::Config(b) = f.0 { b.count_ones() } else { 99 })
            });
            if let Some((var, sig, what)) = pick {
              // attribution by intervention: does the failure vanish when one loop sub-pass is off?
              let uses_loop = match var {
                Variant::Config(b) => b & 4 != 0,
                Variant::Pass(p) => *p == "loop_optimizations",
                _ => false,
              };
              let mut culprit = String::new();
              if uses_loop {
                use samlang_optimization::verif as hook;
                // narrowest first: only the guard operator of the eliminated loop is corrected
                {
                  hook::set_loop_guard_operator_corrected(true);
                  let step_cap = step_cap_of(base.steps).saturating_add(1_000_000);
                  let again = run_variant(&project, &entry, var, step_cap, false);
                  hook::set_loop_guard_operator_corrected(false);
                  if judge(&base, &again, &var.name()).is_none() {
                    culprit = "[guard-operator-of-eliminated-induction-variable]".into();
                  }
                }
                for (mask, name) in [(hook::LOOP_INDUCTION_VARIABLE_ELIMINATION, "induction-variable-elimination"), (hook::LOOP_ALGEBRAIC_OPTIMIZATION, "algebraic-optimization"), (hook::LOOP_INDUCTION_VARIABLE_ELIMINATION | hook::LOOP_ALGEBRAIC_OPTIMIZATION, "induction-variable-elimination+algebraic-optimization")] {
                  if !culprit.is_empty() {
                    break;
                  }
                  hook::set_disabled_loop_subpasses(mask);
                  let step_cap = step_cap_of(base.steps).saturating_add(1_000_000);
                  let again = run_variant(&project, &entry, var, step_cap, false);
                  hook::set_disabled_loop_subpasses(0);
                  if judge(&base, &again, &var.name()).is_none() {
                    culprit = format!("[{name}]");
                    break;
                  }
                }
                if culprit.is_empty() {
                  culprit = "[other-loop-sub-pass]".into();
                }
              }
              let vname = match var {
                // with an attributed loop sub-pass the other enabled flags do not matter
                Variant::Config(_) | Variant::Pass(_) if !culprit.is_empty() => "loop".to_string(),
                _ => var.name(),
              };
              let full_sig = format!("{}:{}{}", sig, vname, culprit);
              // delta-debug the program for the replay
              let user = Project { modules: project.modules.iter().filter(|(n, _)| !n.starts_with("std.")).cloned().collect() };
              let var2 = var.clone();
              let want = sig.clone();
              let entry2 = entry.clone();
              let min = if big {
                user.clone()
              } else {
                diffexec::minimise(&user, 300, &mut |p| {
                  if !p.modules.iter().any(|(n, _)| *n == entry2) {
                    return false;
                  }
                  let pp = p.clone().with_std();
                  match run_variant(&pp, &entry2, &Variant::Unoptimized, budget, false) {
                    Ok(b) => judge(&b, &run_variant(&pp, &entry2, &var2, step_cap_of(b.steps).saturating_add(1_000_000), false), &var2.name()).map(|(s, _)| s == want).unwrap_or(false),
                    Err(_) => false,
                  }
                })
              };
              // the elimination is known to assume that m * i + c never wraps (known finding); tell
              // that situation apart from any other defect of the sub-pass: on the minimised program,
              // did either run perform a wrapping 32-bit operation?
              let mut full_sig = full_sig;
              let mut what = what.clone();
              if culprit == "[induction-variable-elimination]" {
                let pp = min.clone().with_std();
                let wraps = match run_variant(&pp, &entry, &Variant::Unoptimized, budget, false) {
                  Ok(b) => {
                    let o = run_variant(&pp, &entry, var, step_cap_of(b.steps).saturating_add(1_000_000), false);
                    b.trace.ub.overflow || o.map(|o| o.trace.ub.overflow).unwrap_or(false)
                  }
                  Err(_) => false,
                };
                let q = if wraps { "with-32-bit-wrap-around" } else { "without-any-wrap-around" };
                full_sig = full_sig.replace("[induction-variable-elimination]", &format!("[induction-variable-elimination:{q}]"));
                what = format!("{what} ({q} in the minimised program)");
              }
              fails.push(json!({"sig": full_sig, "what": format!("{what}; failing variants: {:?}", failing.iter().map(|f| f.0.name()).collect::<Vec<_>>()), "replay": format!("# variant {} (entry {entry})\n{}", var.name(), diffexec::render_project(&min))}));
            }
          }
          v["changed"] = json!(changed);
          if !fails.is_empty() {
            v["fails"] = Value::Array(fails);
          }
          if i % 37 == 1 {
            v["sample"] = json!({"program_head": diffexec::render_project(&Project { modules: project.modules.iter().filter(|(n, _)| !n.starts_with("std.")).cloned().collect() }).chars().take(500).collect::<String>(), "printed_head": base.trace.lines.iter().take(5).cloned().collect::<Vec<_>>()});
          }
        }
      }
      pool::emit(&v);
      ctx.end(i);
    }
    if ctx.only_case.is_some() {
      break;
    }
    i += 1;
  }
}

fn main() {
  let args: Vec<String> = std::env::args().collect();
  if let Some(ctx) = WorkerCtx::from_args(&args) {
    pool::install_hook();
    worker(ctx);
    return;
  }
  let tier = args.get(1).cloned().unwrap_or_else(|| env_tier("quick"));
  let seed = env_seed();
  if let Some(p) = args.iter().position(|a| a == "--replay" || a == "--minimise") {
    // replay file: "# variant <name> (entry <module>)" header + rendered project
    pool::install_hook();
    let text = std::fs::read_to_string(&args[p + 1]).expect("replay file");
    let header = text.lines().find(|l| l.starts_with("# variant ")).unwrap_or("# variant config:lvn+cse+loop+inline+sroa");
    let vname = header.trim_start_matches("# variant ").split(' ').next().unwrap_or("").to_string();
    let (user, entry) = diffexec::parse_rendered(&text);
    let variant = if let Some(c) = vname.strip_prefix("config:") {
      let names = ["lvn", "cse", "loop", "inline", "sroa"];
      Variant::Config(c.split('+').filter_map(|n| names.iter().position(|x| *x == n)).map(|i| 1u32 << i).sum())
    } else if vname == "pass:inlining" {
      Variant::Inlining
    } else {
      let pn = vname.trim_start_matches("pass:");
      Variant::Pass(samlang_optimization::verif::FUNCTION_PASSES.iter().find(|x| **x == pn).copied().unwrap_or("dead_code_elimination"))
    };
    let check = |p: &Project| -> Option<(String, String)> {
      let pp = p.clone().with_std();
      let b = run_variant(&pp, &entry, &Variant::Unoptimized, 40_000_000, false).ok()?;
      judge(&b, &run_variant(&pp, &entry, &variant, step_cap_of(b.steps).saturating_add(1_000_000), false), &variant.name())
    };
    let j = check(&user);
    println!("variant {}: {:?}", variant.name(), j);
    if std::env::var("VERIF_DUMP_MIR").is_ok() {
      // the optimized MIR of the user's functions, for diagnosis
      if let Ok(o) = run_variant(&user.clone().with_std(), &entry, &variant, 1000, true) {
        for block in o.printed.split("\n\n").filter(|b| b.contains("_Main_") || b.contains(&entry.replace('.', "_"))) {
          println!("{block}\n");
        }
      }
    }
    if args[p] == "--minimise" {
      if let Some((want, _)) = j.clone() {
        let min = diffexec::minimise(&user, 4000, &mut |p| p.modules.iter().any(|(n, _)| *n == entry) && check(p).map(|(s, _)| s == want).unwrap_or(false));
        println!("# variant {} (entry {entry})\n{}", variant.name(), diffexec::render_project(&min));
      }
    }
    std::process::exit(if j.is_some() { 1 } else { 0 });
  }
  let mut run = Run::new("C02", &tier, seed, "translation_validation");
  let opts = DriveOpts {
    nshards: 16,
    tier: tier.clone(),
    seed,
    stall: Duration::from_secs(300),
    overall: Duration::from_secs(if tier == "thorough" { 3000 } else { 900 }),
    extra: vec![],
    env: vec![("RAYON_NUM_THREADS".into(), "2".into())],
    max_deaths_per_shard: 30,
  };
  let (res, timed_out) = pool::drive(&opts);
  if timed_out {
    run.inconclusive("overall wall-clock cap reached before all programs ran");
  }
  let mut changed: BTreeMap<String, u64> = BTreeMap::new();
  let mut nt: BTreeSet<String> = BTreeSet::new();
  let (mut loops, mut steps, mut overflowing, mut variants_compared) = (0u64, 0u64, 0u64, 0u64);
  let mut disagreements = 0u64;
  for v in &res.events {
    if v["t"].as_str() != Some("r") {
      continue;
    }
    run.evaluations += 1;
    if let Some(s) = v.get("skip") {
      run.inconclusive(&format!("program skipped: {}", s.as_str().unwrap_or("").chars().take(60).collect::<String>()));
      continue;
    }
    loops += v["base_loop_iterations"].as_u64().unwrap_or(0);
    steps += v["base_steps"].as_u64().unwrap_or(0);
    if v["base_overflow"].as_bool() == Some(true) {
      overflowing += 1;
    }
    let executed = v["base_loop_iterations"].as_u64().unwrap_or(0) + v["base_calls"].as_u64().unwrap_or(0) > 0;
    if let Some(m) = v["changed"].as_object() {
      for (k, c) in m {
        variants_compared += 1;
        if c.as_bool() == Some(true) {
          *changed.entry(k.clone()).or_insert(0) += 1;
          if executed {
            nt.insert(format!("{}:{k}", v["hash"].as_str().unwrap_or("")));
          }
        }
      }
    }
    for f in v["fails"].as_array().cloned().unwrap_or_default() {
      let sig = f["sig"].as_str().unwrap_or("").to_string();
      if sig.starts_with("harness") {
        run.inconclusive(&format!("executor could not run a variant: {}", f["what"].as_str().unwrap_or("").chars().take(80).collect::<String>()));
        continue;
      }
      disagreements += 1;
      run.violation(sig, format!("{} [{} case {}]", f["what"].as_str().unwrap_or(""), v["kind"].as_str().unwrap_or(""), v["case"]), f["replay"].as_str().unwrap_or("").to_string());
    }
    if let Some(s) = v.get("sample") {
      run.sample(s.clone());
    }
  }
  let corpus = Corpus::load();
  for d in &res.deaths {
    match d.case {
      None => run.harness_errors.push(format!("worker shard {} died outside any case: {} {}", d.shard, d.how, d.stderr_tail.lines().last().unwrap_or(""))),
      Some(case) => {
        let (kind, label, project, _) = gen_case(seed, case, &corpus);
        if d.hang {
          run.violation("optimizer-or-optimized-code-hangs".into(), format!("no progress for {}s on {kind} {label} ({})", opts.stall.as_secs(), d.desc), diffexec::render_project(&project));
        } else {
          run.violation(format!("optimizer-abort:{}", d.how), format!("worker died ({}) on {kind} {label} ({}): {}", d.how, d.desc, d.stderr_tail.lines().rev().find(|l| !l.trim().is_empty()).unwrap_or("")), diffexec::render_project(&project));
        }
      }
    }
  }
  run.distinct_nontrivial = nt.len() as u64;
  run.rule = "programs: tests.AllTests and generator programs biased towards tail-recursive loops with induction variables (guards of all six comparison kinds in both operand orders, strides of both signs, bounds from a hostile pool, loop-invariant expressions, dead / and %, calls in loops), a quarter allowing 32-bit wrap-around; each is lowered to MIR and run unoptimized and after all 32 configurations of optimize_sources, after each per-function pass alone and after inlining alone; non-trivial = distinct (program, variant) pairs where the variant changed the printed MIR and the run executed at least one loop iteration or call".into();
  run.cov("programs", json!(run.evaluations));
  run.cov("disagreements_checked", json!(disagreements));
  run.cov("variants_run_and_compared", json!(variants_compared));
  run.cov("variants_that_changed_the_mir", json!(changed));
  run.cov("unoptimized_steps_executed", json!(steps));
  run.cov("unoptimized_loop_iterations", json!(loops));
  run.cov("programs_with_wrap_around", json!(overflowing));
  run.assumptions = vec![
    "the MIR interpreter (mirint) defines MIR behaviour with wasm integer semantics; it is calibrated on tests/snapshot.txt for unoptimized and optimized MIR".into(),
    "an optimized run is non-terminating when it exceeds 200x the unoptimized step count + 1e6 steps (8x + 1e7 for programs whose unoptimized run takes more than 50 000 steps)".into(),
  ];
  std::process::exit(run.finish());
}
