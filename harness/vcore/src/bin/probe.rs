use vcore::front::{self, Project};
fn main() {
  let seed0: u64 = std::env::args().nth(1).and_then(|s| s.parse().ok()).unwrap_or(1);
  let mut bad = 0;
  for seed in seed0..seed0 + 200 {
    let mut rng = vcore::rng::Rng::new(seed);
    let t = vcore::exprgen::order_zoo(&mut rng);
    if seed == seed0 { println!("{t}"); }
    let p = Project::single("Zoo", &t).with_std();
    let mut heap = samlang_heap::Heap::new();
    let c = front::check_project(&mut heap, &p);
    if c.errors.has_errors() {
      bad += 1;
      if bad <= 2 {
        println!("{t}");
        for e in c.errors.errors().iter().take(4) {
          println!("// {}: {}", e.location.pretty_print(&heap), e.to_ide_format(&heap, &c.handles).ide_error);
        }
      }
    }
  }
  println!("rejected {bad} of 200");
}
