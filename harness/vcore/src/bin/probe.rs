//! scratch probe (not a registered check)
fn main() {
  let a: Vec<String> = std::env::args().collect();
  let kind = a.get(1).map(|s| s.as_str()).unwrap_or("if");
  for d in [4usize, 8, 12, 14, 16, 18, 20, 22] {
    let text = vcore::mutate::ladder(kind, d);
    let t0 = std::time::Instant::now();
    let r = vcore::pipeline::run(&[("Main".into(), text.clone())], false, false);
    let t1 = t0.elapsed();
    let r2 = vcore::pipeline::run(&[("Main".into(), text)], false, true);
    println!("{kind} depth {d}: parse+check {:?}, +format {:?} syn={} oth={} panic={:?}", t1, t0.elapsed() - t1, r.syntax_errors, r.other_errors, r2.panic);
  }
}
