//! scratch probe (not a registered check): run the pipeline on files given as args (std added)
fn main() {
  vcore::pool::install_hook();
  let a: Vec<String> = std::env::args().collect();
  let corpus = vcore::corpus::Corpus::load();
  for f in &a[1..] {
    let text = std::fs::read_to_string(f).unwrap();
    let mut mods = vec![("Main".to_string(), text)];
    mods.extend(corpus.std.iter().cloned());
    let r = vcore::pipeline::run(&mods, true, true);
    println!("{f}: syn={} oth={} kinds={:?} compiled={:?} panic={:?} silent={:?}", r.syntax_errors, r.other_errors, r.diag_kinds, r.compiled, r.panic, r.silent_recovery);
  }
}
