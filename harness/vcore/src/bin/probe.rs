fn main() {
  let seed: u64 = std::env::args().nth(1).and_then(|s| s.parse().ok()).unwrap_or(1);
  let mut rng = vcore::rng::Rng::new(seed);
  let t = vcore::lsphist::zoo(&mut rng, "AlphaWithAVeryLongSuffix", "Beta", "BetaWithAVeryLongSuffix", true);
  println!("{t}");
  let p = vcore::fmtcheck::parse(&t).unwrap();
  println!("// syntax errors: {:?}", p.syntax_errors);
}
