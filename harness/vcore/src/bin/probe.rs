use vcore::front::{self, Project};
fn main() {
  let mut bad = 0;
  for seed in 1..201u64 {
    let mut rng = vcore::rng::Rng::new(seed);
    let t = vcore::exprgen::generic_zoo(&mut rng);
    let p = Project::single("Zoo", &t).with_std();
    let mut heap = samlang_heap::Heap::new();
    let c = front::check_project(&mut heap, &p);
    if c.errors.has_errors() {
      bad += 1;
      if bad <= 2 { for e in c.errors.errors().iter().take(3) { println!("// {}: {}", e.location.pretty_print(&heap), e.to_ide_format(&heap, &c.handles).ide_error); } }
    }
  }
  println!("rejected {bad} of 200");
}
