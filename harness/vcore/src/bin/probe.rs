use vcore::front::{self, Project};
fn run(p: &Project, entry: &str) -> Option<Vec<String>> {
  let mut heap = samlang_heap::Heap::new();
  let c = front::check_project(&mut heap, p);
  if c.errors.has_errors() { println!("rejected: {}", c.errors.errors().len()); return None; }
  let e = front::mod_ref(&mut heap, entry);
  let (t, _) = vcore::refint::run(&heap, &c.checked, e, &vcore::trace::Limits { max_steps: 20_000_000, max_depth: 4000, max_lines: 20_000 });
  println!("ending {:?} ub {:?}", t.ending, t.ub);
  Some(t.lines)
}
fn main() {
  let pseed = 19009u64;
  let g = vcore::pgen::generate(pseed, &vcore::pgen::GenConfig::default_for(pseed));
  let p = g.project.clone().with_std();
  let a = run(&p, &g.entry).unwrap();
  let mut p2 = p.clone();
  for m in p2.modules.iter_mut() {
    if m.0 == "gen.M1" {
      let parsed = vcore::fmtcheck::parse(&m.1).unwrap();
      let f = vcore::fmtcheck::format(&parsed, 100).unwrap();
      std::fs::write("/tmp/w/M1.orig.sam", &m.1).unwrap();
      std::fs::write("/tmp/w/M1.fmt.sam", &f).unwrap();
      m.1 = f;
    }
  }
  let b = run(&p2, &g.entry).unwrap();
  for (i, (x, y)) in a.iter().zip(b.iter()).enumerate() { if x != y { println!("line {i}: {x} | {y}"); } }
  println!("{} {}", a.len(), b.len());
}
