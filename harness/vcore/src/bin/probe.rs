fn main() {
  let mut bad = 0;
  for seed in 1..300u64 {
    let mut rng = vcore::rng::Rng::new(seed);
    let t = vcore::lsphist::zoo(&mut rng, "AlphaWithAVeryLongSuffix", "Beta", "BetaWithAVeryLongSuffix", seed % 2 == 0);
    let p = vcore::fmtcheck::parse(&t).unwrap();
    if !p.syntax_errors.is_empty() { bad += 1; if bad < 3 { println!("{t}\n// {:?}", p.syntax_errors); } }
  }
  println!("zoo modules with syntax errors: {bad} of 299");
}
