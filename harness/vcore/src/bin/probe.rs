fn main() {
  let seed: u64 = std::env::args().nth(1).and_then(|s| s.parse().ok()).unwrap_or(1);
  let wild = std::env::args().nth(2).is_some();
  let g = vcore::loopgen::generate(seed, wild);
  println!("{}", g.project.modules[0].1);
  println!("// {:?} entered {}", g.shapes, g.loops_entered);
}
