fn main() {
  let seed: u64 = std::env::args().nth(1).and_then(|s| s.parse().ok()).unwrap_or(1);
  let g = vcore::loopgen::generate(seed, true);
  println!("# variant config:loop+inline (entry Main)\n//// module Main\n{}", g.project.modules[0].1);
  eprintln!("{:?}", g.shapes);
}
