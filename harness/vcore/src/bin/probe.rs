//! scratch probe (not a registered check)
use vcore::diffexec;
fn main() {
  let a: Vec<String> = std::env::args().collect();
  let text = std::fs::read_to_string(&a[1]).unwrap();
  let (p, entry) = diffexec::parse_rendered(&text);
  let lim = diffexec::limits();
  let mut o = diffexec::run_full(&p, &entry, &lim, true);
  println!("c04 judgement: {:?}", diffexec::judge_c04(&o));
  let js = o.js.clone().unwrap();
  let patched = vcore::diffcheck::wrap_arithmetic(&js.replace("Math.floor(", "Math.trunc("));
  for (a, b) in js.lines().zip(patched.lines()) { if a != b && a.contains("_t3838") { println!("{a}  =>  {b}"); } }
  o.js = Some(patched);
  o.ts_trace = None;
  {
    let mut refs: Vec<&mut diffexec::Outcome> = vec![&mut o];
    diffexec::run_ts_batch(&mut refs, &lim, 3000);
  }
  println!("after patch: {:?}", diffexec::judge_c04(&o));
  let (w, t) = (o.wasm_trace.unwrap(), o.ts_trace.unwrap());
  for i in 0..w.lines.len().max(t.lines.len()) {
    if w.lines.get(i) != t.lines.get(i) {
      println!("{i}: {:?} vs {:?}", w.lines.get(i), t.lines.get(i));
    }
  }
}
