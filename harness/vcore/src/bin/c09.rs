//! C09 — formatting is idempotent and keeps every comment.
//! Oracles: fmt(fmt(x)) == fmt(x); the word sequence of all comments (lexed by an independent
//! tokenizer, normalised like the repo's lexer does) is the same before and after formatting,
//! as a sequence outside the import section and as a multiset inside it. Comments are inserted
//! into every gap between two tokens; a lost comment is attributed to its slot label
//! (innermost syntax node : previous token | next token).
use serde_json::json;
use std::collections::{BTreeMap, BTreeSet};
use std::time::Duration;
use vcore::astwalk::Walker;
use vcore::corpus::Corpus;
use vcore::evidence::{Run, env_seed, env_tier, hash_str};
use vcore::exprgen;
use vcore::fmtcheck::{self, Inserted};
use vcore::pool::{self, DriveOpts, WorkerCtx};
use vcore::rng::Rng;
use vcore::toks::{self, Tok, TokKind};

const WIDTHS: &[usize] = &[100];

fn base_text(rng: &mut Rng, corpus: &Corpus, which: u64) -> (String, String) {
  let all = corpus.all();
  match which % 5 {
    0 => {
      let f = all[rng.below(all.len())];
      (format!("corpus {}", f.0), f.1.clone())
    }
    1 => ("declarations".into(), exprgen::random_module(rng)),
    2 => {
      let d = 1 + rng.below(3);
      let (l, e) = exprgen::random_nested(rng, d);
      { let st = rng.below(3); (format!("nesting {l}"), exprgen::wrap_in_module(&e, st)) }
    }
    3 => {
      let t = rng.below(exprgen::triple_count());
      let (l, e) = exprgen::triple(t, rng);
      { let st = rng.below(3); (format!("triple {l}"), exprgen::wrap_in_module(&e, st)) }
    }
    _ => {
      // small corpus file (systematic single insertions use these)
      let small = corpus.small(2500);
      let f = small[rng.below(small.len())];
      (format!("corpus-small {}", f.0), f.1.clone())
    }
  }
}

fn kinds() -> [TokKind; 3] {
  [TokKind::LineComment, TokKind::BlockComment, TokKind::DocComment]
}

struct CaseOut {
  valid: bool,
  fails: Vec<(String, String)>,
  slots: Vec<String>,
  inserted: usize,
  text: String,
}

fn words(comments: &[(TokKind, String)]) -> Vec<String> {
  comments.iter().flat_map(|(_, t)| t.split_whitespace().map(|w| w.to_string()).collect::<Vec<_>>()).collect()
}

/// byte offset of the first toplevel keyword (end of the import section)
fn import_section_end(tokens: &[Tok]) -> usize {
  tokens.iter().find(|t| t.kind == TokKind::Keyword && matches!(t.text.as_str(), "class" | "interface" | "private")).map(|t| t.start).unwrap_or(usize::MAX)
}

fn run_case(text: &str, ins: &[(usize, TokKind)], width: usize, id_base: usize) -> CaseOut {
  let tokens: Vec<Tok> = toks::lex(text);
  let code: Vec<Tok> = tokens.iter().filter(|t| !t.is_comment()).cloned().collect();
  let mut inserted: Vec<Inserted> = ins.iter().enumerate().map(|(k, (g, kind))| Inserted { id: format!("c{}x", id_base + k), kind: *kind, gap: *g, slot: String::new() }).collect();
  // gaps index the full token list (comments included) so that existing comments stay in place
  let y = fmtcheck::insert_comments(text, &tokens, &inserted);
  let mut out = CaseOut { valid: false, fails: vec![], slots: vec![], inserted: inserted.len(), text: y.clone() };
  let p = match fmtcheck::parse(&y) {
    Ok(p) if p.syntax_errors.is_empty() => p,
    _ => return out,
  };
  out.valid = true;
  let _ = code;
  // slot labels from the text that was actually formatted
  let ytoks = toks::lex(&y);
  let tree = Walker::new(&p.heap).module(&p.module);
  let ycode: Vec<Tok> = ytoks.iter().filter(|t| !t.is_comment()).cloned().collect();
  let slot_of_comment = |ct: &Tok| -> String {
    let g = ycode.iter().position(|t| t.start > ct.start).unwrap_or(ycode.len());
    fmtcheck::slot_label(&ycode, g, &tree)
  };
  for i in inserted.iter_mut() {
    if let Some(ct) = ytoks.iter().find(|t| t.is_comment() && toks::normalised_comment_text(t) == i.id) {
      i.slot = slot_of_comment(ct);
      out.slots.push(format!("{}@{:?}", i.slot, i.kind));
    }
  }
  let f1 = match fmtcheck::format(&p, width) {
    Ok(f) => f,
    Err(e) => {
      out.fails.push((format!("printer-panic:{}", e.rsplit(" @ ").next().unwrap_or("")), format!("printer panicked: {e}")));
      return out;
    }
  };
  // ---- comments: sequence outside imports, multiset inside
  let split = import_section_end(&ytoks);
  let in_comments: Vec<(bool, TokKind, String, String)> =
    ytoks.iter().filter(|t| t.is_comment()).map(|t| (t.start < split, t.kind, toks::normalised_comment_text(t), slot_of_comment(t))).collect();
  let f1toks = toks::lex(&f1);
  let split_out = import_section_end(&f1toks);
  let out_comments: Vec<(bool, TokKind, String)> = f1toks.iter().filter(|t| t.is_comment()).map(|t| (t.start < split_out, t.kind, toks::normalised_comment_text(t))).collect();
  let in_words_all: Vec<String> = in_comments.iter().flat_map(|c| c.2.split_whitespace().map(|w| w.to_string()).collect::<Vec<_>>()).collect();
  let out_words_all: Vec<String> = out_comments.iter().flat_map(|c| c.2.split_whitespace().map(|w| w.to_string()).collect::<Vec<_>>()).collect();
  let mut in_sorted = in_words_all.clone();
  let mut out_sorted = out_words_all.clone();
  in_sorted.sort();
  out_sorted.sort();
  if in_sorted != out_sorted {
    // some comment text was lost or invented: attribute to the comments whose words are missing
    let mut budget: BTreeMap<String, i64> = BTreeMap::new();
    for w in &out_words_all {
      *budget.entry(w.clone()).or_insert(0) += 1;
    }
    let mut reported = BTreeSet::new();
    for c in &in_comments {
      let mut lost = false;
      for w in c.2.split_whitespace() {
        let e = budget.entry(w.to_string()).or_insert(0);
        if *e > 0 {
          *e -= 1;
        } else {
          lost = true;
        }
      }
      if lost && reported.insert(c.3.clone()) {
        out.fails.push((format!("comment-lost:{}", c.3), format!("{:?} comment `{}` in slot {} is missing from the formatted output (width {width})", c.1, c.2.chars().take(40).collect::<String>(), c.3)));
      }
    }
    if reported.is_empty() {
      out.fails.push(("comment-text-invented".into(), format!("formatted output contains comment words that the input does not (width {width})")));
    }
  } else {
    // nothing lost: relative order outside the import section
    let in_seq = words(&in_comments.iter().filter(|c| !c.0).map(|c| (c.1, c.2.clone())).collect::<Vec<_>>());
    let out_seq = words(&out_comments.iter().filter(|c| !c.0).map(|c| (c.1, c.2.clone())).collect::<Vec<_>>());
    if in_seq != out_seq && in_seq.len() == out_seq.len() {
      let k = in_seq.iter().zip(out_seq.iter()).position(|(a, b)| a != b).unwrap_or(0);
      let culprit = in_comments.iter().filter(|c| !c.0).find(|c| c.2.split_whitespace().any(|w| w == in_seq[k])).map(|c| c.3.clone()).unwrap_or_default();
      // pairs of slots form a large space: the signature keeps only the syntax node kind
      let culprit = culprit.split(':').next().unwrap_or("").to_string();
      out.fails.push((format!("comment-reordered:{culprit}"), format!("comments changed their relative order: word {k} is `{}` in the input and `{}` in the output (width {width})", in_seq[k], out_seq[k])));
    } else if in_seq.len() != out_seq.len() {
      // a comment crossed the import boundary
      out.fails.push(("comment-crossed-import-boundary".into(), format!("a comment moved between the import section and the declarations (width {width})")));
    }
  }
  // ---- idempotence
  match fmtcheck::parse(&f1) {
    Ok(q) if q.syntax_errors.is_empty() => match fmtcheck::format(&q, width) {
      Ok(f2) => {
        if f2 != f1 {
          let (l1, l2) = f1.lines().zip(f2.lines()).find(|(a, b)| a != b).map(|(a, b)| (a.to_string(), b.to_string())).unwrap_or_else(|| (format!("<{} lines>", f1.lines().count()), format!("<{} lines>", f2.lines().count())));
          let ln = f1.lines().zip(f2.lines()).position(|(a, b)| a != b).unwrap_or(0) as u32;
          // innermost node of f1 covering the first differing line
          let t1 = Walker::new(&q.heap).module(&q.module);
          let kind = innermost_kind_on_line(&t1, ln);
          let with_comment = l1.contains("//") || l1.contains("/*") || l2.contains("//") || l2.contains("/*");
          out.fails.push((format!("not-idempotent:{kind}{}", if with_comment { ":comment" } else { "" }), format!("second formatting differs (width {width}): `{}` became `{}`", l1.trim(), l2.trim())));
        }
      }
      Err(e) => out.fails.push(("printer-panic-on-own-output".into(), e)),
    },
    _ => {} // formatted output does not parse: C08's business
  }
  out
}

fn innermost_kind_on_line(n: &vcore::astwalk::Node, line: u32) -> String {
  let mut best = n.kind.to_string();
  fn rec(n: &vcore::astwalk::Node, line: u32, best: &mut String) {
    if let Some(l) = n.loc {
      if !(l.start.0 <= line && line <= l.end.0) {
        return;
      }
      *best = n.kind.to_string();
    }
    for c in &n.children {
      rec(c, line, best);
    }
  }
  rec(n, line, &mut best);
  best
}

/// Seed-independent catalogue of single-comment experiments: (label, text) list and, for each,
/// the number of gaps; case c of the catalogue = (text, gap, comment kind).
struct Catalogue {
  texts: Vec<(String, String, usize)>,
  /// prefix sums of 3 * (ntok + 1)
  starts: Vec<u64>,
  total: u64,
}

fn catalogue(tier: &str, corpus: &Corpus) -> Catalogue {
  let thorough = tier == "thorough";
  let mut texts: Vec<(String, String, usize)> = Vec::new();
  let mut files: Vec<&(String, String)> = corpus.all();
  files.sort_by(|a, b| a.0.cmp(&b.0));
  for f in files {
    if thorough || f.1.len() <= 3000 {
      texts.push((format!("corpus {}", f.0), f.1.clone(), 0));
    }
  }
  for k in 0..(if thorough { 400 } else { 120 }) {
    let mut r = Rng::new(0xC09_0000 + k);
    texts.push((format!("declarations#{k}"), exprgen::random_module(&mut r), 0));
  }
  let mut r = Rng::new(0xC09);
  for t in 0..exprgen::triple_count() {
    if thorough || t % 3 == 0 {
      let (l, e) = exprgen::triple(t, &mut r);
      texts.push((format!("triple {l}"), exprgen::wrap_in_module(&e, t), 0));
    }
  }
  let mut starts = Vec::with_capacity(texts.len());
  let mut total = 0u64;
  for t in texts.iter_mut() {
    t.2 = toks::lex(&t.1).len();
    starts.push(total);
    total += 3 * (t.2 as u64 + 1);
  }
  Catalogue { texts, starts, total }
}

fn random_cases(tier: &str) -> u64 {
  if tier == "thorough" { 300_000 } else { 12_000 }
}

fn stride(tier: &str) -> u64 {
  if tier == "thorough" { 1 } else { 7 }
}

/// (label, text, insertions, width, selected) — `selected` = false means the catalogue case is
/// not part of this run's subsample
fn gen_case(seed: u64, i: u64, tier: &str, cat: &Catalogue, corpus: &Corpus) -> (String, String, Vec<(usize, TokKind)>, usize, bool) {
  if i < cat.total {
    let st = stride(tier);
    if i % st != seed % st {
      return (String::new(), String::new(), vec![], 100, false);
    }
    let k = match cat.starts.binary_search(&i) {
      Ok(k) => k,
      Err(k) => k - 1,
    };
    let off = i - cat.starts[k];
    let (gap, kind) = ((off / 3) as usize, kinds()[(off % 3) as usize]);
    let t = &cat.texts[k];
    return (t.0.clone(), t.1.clone(), vec![(gap, kind)], 100, true);
  }
  let j = i - cat.total;
  let mut rng = Rng::new(seed ^ j.wrapping_mul(0x9E3779B97F4A7C15));
  let (label, text) = base_text(&mut rng, corpus, j);
  let ntok = toks::lex(&text).len();
  let mode = (j / 5) % 4;
  let ins: Vec<(usize, TokKind)> = match mode {
    0 => vec![], // plain idempotence of the text as it is
    1 => {
      // two comments around the same token / in adjacent gaps
      let g = rng.below(ntok + 1);
      let g2 = (g + rng.below(2)).min(ntok);
      vec![(g, kinds()[rng.below(3)]), (g2, kinds()[rng.below(3)])]
    }
    2 => {
      let k = 2 + rng.below(6);
      (0..k).map(|_| (rng.below(ntok + 1), kinds()[rng.below(3)])).collect()
    }
    _ => {
      let mut v = Vec::new();
      for g in 0..=ntok {
        if rng.chance(1, 4) {
          v.push((g, kinds()[rng.below(3)]));
        }
      }
      v
    }
  };
  (label, text, ins, 100, true)
}

fn worker(ctx: WorkerCtx) {
  let corpus = Corpus::load();
  let cat = catalogue(&ctx.tier, &corpus);
  let n = cat.total + random_cases(&ctx.tier);
  let mut i = ctx.only_case.unwrap_or(ctx.start_case);
  while i < n {
    if ctx.mine(i) {
      let (label, text, ins, width, selected) = gen_case(ctx.seed, i, &ctx.tier, &cat, &corpus);
      if selected {
        ctx.begin(i, &format!("{label} +{} comments", ins.len()));
        let r = run_case(&text, &ins, width, 100);
        let mut v = json!({"t": "r", "case": i, "label": label, "width": width, "valid": r.valid, "inserted": r.inserted, "slots": r.slots, "hash": format!("{:016x}", hash_str(&r.text)), "catalogue": i < cat.total});
        if !r.fails.is_empty() {
          v["fails"] = json!(r.fails.iter().map(|(s, w)| json!({"sig": s, "what": w})).collect::<Vec<_>>());
          v["input"] = json!(r.text);
        }
        if i % 1499 == 0 {
          v["sample"] = json!(r.text.chars().take(300).collect::<String>());
        }
        pool::emit(&v);
        ctx.end(i);
      }
    }
    if ctx.only_case.is_some() {
      break;
    }
    i += 1;
  }
}

fn main() {
  let args: Vec<String> = std::env::args().collect();
  if let Some(ctx) = WorkerCtx::from_args(&args) {
    pool::install_hook();
    worker(ctx);
    return;
  }
  let tier = args.get(1).cloned().unwrap_or_else(|| env_tier("quick"));
  let seed = env_seed();
  if let Some(p) = args.iter().position(|a| a == "--replay") {
    let text = std::fs::read_to_string(&args[p + 1]).expect("replay file");
    let body: String = text.lines().filter(|l| !l.starts_with("# ")).collect::<Vec<_>>().join("\n");
    pool::install_hook();
    let mut bad = false;
    for w in WIDTHS {
      let r = run_case(&body, &[], *w, 0);
      for (s, what) in &r.fails {
        bad = true;
        println!("width {w}: {s} — {what}");
      }
      if r.fails.is_empty() {
        println!("width {w}: {}", if r.valid { "ok" } else { "input has syntax errors" });
      }
    }
    std::process::exit(if bad { 1 } else { 0 });
  }
  let mut run = Run::new("C09", &tier, seed, "exploration");
  let opts = DriveOpts {
    nshards: 16,
    tier: tier.clone(),
    seed,
    stall: Duration::from_secs(90),
    overall: Duration::from_secs(if tier == "thorough" { 2400 } else { 600 }),
    extra: vec![],
    env: vec![],
    max_deaths_per_shard: 50,
  };
  let (res, timed_out) = pool::drive(&opts);
  if timed_out {
    run.inconclusive("overall wall-clock cap reached before all cases ran");
  }
  let mut slots: BTreeMap<String, u64> = BTreeMap::new();
  let mut valid = 0u64;
  let mut catalogue_cases = 0u64;
  let mut comments_inserted = 0u64;
  let mut texts: BTreeSet<String> = BTreeSet::new();
  let mut minimised: BTreeSet<String> = BTreeSet::new();
  pool::install_hook();
  for v in &res.events {
    if v["t"].as_str() != Some("r") {
      continue;
    }
    run.evaluations += 1;
    if v["catalogue"].as_bool() == Some(true) {
      catalogue_cases += 1;
    }
    if v["valid"].as_bool() == Some(true) {
      valid += 1;
      texts.insert(v["hash"].as_str().unwrap_or("").to_string());
      comments_inserted += v["inserted"].as_u64().unwrap_or(0);
      for s in v["slots"].as_array().cloned().unwrap_or_default() {
        *slots.entry(s.as_str().unwrap_or("").to_string()).or_insert(0) += 1;
      }
    }
    if let Some(fails) = v.get("fails").and_then(|f| f.as_array()) {
      let input = v["input"].as_str().unwrap_or("").to_string();
      let width = v["width"].as_u64().unwrap_or(100) as usize;
      for f in fails {
        let sig = f["sig"].as_str().unwrap_or("").to_string();
        let replay = if minimised.insert(sig.clone()) {
          let want = sig.clone();
          let min = vcore::ddmin::minimise_modules(&[("M".to_string(), input.clone())], &mut |c| run_case(&c[0].1, &[], width, 0).fails.iter().any(|(s, _)| *s == want), 600);
          format!("# width {width}\n# minimised input follows; original input after the marker line\n{}\n# ---- original ----\n# {}", min[0].1, input.replace('\n', "\n# "))
        } else {
          format!("# width {width}\n{input}")
        };
        run.violation(sig, format!("{} [{}]", f["what"].as_str().unwrap_or(""), v["label"].as_str().unwrap_or("")), replay);
      }
    }
    if let Some(s) = v.get("sample") {
      run.sample(json!({"label": v["label"], "width": v["width"], "comments_inserted": v["inserted"], "text_head": s}));
    }
  }
  for d in &res.deaths {
    match d.case {
      None => run.harness_errors.push(format!("worker shard {} died outside any case: {}", d.shard, d.how)),
      Some(case) => {
        let corpus = Corpus::load();
        let cat = catalogue(&tier, &corpus);
        let (label, text, ins, width, _) = gen_case(seed, case, &tier, &cat, &corpus);
        run.violation(format!("formatter-{}:{}", if d.hang { "hang" } else { "crash" }, d.how), format!("worker died ({}) on {label} with {} comments at width {width}", d.how, ins.len()), text);
      }
    }
  }
  let distinct_slot_labels: BTreeSet<String> = slots.keys().map(|s| s.split('@').next().unwrap_or("").to_string()).collect();
  run.distinct_nontrivial = slots.len() as u64;
  run.rule = "catalogue (seed selects a 1/7 residue class in quick, all of it in thorough): one comment of each kind in every gap of corpus files, generated declaration modules and expression triples; random part: texts with no inserted comment (plain idempotence), two comments around one token, 2-7 random gaps, or a quarter of all gaps; non-trivial = distinct (slot label, comment kind) pairs in which a comment was actually placed in a text that parses, where slot label = innermost syntax node : previous token | next token".into();
  run.cov("syntactically_valid_cases", json!(valid));
  run.cov("catalogue_cases_run", json!(catalogue_cases));
  run.cov("distinct_texts", json!(texts.len()));
  run.cov("comments_inserted", json!(comments_inserted));
  run.cov("distinct_slot_labels", json!(distinct_slot_labels.len()));
  run.cov("slot_labels_sample", json!(distinct_slot_labels.iter().take(80).collect::<Vec<_>>()));
  run.cov("widths", json!(WIDTHS));
  run.assumptions = vec![
    "comments are compared by their word sequence after the lexer's own whitespace normalisation (a long comment may be re-wrapped); kind changes are not judged".into(),
    "inside the import section comments are compared as a multiset (they move with their sorted import line), elsewhere as a sequence".into(),
    "the independent tokenizer decides what a comment is in both texts".into(),
  ];
  std::process::exit(run.finish());
}
