//! C11 — the language server survives every history of edits and queries.
//! Monitor: every request kind at every token boundary (and outside the text) of every module
//! after every operation of a generated history, each under catch_unwind, in subprocess workers;
//! the heap invariant hook runs after every operation (each triggers a GC slice).
use samlang_ast::{Location, Position};
use samlang_services::server_state::ServerState;
use samlang_services::{completion, query, rewrite};
use serde_json::json;
use std::collections::{BTreeMap, BTreeSet};
use std::panic::AssertUnwindSafe;
use std::time::Duration;
use vcore::evidence::{Run, env_seed, env_tier};
use vcore::lsphist::{self, Op};
use vcore::pool::{self, DriveOpts, WorkerCtx};
use vcore::rng::Rng;
use vcore::toks;

const REQUESTS: &[&str] = &["diagnostics", "hover", "completion", "signature_help", "definition", "references", "rename", "code_actions", "format", "folding_ranges"];

fn positions(text: &str, rng: &mut Rng, dense: bool) -> Vec<Position> {
  let mut v = vec![Position(0, 0)];
  let lines: Vec<&str> = text.split('\n').collect();
  let all = toks::lex(text);
  // large modules: a bounded random sample of token positions keeps one sweep cheap
  let keep_num = if all.len() > 400 { 40 } else { all.len().max(1) };
  let total = all.len().max(1);
  for t in all {
    if !rng.chance(keep_num as u32, total as u32) {
      continue;
    }
    if dense || rng.chance(1, 3) {
      v.push(Position(t.line, t.col));
      v.push(Position(t.line, t.col + (t.end - t.start) as u32));
      if t.end - t.start > 2 {
        v.push(Position(t.line, t.col + 1));
      }
    }
  }
  let last = lines.len() as u32;
  v.push(Position(last.saturating_sub(1), lines.last().map(|l| l.len() as u32 + 1).unwrap_or(1)));
  v.push(Position(last, 0));
  v.push(Position(last + 5, 3));
  v.push(Position(0, 10_000));
  v.push(Position(u32::MAX, u32::MAX));
  v.push(Position(u32::MAX - 1, 0));
  v
}

struct Sweep {
  queries: u64,
  some: u64,
  panics: Vec<(String, String, String)>, // (request, message, where)
}

fn sweep_module(state: &mut ServerState, name: &str, rng: &mut Rng, dense: bool, sw: &mut Sweep) {
  let m = lsphist::mref(&mut state.heap, name);
  let text = state.string_sources.get(&m).cloned().unwrap_or_else(|| "class Ghost { function f(): int = 1 }\n".to_string());
  macro_rules! guard {
    ($req:expr, $wh:expr, $body:expr) => {{
      sw.queries += 1;
      match pool::catch(AssertUnwindSafe(|| $body)) {
        Ok(some) => {
          if some {
            sw.some += 1;
          }
        }
        Err(e) => sw.panics.push(($req.to_string(), e, $wh)),
      }
    }};
  }
  guard!("diagnostics", format!("{name}"), {
    let errs = state.get_errors(&m);
    let mut n = 0;
    for e in errs {
      n += e.to_ide_format(&state.heap, &state.string_sources).ide_error.len();
    }
    n > 0
  });
  guard!("format", format!("{name}"), rewrite::format_entire_document(state, &m).is_some());
  guard!("folding_ranges", format!("{name}"), query::folding_ranges(state, &m).is_some());
  for p in positions(&text, rng, dense) {
    let wh = format!("{name}@{}:{}", p.0, p.1);
    guard!("hover", wh.clone(), query::hover(state, &m, p).map(|r| r.contents.iter().map(|c| c.to_string().len()).sum::<usize>() > 0).unwrap_or(false));
    guard!("completion", wh.clone(), {
      let items = completion::auto_complete(state, &m, p);
      items.iter().map(|i| i.to_string().len() + i.additional_edits.len()).sum::<usize>() > 0
    });
    guard!("signature_help", wh.clone(), query::signature_help(state, &m, p).map(|s| s.to_string().len() > 0).unwrap_or(false));
    guard!("definition", wh.clone(), query::definition_location(state, &m, p).is_some());
    guard!("references", wh.clone(), !query::all_references(state, &m, p).is_empty());
    guard!("rename", wh.clone(), rewrite::rename(state, &m, p, "renamedToSomethingLongEnough").is_some());
    guard!("code_actions", wh.clone(), !rewrite::code_actions(state, Location { module_reference: m, start: p, end: p }).is_empty());
  }
}

fn panic_signature(req: &str, msg: &str) -> String {
  let loc = msg.rsplit(" @ ").next().unwrap_or("").replace("/repo/", "");
  let head: String = msg.split(" @ ").next().unwrap_or("").chars().map(|c| if c.is_ascii_digit() { '#' } else { c }).take(40).collect();
  let head = if head.starts_with("Dereferencing deallocated string") { "Dereferencing deallocated string".to_string() } else { head };
  format!("panic:{req}:{loc}:{head}")
}

fn total(tier: &str) -> u64 {
  if tier == "thorough" { 60_000 } else { 8_000 }
}

fn gen_hist(seed: u64, k: u64, tier: &str) -> (Vec<(String, String)>, Vec<Op>, bool) {
  let mut rng = Rng::new(seed.wrapping_mul(0x9E3779B97F4A7C15) ^ k.wrapping_mul(0xD1B54A32D192ED03));
  if k % 400 == 7 {
    // bulk history: > 100 modules and > 10 000 heap strings (GC runs in slices, sweep cursor wraps)
    let (i, o) = lsphist::bulk_history(&mut rng, if k % 800 == 7 { 130 } else { 90 }, 45, if tier == "thorough" { 14 } else { 8 });
    return (i, o, true);
  }
  let maxlen = if tier == "thorough" { 50 } else { 16 };
  let len = 3 + rng.below(maxlen);
  let lng = k % 5 != 0;
  let (i, o) = lsphist::gen_history(&mut rng, len, lng);
  (i, o, lng)
}

fn worker(ctx: WorkerCtx) {
  let n = total(&ctx.tier);
  let mut k = ctx.only_case.unwrap_or(ctx.start_case);
  while k < n {
    if ctx.mine(k) {
      let (initial, ops, lng) = gen_hist(ctx.seed, k, &ctx.tier);
      ctx.begin(k, &format!("history of {} ops, long identifiers: {lng}", ops.len()));
      let mut rng = Rng::new(ctx.seed ^ k);
      let mut sw = Sweep { queries: 0, some: 0, panics: vec![] };
      let mut op_panic: Option<(usize, String)> = None;
      let mut hook_fail: Option<(usize, String)> = None;
      let (mut max_dealloc, mut max_slots, mut reclaim_events) = (0usize, 0usize, 0u64);
      let mut steps_done = 0usize;
      let state = pool::catch(AssertUnwindSafe(|| lsphist::new_state(&initial)));
      match state {
        Err(e) => op_panic = Some((0, format!("ServerState::new: {e}"))),
        Ok(mut state) => {
          // a never-edited state is queried too
          let names: Vec<String> = state.all_modules().iter().map(|m| m.pretty_print(&state.heap)).collect();
          for nm in names.iter().take(2) {
            sweep_module(&mut state, nm, &mut rng, false, &mut sw);
          }
          let mut last_dealloc = 0usize;
          for (i, op) in ops.iter().enumerate() {
            if let Err(e) = pool::catch(AssertUnwindSafe(|| lsphist::apply(&mut state, op))) {
              op_panic = Some((i, format!("{}: {e}", op.kind())));
              break;
            }
            steps_done = i + 1;
            ctx.begin(k, &format!("history of {} ops, step {i}", ops.len())); // heartbeat
            match state.heap.verif_check_invariants() {
              Ok(st) => {
                max_slots = max_slots.max(st.slots);
                max_dealloc = max_dealloc.max(st.deallocated);
                if st.deallocated > last_dealloc {
                  reclaim_events += 1;
                }
                last_dealloc = st.deallocated;
              }
              Err(e) => {
                hook_fail = Some((i, e));
                break;
              }
            }
            // touched modules (incl. just removed / renamed-away names) + one other
            let mut targets: Vec<String> = op.touched();
            let all: Vec<String> = state.all_modules().iter().map(|m| m.pretty_print(&state.heap)).collect();
            if !all.is_empty() {
              targets.push(all[rng.below(all.len())].clone());
            }
            targets.sort();
            targets.dedup();
            let dense = i + 1 == ops.len() || rng.chance(1, 4);
            for t in &targets {
              sweep_module(&mut state, t, &mut rng, dense, &mut sw);
            }
            if !sw.panics.is_empty() {
              break;
            }
          }
          if sw.panics.is_empty() && op_panic.is_none() && hook_fail.is_none() {
            let all: Vec<String> = state.all_modules().iter().map(|m| m.pretty_print(&state.heap)).collect();
            for (j, t) in all.iter().enumerate() {
              if all.len() > 20 && j % (all.len() / 20) != 0 {
                continue;
              }
              ctx.begin(k, &format!("history of {} ops, final sweep", ops.len()));
              sweep_module(&mut state, t, &mut rng, true, &mut sw);
            }
          }
        }
      }
      let mut v = json!({"t": "r", "case": k, "ops": ops.len(), "steps_done": steps_done, "queries": sw.queries, "some": sw.some, "long": lng,
        "max_slots": max_slots, "max_deallocated": max_dealloc, "reclaim_events": reclaim_events});
      if let Some((req, msg, wh)) = sw.panics.first() {
        v["panic"] = json!({"req": req, "msg": msg, "where": wh, "step": steps_done});
      }
      if let Some((i, e)) = &op_panic {
        v["op_panic"] = json!({"step": i, "msg": e});
      }
      if let Some((i, e)) = &hook_fail {
        v["hook"] = json!({"step": i, "msg": e});
      }
      pool::emit(&v);
      ctx.end(k);
    }
    if ctx.only_case.is_some() {
      break;
    }
    k += 1;
  }
}

fn main() {
  let args: Vec<String> = std::env::args().collect();
  if let Some(ctx) = WorkerCtx::from_args(&args) {
    pool::install_hook();
    worker(ctx);
    return;
  }
  let tier = args.get(1).cloned().unwrap_or_else(|| env_tier("quick"));
  let seed = env_seed();
  let mut run = Run::new("C11", &tier, seed, "exploration");
  let opts = DriveOpts {
    nshards: 16,
    tier: tier.clone(),
    seed,
    stall: Duration::from_secs(120),
    overall: Duration::from_secs(if tier == "thorough" { 2700 } else { 600 }),
    extra: vec![],
    env: vec![("RAYON_NUM_THREADS".into(), "2".into())],
    max_deaths_per_shard: 50,
  };
  let (res, timed_out) = pool::drive(&opts);
  if timed_out {
    run.inconclusive("overall wall-clock cap reached before all histories ran");
  }
  let (mut queries, mut some, mut steps, mut nt, mut reclaim_hist, mut max_slots, mut max_dealloc) = (0u64, 0u64, 0u64, 0u64, 0u64, 0u64, 0u64);
  let mut by_sig: BTreeMap<String, u64> = BTreeMap::new();
  let mut seen: BTreeSet<String> = BTreeSet::new();
  for v in &res.events {
    if v["t"].as_str() != Some("r") {
      continue;
    }
    run.evaluations += 1;
    queries += v["queries"].as_u64().unwrap_or(0);
    some += v["some"].as_u64().unwrap_or(0);
    steps += v["steps_done"].as_u64().unwrap_or(0);
    max_slots = max_slots.max(v["max_slots"].as_u64().unwrap_or(0));
    max_dealloc = max_dealloc.max(v["max_deallocated"].as_u64().unwrap_or(0));
    if v["reclaim_events"].as_u64().unwrap_or(0) > 0 {
      reclaim_hist += 1;
      if v["some"].as_u64().unwrap_or(0) > 0 {
        nt += 1;
      }
    }
    let case = v["case"].as_u64().unwrap_or(0);
    let mut report = |sig: String, what: String, step: usize, run: &mut Run| {
      *by_sig.entry(sig.clone()).or_insert(0) += 1;
      let (initial, ops, _) = gen_hist(seed, case, &tier);
      let upto = (step + 1).min(ops.len());
      let replay = format!("history seed={seed} number={case}\n{}\nfailing request: {what}", lsphist::render_history(&initial, &ops[..upto]));
      if seen.insert(sig.clone()) || by_sig[&sig] < 3 {
        run.violation(sig, what, replay);
      } else {
        run.violation(sig, what, format!("history seed={seed} number={case} (see the first replay of this signature)"));
      }
    };
    if let Some(p) = v.get("panic") {
      let (req, msg) = (p["req"].as_str().unwrap_or(""), p["msg"].as_str().unwrap_or(""));
      report(panic_signature(req, msg), format!("{req} at {} panicked after step {}: {msg}", p["where"].as_str().unwrap_or(""), p["step"]), p["step"].as_u64().unwrap_or(0) as usize, &mut run);
    }
    if let Some(p) = v.get("op_panic") {
      let msg = p["msg"].as_str().unwrap_or("");
      let op = msg.split(':').next().unwrap_or("");
      report(panic_signature(op, msg), format!("operation panicked at step {}: {msg}", p["step"]), p["step"].as_u64().unwrap_or(0) as usize, &mut run);
    }
    if let Some(p) = v.get("hook") {
      let msg = p["msg"].as_str().unwrap_or("");
      let class: String = msg.split('(').next().unwrap_or("").chars().filter(|c| !c.is_ascii_digit()).collect();
      report(format!("heap-invariant:{}", class.trim()), format!("heap invariant hook failed after step {}: {msg}", p["step"]), p["step"].as_u64().unwrap_or(0) as usize, &mut run);
    }
    if case % 401 == 0 {
      let (initial, ops, _) = gen_hist(seed, case, &tier);
      run.sample(json!({"history_head": lsphist::render_history(&initial, &ops[..ops.len().min(3)]).chars().take(700).collect::<String>(), "queries": v["queries"], "answered": v["some"]}));
    }
  }
  for d in &res.deaths {
    match d.case {
      None => run.harness_errors.push(format!("worker shard {} died outside any case: {} {}", d.shard, d.how, d.stderr_tail.lines().last().unwrap_or(""))),
      Some(case) => {
        let (initial, ops, _) = gen_hist(seed, case, &tier);
        let sig = format!("server-{}:{}", if d.hang { "hang" } else { "abort" }, d.how);
        run.violation(sig, format!("worker died ({}) during history {case}: {}", d.how, d.stderr_tail.lines().rev().find(|l| !l.trim().is_empty()).unwrap_or("")), lsphist::render_history(&initial, &ops));
      }
    }
  }
  run.distinct_nontrivial = nt;
  run.rule = "histories generated from VERIF_SEED (see C10) with identifiers longer than 15 bytes in class, member, parameter (used and unused), field, variant, type parameter, local, import, comment and string positions in 4 of 5 histories; after every operation every request kind is issued at token boundaries and out-of-range positions of the touched modules (also just removed / renamed-away ones) and one other module, and at every position of every module at the end; non-trivial = history in which the heap hook observed at least one string being reclaimed and at least one request returned a result".into();
  run.cov("requests_issued", json!(queries));
  run.cov("requests_answered_with_a_result", json!(some));
  run.cov("request_kinds", json!(REQUESTS));
  run.cov("operations_applied", json!(steps));
  run.cov("histories_with_reclaimed_strings", json!(reclaim_hist));
  run.cov("max_heap_slots", json!(max_slots));
  run.cov("max_deallocated_slots", json!(max_dealloc));
  run.cov("violation_occurrences_by_signature", json!(by_sig));
  run.assumptions = vec![
    "every request runs under catch_unwind inside a subprocess worker; aborts and hangs are attributed to the announced history by the driver".into(),
    "the heap invariant hook (cfg samlang_verif) is evaluated after every operation".into(),
  ];
  std::process::exit(run.finish());
}
