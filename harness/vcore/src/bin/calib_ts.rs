//! Calibration of vcore::tsrun (TypeScript eraser + node runner).
//!
//!   calib_ts                  run the whole calibration; exit 0 only when everything holds
//!   calib_ts --dump <module>  print the TypeScript emitted for a module of the repo project
//!   calib_ts --dump-js <mod>  print the erased JavaScript
use std::time::Instant;
use vcore::front::{self, Project};
use vcore::trace::{Ending, Limits, Trace};
use vcore::tsrun;

struct Calib {
  failures: Vec<String>,
  checks: usize,
}

impl Calib {
  fn check(&mut self, name: &str, ok: bool, detail: impl FnOnce() -> String) {
    self.checks += 1;
    if ok {
      println!("ok    {name}");
    } else {
      let d = detail();
      println!("FAIL  {name}: {d}");
      self.failures.push(format!("{name}: {d}"));
    }
  }
}

fn short(t: &Trace) -> String {
  let n = t.lines.len();
  let head: Vec<&String> = t.lines.iter().take(5).collect();
  format!("ending={:?} lines({n})={head:?}", t.ending)
}

fn compile_js(src: &str) -> Result<String, String> {
  let p = Project::single("Main", src).with_std();
  let c = front::compile_project(&p, "Main").map_err(|e| format!("samlang compile error: {e}"))?;
  tsrun::erase(&c.ts).map_err(|e| format!("erase failed: {e}"))
}

fn must_js(src: &str) -> String {
  match compile_js(src) {
    Ok(js) => js,
    Err(e) => {
      eprintln!("calib_ts: cannot prepare a calibration program: {e}\n--- source ---\n{src}");
      std::process::exit(2);
    }
  }
}

const P_PANIC: &str = r#"class Main {
  function main(): unit = {
    let _ = Process.println("before");
    Process.panic("boom")
  }
}
"#;

const P_VEC_GET: &str = r#"class Main {
  function main(): unit = {
    let _ = Process.println("v");
    let x = Vec.empty<int>().get(0);
    Process.println(Str.fromInt(x))
  }
}
"#;

const P_VEC_POP: &str = r#"class Main {
  function main(): unit = {
    let v = Vec.empty<int>();
    let x = v.pop();
    Process.println(Str.fromInt(x))
  }
}
"#;

const P_VEC_SET: &str = r#"class Main {
  function main(): unit = {
    let v = Vec.of<int>(3);
    let _ = v.set(1, 4);
    Process.println("unreachable")
  }
}
"#;

const P_PANIC_VECMSG: &str = r#"class Main {
  function main(): unit = Process.panic("Vec index out of bounds")
}
"#;

const P_RECURSE: &str = r#"class Main {
  function deep(i: int): int = 1 + Main.deep(i + 1)
  function main(): unit = Process.println(Str.fromInt(Main.deep(0)))
}
"#;

const P_LOOP: &str = r#"class Main {
  function loop(i: int): int = Main.loop(i + 1)
  function main(): unit = {
    let _ = Process.println("looping");
    Process.println(Str.fromInt(Main.loop(0)))
  }
}
"#;

const P_MANY_LINES: &str = r#"class Main {
  function spam(i: int): int = {
    let _ = Process.println(Str.fromInt(i));
    Main.spam(i + 1)
  }
  function main(): unit = Process.println(Str.fromInt(Main.spam(0)))
}
"#;

const P_DIV: &str = r#"class Main {
  function id(i: int): int = if i > 1000000 { 1 } else { i }
  function main(): unit = {
    let _ = Process.println(Str.fromInt(7 / Main.id(2)));
    let _ = Process.println(Str.fromInt(7 % Main.id(0)));
    Process.println(Str.fromInt(7 / Main.id(0)))
  }
}
"#;

/// strings whose content looks like TypeScript annotations, keywords, comments
const TRICKY: &[&str] = &[
  "let x: number = 1 as unknown as T",
  "type Foo = [number, number];",
  "function f(a: number, b: _Str): never { return a as any; }",
  "// not a comment: number",
  "/* as unknown as */ x!",
  "enum X {A} interface Foo {} @decorator class C<T> {}",
  "const f = (a: T): T => a; 'single' : quotes",
  "a ? b : c ?? d?.e <T>(x)",
];

fn tricky_program() -> String {
  let mut s = String::from("class Main {\n  function main(): unit = {\n");
  for t in TRICKY {
    s.push_str(&format!("    let _ = Process.println(\"{t}\");\n"));
  }
  // also through concatenation, so that the strings are not only direct println arguments
  s.push_str(&format!(
    "    Process.println(\"{}\" :: \" | \" :: \"{}\")\n  }}\n}}\n",
    TRICKY[0], TRICKY[1]
  ));
  s
}

fn small_program(k: usize) -> String {
  format!(
    r#"class Main {{
  function fib(n: int): int = if n < 2 {{ n }} else {{ Main.fib(n - 1) + Main.fib(n - 2) }}
  function main(): unit = {{
    let _ = Process.println("program {k}");
    Process.println(Str.fromInt(Main.fib({n})))
  }}
}}
"#,
    n = 5 + (k % 10)
  )
}

fn fib(n: usize) -> u64 {
  if n < 2 { n as u64 } else { fib(n - 1) + fib(n - 2) }
}

fn main() {
  let args: Vec<String> = std::env::args().collect();
  if args.len() >= 3 && (args[1] == "--dump" || args[1] == "--dump-js") {
    let c = front::compile_project(&front::repo_project(), &args[2]).expect("compile");
    if args[1] == "--dump" {
      print!("{}", c.ts);
    } else {
      match tsrun::erase(&c.ts) {
        Ok(js) => print!("{js}"),
        Err(e) => {
          eprintln!("erase: {e}");
          std::process::exit(1);
        }
      }
    }
    return;
  }

  let mut c = Calib { failures: vec![], checks: 0 };
  let limits = Limits::default();

  // ---------------------------------------------------------------- (1) tests.AllTests
  {
    let t0 = Instant::now();
    let compiled = front::compile_project(&front::repo_project(), "tests.AllTests");
    let compiled = match compiled {
      Ok(x) => x,
      Err(e) => {
        eprintln!("calib_ts: tests.AllTests does not compile: {e}");
        std::process::exit(2);
      }
    };
    println!("      compiled tests.AllTests: {} bytes of TypeScript in {:?}", compiled.ts.len(), t0.elapsed());
    let t1 = Instant::now();
    let erased = tsrun::erase(&compiled.ts);
    println!("      erase: {:?}", t1.elapsed());
    c.check("AllTests: erase", erased.is_ok(), || erased.clone().unwrap_err());
    if let Ok(js) = erased {
      c.check("AllTests: erased text keeps length and line count", js.len() == compiled.ts.len()
        && js.matches('\n').count() == compiled.ts.matches('\n').count(), || {
        format!("ts {} bytes, js {} bytes", compiled.ts.len(), js.len())
      });
      let t2 = Instant::now();
      let sc = tsrun::syntax_check(&js);
      println!("      node --check: {:?}", t2.elapsed());
      c.check("AllTests: node --check", sc.is_ok(), || sc.clone().unwrap_err());
      let t3 = Instant::now();
      let tr = tsrun::run_one(&js, &limits, 60_000);
      println!("      run_one: {:?} (program itself {} ms)", t3.elapsed(), tr.steps);
      let want = std::fs::read_to_string(format!("{}/tests/snapshot.txt", front::REPO)).expect("snapshot.txt");
      c.check("AllTests: ends with Return", tr.ending == Ending::Return, || short(&tr));
      let got = tr.stdout();
      c.check("AllTests: stdout == tests/snapshot.txt byte for byte", got == want, || {
        let gl: Vec<&str> = got.lines().collect();
        let wl: Vec<&str> = want.lines().collect();
        let i = gl.iter().zip(wl.iter()).position(|(a, b)| a != b).unwrap_or(gl.len().min(wl.len()));
        format!(
          "first difference at line {}: got {:?}, want {:?} (got {} lines, want {})",
          i + 1,
          gl.get(i),
          wl.get(i),
          gl.len(),
          wl.len()
        )
      });
    }
  }

  // ---------------------------------------------------------------- (2) endings
  let js_panic = must_js(P_PANIC);
  let js_get = must_js(P_VEC_GET);
  let js_pop = must_js(P_VEC_POP);
  let js_set = must_js(P_VEC_SET);
  let js_panic_vecmsg = must_js(P_PANIC_VECMSG);
  let js_recurse = must_js(P_RECURSE);
  let js_loop = must_js(P_LOOP);
  let js_spam = must_js(P_MANY_LINES);
  let js_div = must_js(P_DIV);

  {
    let t = tsrun::run_one(&js_panic, &limits, 5000);
    c.check(
      "panic: Panic(\"boom\") after the printed line",
      t.ending == Ending::Panic("boom".into()) && t.lines == vec!["before".to_string()],
      || short(&t),
    );
    let t = tsrun::run_one(&js_get, &limits, 5000);
    c.check("Vec.get(0) on empty: VecBounds", t.ending == Ending::VecBounds && t.lines == vec!["v".to_string()], || short(&t));
    let t = tsrun::run_one(&js_pop, &limits, 5000);
    c.check("Vec.pop on empty: VecBounds", t.ending == Ending::VecBounds && t.lines.is_empty(), || short(&t));
    let t = tsrun::run_one(&js_set, &limits, 5000);
    c.check("Vec.set out of range: VecBounds", t.ending == Ending::VecBounds && t.lines.is_empty(), || short(&t));
    let t = tsrun::run_one(&js_panic_vecmsg, &limits, 5000);
    c.check(
      "panic with the Vec message stays a Panic",
      t.ending == Ending::Panic("Vec index out of bounds".into()),
      || short(&t),
    );
    let t0 = Instant::now();
    let t = tsrun::run_one(&js_recurse, &limits, 30_000);
    println!("      infinite recursion came back in {:?}", t0.elapsed());
    c.check("infinite non-tail recursion: StackExhausted", t.ending == Ending::StackExhausted && t.lines.is_empty(), || short(&t));
    let t0 = Instant::now();
    let t = tsrun::run_one(&js_loop, &limits, 300);
    println!("      infinite loop came back in {:?}", t0.elapsed());
    c.check("infinite loop: StepLimit by timeout", t.ending == Ending::StepLimit && t.lines == vec!["looping".to_string()], || short(&t));
    let small = Limits { max_lines: 100, ..limits };
    let t = tsrun::run_one(&js_spam, &small, 5000);
    c.check(
      "more than max_lines lines: StepLimit with exactly max_lines lines kept",
      t.ending == Ending::StepLimit && t.lines.len() == 100 && t.lines[99] == "99",
      || short(&t),
    );
    let t = tsrun::run_one(&js_div, &limits, 5000);
    println!("      division artefacts as printed by node: {:?} / {:?}", t.lines, t.ending);
    c.check("division by zero does not trap under node (artefacts are printed)", t.ending == Ending::Return && t.lines.len() == 3 && t.lines[0] == "3", || short(&t));
    // load-time and run-time engine faults
    let t = tsrun::run_one("let x = ;", &limits, 1000);
    c.check(
      "SyntaxError at load: Fault{SyntaxError}",
      matches!(&t.ending, Ending::Fault { kind, at } if kind == "SyntaxError" && at.contains("line 1")),
      || short(&t),
    );
    let t = tsrun::run_one("console.log('x'); null.f();", &limits, 1000);
    c.check(
      "TypeError: Fault{TypeError}",
      matches!(&t.ending, Ending::Fault { kind, at } if kind == "TypeError" && at.contains("prog.js:1")) && t.lines == vec!["x".to_string()],
      || short(&t),
    );
    let t = tsrun::run_one("undefinedName + 1;", &limits, 1000);
    c.check("ReferenceError: Fault{ReferenceError}", matches!(&t.ending, Ending::Fault { kind, .. } if kind == "ReferenceError"), || short(&t));
    let t = tsrun::run_one("new Array(-1);", &limits, 1000);
    c.check("other RangeError: Fault{RangeError}", matches!(&t.ending, Ending::Fault { kind, .. } if kind == "RangeError"), || short(&t));
    let t = tsrun::run_one("throw 5;", &limits, 1000);
    c.check("thrown non-error: Fault{Thrown}", matches!(&t.ending, Ending::Fault { kind, .. } if kind == "Thrown"), || short(&t));
    let t = tsrun::run_one("console.log('a\\nb'); console.log(''); console.log(1, 'x');", &limits, 1000);
    c.check(
      "lines are split like stdout",
      t.ending == Ending::Return && t.lines == vec!["a".to_string(), "b".into(), "".into(), "1 x".into()],
      || short(&t),
    );
    // a program that eats memory must not take the batch down
    let hog = "const a = []; while (true) { a.push(new Array(100000).fill(1)); }".to_string();
    let t0 = Instant::now();
    let ts = tsrun::run_batch(&[js_panic.clone(), hog, js_get.clone()], &limits, 20_000);
    println!("      memory hog batch came back in {:?}: {:?}", t0.elapsed(), ts.iter().map(|t| &t.ending).collect::<Vec<_>>());
    c.check(
      "memory hog: inconclusive for itself, neighbours intact",
      ts.len() == 3
        && ts[0].ending == Ending::Panic("boom".into())
        && !ts[1].conclusive()
        && ts[2].ending == Ending::VecBounds,
      || format!("{:?}", ts.iter().map(short).collect::<Vec<_>>()),
    );
  }

  // ---------------------------------------------------------------- (2b) batch of 50
  {
    let mut progs: Vec<String> = Vec::new();
    let mut expect: Vec<(Ending, Vec<String>)> = Vec::new();
    for k in 0..50usize {
      match k {
        7 => {
          progs.push(js_panic.clone());
          expect.push((Ending::Panic("boom".into()), vec!["before".into()]));
        }
        13 => {
          progs.push(js_get.clone());
          expect.push((Ending::VecBounds, vec!["v".into()]));
        }
        21 => {
          progs.push(js_loop.clone());
          expect.push((Ending::StepLimit, vec!["looping".into()]));
        }
        22 => {
          progs.push(js_recurse.clone());
          expect.push((Ending::StackExhausted, vec![]));
        }
        30 => {
          progs.push("let x: number = 1;".to_string()); // un-erased TypeScript: load-time SyntaxError
          expect.push((Ending::Fault { kind: "SyntaxError".into(), at: String::new() }, vec![]));
        }
        41 => {
          progs.push(js_pop.clone());
          expect.push((Ending::VecBounds, vec![]));
        }
        _ => {
          progs.push(must_js(&small_program(k)));
          expect.push((Ending::Return, vec![format!("program {k}"), fib(5 + (k % 10)).to_string()]));
        }
      }
    }
    let t0 = Instant::now();
    let traces = tsrun::run_batch(&progs, &limits, 400);
    println!("      batch of 50 mixed programs: {:?}", t0.elapsed());
    c.check("batch: 50 traces", traces.len() == 50, || format!("{} traces", traces.len()));
    let mut bad = Vec::new();
    for (k, (t, (e, l))) in traces.iter().zip(expect.iter()).enumerate() {
      let ending_ok = match (e, &t.ending) {
        (Ending::Fault { kind: a, .. }, Ending::Fault { kind: b, .. }) => a == b,
        (a, b) => a == b,
      };
      if !ending_ok || &t.lines != l {
        bad.push(format!("#{k}: want {e:?} {l:?}, got {}", short(t)));
      }
    }
    c.check("batch: every trace is the expected one, in order", bad.is_empty(), || bad.join("; "));
  }

  // ---------------------------------------------------------------- (2c) a process-killing program
  {
    // process.exit is not reachable from the vm context by name, but the host function's
    // constructor is: this really terminates the whole node process mid-batch
    let killer = "const p = console.log.constructor('return process')(); p.kill(p.pid, 'SIGKILL'); while(true){}".to_string();
    let progs = vec![js_panic.clone(), js_get.clone(), killer, js_pop.clone(), must_js(&small_program(3))];
    let t0 = Instant::now();
    let ts = tsrun::run_batch(&progs, &limits, 2000);
    println!("      batch with a process killer: {:?}", t0.elapsed());
    c.check(
      "node killed mid-batch: culprit is Harness(node died ..), the others are re-run",
      ts.len() == 5
        && ts[0].ending == Ending::Panic("boom".into())
        && ts[1].ending == Ending::VecBounds
        && matches!(&ts[2].ending, Ending::Harness(m) if m.starts_with("node died"))
        && ts[3].ending == Ending::VecBounds
        && ts[4].ending == Ending::Return
        && ts[4].lines == vec!["program 3".to_string(), "21".to_string()],
      || format!("{:?}", ts.iter().map(short).collect::<Vec<_>>()),
    );
  }

  // ---------------------------------------------------------------- (3) eraser negatives
  {
    let refuse: &[(&str, &str)] = &[
      ("enum", "enum X {A}\n"),
      ("interface", "interface Foo {}\n"),
      ("decorator", "@dec\nfunction f(): number { return 1; }\n"),
      ("class", "class A { x: number = 1; }\n"),
      ("optional parameter", "function f(a?: number): number { return 1; }\n"),
      ("default parameter", "function f(a: number = 1): number { return a; }\n"),
      ("conditional", "let a = b ? 1 : 2;\n"),
      ("object literal", "let a = { b: 1 };\n"),
      ("union type", "let a: number | string = 1;\n"),
      ("non-null assertion", "let a = b!.c;\n"),
      ("angle-bracket cast", "let a = <number>b;\n"),
      ("generic arrow", "const f = <T>(x: T): T => x;\n"),
      ("generic call", "let a = f<number>(1);\n"),
      ("overload signature", "function f(a: number): number;\n"),
      ("type predicate", "function f(a: any): a is number { return true; }\n"),
      ("as const", "let a = [1] as const;\n"),
      ("satisfies", "let a = 1 satisfies number;\n"),
      ("keyof", "let a: keyof T = 1;\n"),
      ("declare", "declare const x: number;\n"),
      ("namespace", "namespace N { }\n"),
      ("import", "import { a } from 'b';\n"),
      ("export", "export const a = 1;\n"),
      ("generic alias", "type Box<T> = [T];\n"),
      ("object type", "type O = { a: number };\n"),
      ("indexed access type", "let a = b as T[0];\n"),
      ("cast followed by operator", "let a = b as number + 1;\n"),
      ("definite assignment", "let a!: number;\n"),
      ("this parameter", "function f(this: T): number { return 1; }\n"),
      ("regex literal", "let a = /x: number/;\n"),
      ("label", "outer: while (true) { break outer; }\n"),
      ("unterminated template", "const s = `abc;\n"),
      ("unterminated string", "const s = 'abc;\n"),
      ("unbalanced", "function f() { return (1; }\n"),
      ("abstract class", "abstract class A {}\n"),
      ("readonly array type", "let a: readonly number[] = [];\n"),
      ("multi declarator", "let a: number = 1, b: number = 2;\n"),
      ("destructuring declaration with type", "let [a, b]: _Str = c;\n"),
    ];
    for (name, ts) in refuse {
      let r = tsrun::erase(ts);
      c.check(&format!("eraser refuses: {name}"), r.is_err(), || format!("accepted as {:?}", r.clone().unwrap()));
    }
    // shapes it must accept, with the exact expected output (erased text -> spaces)
    let accept: &[(&str, &str)] = &[
      ("type _Str = [number, number];\n", "                             \n"),
      ("let x: number = 1;\n", "let x         = 1;\n"),
      ("var y: (t0: number, t1: _Str) => number;\n", "var y                                  ;\n"),
      ("let a = b as unknown as Foo;\n", "let a = b                  ;\n"),
      ("const g: _Str = [0, `x: number as T ${`n: ${1}`}` as unknown as number];\n", "const g       = [0, `x: number as T ${`n: ${1}`}`                     ];\n"),
      ("const f = ([, a]: _Str, b: any[]): _Str => [1, a + b];\n", "const f = ([, a]      , b       )       => [1, a + b];\n"),
      ("function f<T>(a: number, g: (t0: number) => number): number {\n  return g(a);\n}\n", "function f   (a        , g                        )         {\n  return g(a);\n}\n"),
      ("let s = 'a: number' + \"b as T\"; // c: number\n", "let s = 'a: number' + \"b as T\"; // c: number\n"),
      ("/* let x: number */ let as = 1; let t = as + 1;\n", "/* let x: number */ let as = 1; let t = as + 1;\n"),
      ("let d = Number(a < b); let e = Math.floor(a / b); let f = !a;\n", "let d = Number(a < b); let e = Math.floor(a / b); let f = !a;\n"),
    ];
    for (ts, want) in accept {
      let r = tsrun::erase(ts);
      c.check(&format!("eraser output for {:?}", ts.trim_end()), r.as_deref() == Ok(*want), || format!("got {r:?}, want {want:?}"));
    }
    // the fixed prolog on its own must erase to valid JavaScript
    let prolog = samlang_ast_prolog();
    let r = tsrun::erase(&prolog);
    c.check("eraser accepts the prolog", r.is_ok(), || r.clone().unwrap_err());
    if let Ok(js) = r {
      let sc = tsrun::syntax_check(&js);
      c.check("erased prolog passes node --check", sc.is_ok(), || sc.clone().unwrap_err());
      let residue = [": number", ": _Str", ": _Vec", ": any", " as ", "type "].iter().filter(|n| js.contains(**n)).count();
      c.check("erased prolog has no annotation residue", residue == 0, || js.clone());
    }
    let sc = tsrun::syntax_check("let x = 1;\nlet y: number = 2;\n");
    c.check(
      "syntax_check reports the first error with line/col",
      matches!(&sc, Err(m) if m.contains("SyntaxError") && m.contains("line 2")),
      || format!("{sc:?}"),
    );

    // strings that look like TypeScript must come through unchanged
    let src = tricky_program();
    let js = must_js(&src);
    let t = tsrun::run_one(&js, &limits, 5000);
    let mut want: Vec<String> = TRICKY.iter().map(|s| s.to_string()).collect();
    want.push(format!("{} | {}", TRICKY[0], TRICKY[1]));
    c.check("strings containing TypeScript-looking text are printed unchanged", t.ending == Ending::Return && t.lines == want, || {
      format!("got {:?} / {:?}, want {want:?}", t.ending, t.lines)
    });
  }

  // ---------------------------------------------------------------- (3b) raw string contents
  {
    // The emitter pastes the samlang string between backticks. The eraser must pass whatever is
    // there through verbatim, so that node shows what the emitted TypeScript really does.
    let src = "class Main {\n  function main(): unit = {\n    let _ = Process.println(\"${1+1} as unknown as number\");\n    Process.println(\"a\\nb: number\")\n  }\n}\n";
    match compile_js(src) {
      Ok(js) => {
        let t = tsrun::run_one(&js, &limits, 5000);
        println!("      samlang \"${{1+1}} ...\" and \"a\\nb: number\" print as {:?} / {:?}", t.lines, t.ending);
        c.check(
          "a samlang string with ${..} is not interpolated; backslash escapes are interpreted by the template literal",
          t.ending == Ending::Return
            && t.lines == vec!["${1+1} as unknown as number".to_string(), "a".into(), "b: number".into()],
          || short(&t),
        );
      }
      Err(e) => c.check("template substitution inside a samlang string", false, || e),
    }
    let none = tsrun::run_batch(&[], &limits, 100);
    c.check("empty batch", none.is_empty(), || format!("{} traces", none.len()));
  }

  // ---------------------------------------------------------------- measurements
  {
    let mut best = std::time::Duration::MAX;
    for _ in 0..5 {
      best = best.min(tsrun::measure_startup());
    }
    println!("measure: per-process start-up (node + runner.js + worker + 1 empty program), best of 5: {best:?}");
    let progs: Vec<String> = (0..500).map(|k| must_js(&small_program(k % 50))).collect();
    let bytes: usize = progs.iter().map(|p| p.len()).sum();
    let t0 = Instant::now();
    let ts = tsrun::run_batch(&progs, &limits, 2000);
    let el = t0.elapsed();
    let ok = ts.iter().filter(|t| t.ending == Ending::Return).count();
    println!(
      "measure: batch of {} small programs ({} KB of JS each on average): {:?} => {:.0} programs/s ({} returned normally)",
      progs.len(),
      bytes / progs.len() / 1024,
      el,
      progs.len() as f64 / el.as_secs_f64(),
      ok
    );
    c.check("throughput batch: all 500 returned", ok == 500, || format!("{ok} of 500"));
    let t0 = Instant::now();
    for p in progs.iter().take(10) {
      let _ = tsrun::run_one(p, &limits, 2000);
    }
    println!("measure: run_one, one process per program: {:.1} programs/s", 10.0 / t0.elapsed().as_secs_f64());
  }

  println!();
  if c.failures.is_empty() {
    println!("calib_ts: all {} checks passed", c.checks);
  } else {
    println!("calib_ts: {} of {} checks FAILED", c.failures.len(), c.checks);
    for f in &c.failures {
      println!("  - {f}");
    }
    std::process::exit(1);
  }
}

fn samlang_ast_prolog() -> String {
  samlang_ast::lir::ts_prolog()
}
