//! Calibration of the program generator (vcore::pgen).
//!
//!   calib_gen [N]            seeds 0..N (default 600): generate, check, run ref / wasm / ts, compare, report
//!   calib_gen show SEED      print the generated program of a seed
//!   calib_gen one SEED       run one seed verbosely (all traces)
//!   calib_gen file F.sam     run a hand-written (or minimised) program through all executors;
//!                            modules are separated by lines `//// module <dotted.name>` (default: one module `Main`)
//!   calib_gen time [N]       generation speed only
//!   calib_gen min SEED|F KIND [substr]   delta-debug (classes, members, lines) a seed / file while the failure stays;
//!                            KIND: compile | wasm-invalid | ts-erase | ref-wasm | ref-ts | wasm-ts (substr must occur in the message / diff);
//!                            CALIB_GEN_TOKENS=1 adds a token level pass
//!   calib_gen dump-ts F.sam  print the emitted TypeScript (WAT=1: the emitted wat) of a program file
//!   env: CALIB_GEN_DUMP=path (per seed status + features, tab separated), CALIB_GEN_FEW_DIFFS=1 (4 diffs per group),
//!        CALIB_GEN_PANICS=1 (do not silence the panic messages of the compiler)
//!
//! Exit code 0 = generator calibrated (100% accepted, no Harness ending, no ub flags where excluded),
//! 1 = a deviation. Disagreements between executors do NOT make the exit code non-zero (they are findings).
use samlang_heap::Heap;
use std::collections::{BTreeMap, BTreeSet};
use std::time::Instant;
use vcore::front::{self, Project};
use vcore::pgen::{self, GenConfig};
use vcore::refint;
use vcore::trace::{Ending, Limits, Trace};
use vcore::tsrun;
use vcore::wasmi;

const THREADS: usize = 16;
const TS_BATCH: usize = 50;

#[derive(Default)]
struct Case {
  seed: u64,
  text: String,
  features: BTreeSet<String>,
  allow_overflow: bool,
  lines_expected_min: usize,
  rejected: Option<String>,
  ref_trace: Option<Trace>,
  compile_err: Option<String>,
  wasm_invalid: Option<String>,
  wasm_trace: Option<Trace>,
  erase_err: Option<String>,
  js: Option<String>,
  ts_trace: Option<Trace>,
}

fn render_project(p: &Project) -> String {
  let mut s = String::new();
  for (n, t) in &p.modules {
    s.push_str(&format!("//// module {n}\n{t}"));
    if !t.ends_with('\n') {
      s.push('\n');
    }
  }
  s
}

fn panic_text(e: Box<dyn std::any::Any + Send>) -> String {
  e.downcast_ref::<String>().cloned().or_else(|| e.downcast_ref::<&str>().map(|s| s.to_string())).unwrap_or_default()
}

fn limits() -> Limits {
  Limits { max_steps: 20_000_000, ..Limits::default() }
}

/// everything but the TS run (that is batched afterwards)
fn run_case(seed: u64, user: &Project, entry: &str, c: &mut Case) {
  c.seed = seed;
  c.text = render_project(user);
  let project = user.clone().with_std();
  let mut heap = Heap::new();
  let checked = match std::panic::catch_unwind(std::panic::AssertUnwindSafe(|| front::check_project(&mut heap, &project))) {
    Ok(c) => c,
    Err(e) => {
      c.rejected = Some(format!("front end panicked: {}", panic_text(e)));
      return;
    }
  };
  if checked.errors.has_errors() {
    c.rejected = Some(checked.errors.pretty_print_error_messages_no_frame_for_test(&heap));
    return;
  }
  let entry_ref = front::mod_ref(&mut heap, entry);
  let (t, _) = refint::run(&heap, &checked.checked, entry_ref, &limits());
  c.ref_trace = Some(t);
  let compiled = match std::panic::catch_unwind(|| front::compile_project(&project, entry)) {
    Ok(Ok(x)) => x,
    Ok(Err(e)) => {
      c.compile_err = Some(format!("diagnostics: {e}"));
      return;
    }
    Err(e) => {
      c.compile_err = Some(format!("compiler panicked: {}", panic_text(e)));
      return;
    }
  };
  match wasmi::validate(&compiled.wasm) {
    Err(e) => c.wasm_invalid = Some(format!("{e} in {}", locate(&compiled.wasm, &e))),
    Ok(()) => {
      let (t, _) = wasmi::run(&compiled.wasm, &compiled.main_fn, &limits());
      c.wasm_trace = Some(t);
    }
  }
  match tsrun::erase(&compiled.ts) {
    Ok(js) => c.js = Some(js),
    Err(e) => c.erase_err = Some(e),
  }
}

/// name of the function whose body contains the byte offset mentioned in a validation error
fn locate(bytes: &[u8], err: &str) -> String {
  let Some(off) = err.rsplit("offset ").next().and_then(|s| s.trim_end_matches(')').parse::<usize>().ok()) else { return "?".into() };
  let mut imports = 0u32;
  let mut k = 0u32;
  for p in wasmparser::Parser::new(0).parse_all(bytes).flatten() {
    match p {
      wasmparser::Payload::ImportSection(r) => {
        for i in r.into_iter().flatten() {
          let _ = i;
          imports += 1;
        }
      }
      wasmparser::Payload::CodeSectionEntry(b) => {
        let r = b.range();
        if r.start <= off && off < r.end {
          let idx = imports + k;
          return wasmi::function_names(bytes).into_iter().find(|(i, _)| *i == idx).map(|(_, n)| n).unwrap_or(format!("func {idx}"));
        }
        k += 1;
      }
      _ => {}
    }
  }
  "?".into()
}

fn run_ts(cases: &mut [Case]) {
  let idx: Vec<usize> = (0..cases.len()).filter(|i| cases[*i].js.is_some()).collect();
  let chunks: Vec<Vec<usize>> = idx.chunks(TS_BATCH).map(|c| c.to_vec()).collect();
  let progs: Vec<Vec<String>> = chunks.iter().map(|ch| ch.iter().map(|i| cases[*i].js.clone().unwrap()).collect()).collect();
  let next = std::sync::atomic::AtomicUsize::new(0);
  let results: std::sync::Mutex<Vec<(usize, Vec<Trace>)>> = std::sync::Mutex::new(Vec::new());
  std::thread::scope(|sc| {
    for _ in 0..THREADS.min(8) {
      sc.spawn(|| loop {
        let k = next.fetch_add(1, std::sync::atomic::Ordering::SeqCst);
        if k >= progs.len() {
          break;
        }
        let ts = tsrun::run_batch(&progs[k], &limits(), 20_000);
        results.lock().unwrap().push((k, ts));
      });
    }
  });
  for (k, ts) in results.into_inner().unwrap() {
    for (j, t) in ts.into_iter().enumerate() {
      cases[chunks[k][j]].ts_trace = Some(t);
    }
  }
}

fn same(a: &Trace, b: &Trace) -> bool {
  a.lines == b.lines && a.ending == b.ending
}

fn short(s: &str) -> String {
  let s: String = s.chars().take(160).collect();
  format!("{s:?}")
}

fn diff(an: &str, a: &Trace, bn: &str, b: &Trace) -> String {
  for i in 0..a.lines.len().max(b.lines.len()) {
    let (x, y) = (a.lines.get(i), b.lines.get(i));
    if x != y {
      return format!(
        "line {}: {an}={} {bn}={} ({an}: {} lines, {:?}; {bn}: {} lines, {:?})",
        i + 1,
        x.map(|s| short(s)).unwrap_or("<none>".into()),
        y.map(|s| short(s)).unwrap_or("<none>".into()),
        a.lines.len(),
        a.ending,
        b.lines.len(),
        b.ending
      );
    }
  }
  format!("same {} lines; endings {an}={:?} {bn}={:?}", a.lines.len(), a.ending, b.ending)
}

fn ub_string(t: &Trace) -> String {
  let mut v = Vec::new();
  if t.ub.overflow {
    v.push("overflow");
  }
  if t.ub.div_zero {
    v.push("div_zero");
  }
  if t.ub.bad_to_int {
    v.push("bad_to_int");
  }
  if t.ub.capacity_observed {
    v.push("capacity_observed");
  }
  v.join(",")
}

/// coarse automatic grouping of a disagreement (refined by hand in the report)
/// feature based hints towards the likely cause of a disagreement
fn hints(c: &Case) -> String {
  let f = |k: &str| c.features.contains(k);
  let mut h = Vec::new();
  if f("enum:single-payload-self") || f("enum:single-payload-mutual") {
    h.push("rec-enum");
  }
  if f("enum:one-variant-one-payload") {
    h.push("1-variant-enum");
  }
  if f("vec-int-wide") {
    h.push("vec-wide");
  }
  if f("overflow-possible") {
    h.push("overflow");
  }
  if f("int-div") {
    h.push("div");
  }
  if f("str:nasty") {
    h.push("nasty-str");
  }
  if f("std.option.valueMap") {
    h.push("valueMap");
  }
  format!("[{}]", h.join(","))
}

fn classify(c: &Case, a: &Trace, b: &Trace) -> String {
  let base = classify0(c, a, b);
  let relevant: Vec<&str> = if base.starts_with("number") {
    vec!["rec-enum", "1-variant-enum", "vec-wide", "overflow", "div"]
  } else if base.starts_with("string") {
    vec![]
  } else if base.contains("SyntaxError") || base.contains("ReferenceError") {
    vec!["nasty-str", "valueMap"]
  } else {
    vec!["rec-enum", "1-variant-enum"]
  };
  let h = hints(c);
  let kept: Vec<&str> = h.trim_matches(|ch| ch == '[' || ch == ']').split(',').filter(|x| relevant.contains(x)).collect();
  if kept.is_empty() { base } else { format!("{base} [{}]", kept.join(",")) }
}

fn classify0(c: &Case, a: &Trace, b: &Trace) -> String {
  let mut first: Option<(String, String)> = None;
  for i in 0..a.lines.len().max(b.lines.len()) {
    let (x, y) = (a.lines.get(i), b.lines.get(i));
    if x != y {
      first = Some((x.cloned().unwrap_or_default(), y.cloned().unwrap_or_default()));
      break;
    }
  }
  let faulty = |t: &Trace| matches!(t.ending, Ending::Fault { .. } | Ending::NoArmMatched);
  match first {
    None => {
      if faulty(a) || faulty(b) {
        format!("ending-fault {:?} vs {:?}", kind(&a.ending), kind(&b.ending))
      } else {
        format!("ending-only {:?} vs {:?}", kind(&a.ending), kind(&b.ending))
      }
    }
    Some((x, y)) => {
      let esc = |s: &str| s.contains('\\') || s.contains('\n') || s.contains('\t') || s.contains('\0');
      let non_ascii = |s: &str| !s.is_ascii();
      if esc(&x) || esc(&y) {
        "string-escape".to_string()
      } else if (non_ascii(&x) || non_ascii(&y)) && strip_non_ascii(&x) == strip_non_ascii(&y) {
        "string-non-ascii".to_string()
      } else if c.features.contains("vec-int-wide") && differ_in_number(&x, &y) {
        "number (vec-int-wide program)".to_string()
      } else if differ_in_number(&x, &y) {
        "number".to_string()
      } else if x.is_empty() || y.is_empty() {
        format!("truncated ({:?} vs {:?})", kind(&a.ending), kind(&b.ending))
      } else {
        "text".to_string()
      }
    }
  }
}

fn strip_non_ascii(s: &str) -> String {
  s.chars().filter(|c| c.is_ascii()).collect()
}

fn kind(e: &Ending) -> String {
  match e {
    Ending::Fault { kind, at } if kind == "SyntaxError" && at.contains("'default'") => "Fault(SyntaxError: reserved word default)".to_string(),
    Ending::Fault { kind, .. } => format!("Fault({kind})"),
    Ending::Panic(_) => "Panic".to_string(),
    Ending::Harness(_) => "Harness".to_string(),
    Ending::ArithTrap(_) => "ArithTrap".to_string(),
    x => format!("{x:?}"),
  }
}

fn differ_in_number(x: &str, y: &str) -> bool {
  // strip the common prefix / suffix; what is left on both sides is digits / minus only
  let xb: Vec<char> = x.chars().collect();
  let yb: Vec<char> = y.chars().collect();
  let mut p = 0;
  while p < xb.len() && p < yb.len() && xb[p] == yb[p] {
    p += 1;
  }
  let mut s = 0;
  while s < xb.len() - p && s < yb.len() - p && xb[xb.len() - 1 - s] == yb[yb.len() - 1 - s] {
    s += 1;
  }
  let num = |v: &[char]| v.iter().all(|c| c.is_ascii_digit() || *c == '-');
  num(&xb[p..xb.len() - s]) && num(&yb[p..yb.len() - s])
}

fn parse_file_project(text: &str) -> (Project, String) {
  let mut p = Project::default();
  let mut cur: Option<(String, String)> = None;
  for line in text.lines() {
    if let Some(n) = line.strip_prefix("//// module ") {
      if let Some(m) = cur.take() {
        p.modules.push(m);
      }
      cur = Some((n.trim().to_string(), String::new()));
    } else {
      let c = cur.get_or_insert_with(|| ("Main".to_string(), String::new()));
      c.1.push_str(line);
      c.1.push('\n');
    }
  }
  if let Some(m) = cur.take() {
    p.modules.push(m);
  }
  let entry = p.modules.iter().rev().find(|(_, t)| t.contains("class Main")).map(|(n, _)| n.clone()).unwrap_or("Main".into());
  (p, entry)
}

/// split a module text into removable items: level 0 = classes, 1 = members, 2 = lines
fn chunks(text: &str, level: usize) -> Vec<String> {
  let lines: Vec<&str> = text.split('\n').collect();
  if level == 2 {
    return lines.iter().map(|s| s.to_string()).collect();
  }
  let mut out: Vec<String> = Vec::new();
  let mut cur: Vec<&str> = Vec::new();
  let is_member = |l: &str| l.starts_with("  function ") || l.starts_with("  method ") || l.starts_with("  private ");
  let is_class = |l: &str| l.starts_with("class ") || l.starts_with("interface ") || l.starts_with("private class ");
  for l in lines {
    let start = if level == 0 { is_class(l) || l.starts_with("import ") } else { is_class(l) || is_member(l) || l == "}" || l.starts_with("import ") };
    if start && !cur.is_empty() {
      out.push(cur.join("\n"));
      cur.clear();
    }
    cur.push(l);
    if level == 1 && (is_class(l) || l == "}") {
      out.push(cur.join("\n"));
      cur.clear();
    }
  }
  if !cur.is_empty() {
    out.push(cur.join("\n"));
  }
  out
}

fn print_trace(name: &str, t: &Trace) {
  println!("--- {name}: {} lines, ending {:?}, ub [{}]", t.lines.len(), t.ending, ub_string(t));
  for l in &t.lines {
    println!("  | {l}");
  }
}

fn verbose(seed: u64, user: &Project, entry: &str) -> bool {
  let mut c = Case::default();
  run_case(seed, user, entry, &mut c);
  let mut v = vec![c];
  run_ts(&mut v);
  let c = &v[0];
  if let Some(e) = &c.rejected {
    println!("REJECTED:\n{e}");
    return false;
  }
  let r = c.ref_trace.as_ref().unwrap();
  print_trace("ref", r);
  if let Some(e) = &c.compile_err {
    println!("COMPILE: {e}");
  }
  if let Some(e) = &c.wasm_invalid {
    println!("WASM INVALID: {e}");
  }
  if let Some(e) = &c.erase_err {
    println!("ERASE: {e}");
  }
  let mut all_same = true;
  if let Some(w) = &c.wasm_trace {
    if same(r, w) {
      println!("--- wasm: same as ref");
    } else {
      all_same = false;
      print_trace("wasm", w);
      println!("ref/wasm: {}", diff("ref", r, "wasm", w));
    }
  }
  if let Some(t) = &c.ts_trace {
    if same(r, t) {
      println!("--- ts: same as ref");
    } else {
      all_same = false;
      print_trace("ts", t);
      println!("ref/ts: {}", diff("ref", r, "ts", t));
    }
  }
  all_same
}

fn main() {
  let args: Vec<String> = std::env::args().collect();
  let default_hook = std::panic::take_hook();
  std::panic::set_hook(Box::new(move |info| {
    // compiler panics are caught and reported per case; keep stderr quiet for those
    if std::env::var("CALIB_GEN_PANICS").is_ok() {
      default_hook(info);
    }
  }));
  match args.get(1).map(|s| s.as_str()) {
    Some("show") => {
      let seed: u64 = args[2].parse().unwrap();
      let cfg = GenConfig::default_for(seed);
      let g = pgen::generate(seed, &cfg);
      println!("// seed {seed} cfg {cfg:?}\n// entry {} features {:?}", g.entry, g.features);
      print!("{}", render_project(&g.project));
      return;
    }
    Some("one") => {
      let seed: u64 = args[2].parse().unwrap();
      let cfg = GenConfig::default_for(seed);
      let g = pgen::generate(seed, &cfg);
      println!("// seed {seed} cfg {cfg:?}\n// entry {} features {:?}", g.entry, g.features);
      print!("{}", render_project(&g.project));
      verbose(seed, &g.project, &g.entry);
      return;
    }
    Some("file") => {
      for f in &args[2..] {
        let text = std::fs::read_to_string(f).expect("read file");
        let (p, entry) = parse_file_project(&text);
        println!("=== {f} (entry {entry})");
        verbose(0, &p, &entry);
      }
      return;
    }
    Some("dump-ts") => {
      let text = std::fs::read_to_string(&args[2]).expect("read file");
      let (p, entry) = parse_file_project(&text);
      match front::compile_project(&p.with_std(), &entry) {
        Ok(c) => print!("{}", if std::env::var("WAT").is_ok() { c.wat } else { c.ts }),
        Err(e) => println!("{e}"),
      }
      return;
    }
    Some("min") => {
      // calib_gen min SEED|FILE KIND [substring]   KIND: compile | wasm-invalid | ts-erase | ref-wasm | ref-ts | wasm-ts
      let (mut p, entry) = match args[2].parse::<u64>() {
        Ok(seed) => {
          let g = pgen::generate(seed, &GenConfig::default_for(seed));
          (g.project, g.entry)
        }
        Err(_) => parse_file_project(&std::fs::read_to_string(&args[2]).expect("read file")),
      };
      let kind = args[3].clone();
      let sub = args.get(4).cloned().unwrap_or_default();
      let mut tests = 0usize;
      let mut pred = |p: &Project| -> bool {
        tests += 1;
        let mut c = Case::default();
        run_case(0, p, &entry, &mut c);
        if c.rejected.is_some() {
          return false;
        }
        let r = c.ref_trace.as_ref().unwrap();
        if !r.conclusive() || matches!(r.ending, Ending::ArithTrap(_) | Ending::StackExhausted | Ending::Fault { .. }) {
          return false;
        }
        match kind.as_str() {
          "compile" => c.compile_err.as_ref().map(|e| e.contains(&sub)).unwrap_or(false),
          "wasm-invalid" => c.wasm_invalid.as_ref().map(|e| e.contains(&sub)).unwrap_or(false),
          "ts-erase" => c.erase_err.as_ref().map(|e| e.contains(&sub)).unwrap_or(false),
          "ref-wasm" => c.wasm_trace.as_ref().map(|w| w.conclusive() && !same(r, w) && diff("ref", r, "wasm", w).contains(&sub)).unwrap_or(false),
          "ref-ts" | "wasm-ts" => {
            if c.js.is_none() {
              return false;
            }
            let mut v = vec![c];
            run_ts(&mut v);
            let c = &v[0];
            let r = c.ref_trace.as_ref().unwrap();
            let t = c.ts_trace.as_ref().unwrap();
            if kind == "ref-ts" {
              t.conclusive() && !same(r, t) && diff("ref", r, "ts", t).contains(&sub)
            } else {
              let Some(w) = c.wasm_trace.as_ref() else { return false };
              t.conclusive() && w.conclusive() && !same(w, t) && diff("wasm", w, "ts", t).contains(&sub)
            }
          }
          _ => panic!("unknown kind"),
        }
      };
      if !pred(&p) {
        println!("the failure does not reproduce on the unreduced program");
        std::process::exit(2);
      }
      loop {
        let before: usize = p.modules.iter().map(|(_, t)| t.len()).sum();
        // three granularities: whole classes, whole members, single lines
        for level in 0..3 {
          for k in 0..p.modules.len() {
            let items = chunks(&p.modules[k].1, level);
            let base = p.clone();
            let mut budget = 3000usize;
            let kept = vcore::ddmin::ddmin_list(
              items,
              &mut |c: &[String]| {
                let mut q = base.clone();
                q.modules[k].1 = c.join("\n");
                pred(&q)
              },
              &mut budget,
            );
            p.modules[k].1 = kept.join("\n");
          }
        }
        let after: usize = p.modules.iter().map(|(_, t)| t.len()).sum();
        if after >= before {
          break;
        }
      }
      if std::env::var("CALIB_GEN_TOKENS").is_ok() {
        let mods = vcore::ddmin::minimise_modules(&p.modules, &mut |m: &[(String, String)]| pred(&Project { modules: m.to_vec() }), 6000);
        p = Project { modules: mods };
      }
      println!("// minimised with {tests} tests (kind {kind} {sub:?})");
      print!("{}", render_project(&p));
      return;
    }
    Some("time") => {
      let n: u64 = args.get(2).and_then(|s| s.parse().ok()).unwrap_or(2000);
      let t = Instant::now();
      let mut bytes = 0usize;
      let mut lines = 0usize;
      for seed in 0..n {
        let g = pgen::generate(seed, &GenConfig::default_for(seed));
        for (_, t) in &g.project.modules {
          bytes += t.len();
          lines += t.lines().count();
        }
      }
      let el = t.elapsed();
      println!("{n} programs in {el:?} = {:?} each; avg {} bytes, {} lines", el / n as u32, bytes / n as usize, lines / n as usize);
      return;
    }
    _ => {}
  }
  let n: u64 = args.get(1).and_then(|s| s.parse().ok()).unwrap_or(600);
  let t0 = Instant::now();
  let mut cases: Vec<Case> = Vec::new();
  let mut gen_time = std::time::Duration::ZERO;
  let per_thread: Vec<(Vec<Case>, std::time::Duration)> = std::thread::scope(|sc| {
    let hs: Vec<_> = (0..THREADS)
      .map(|tid| {
        std::thread::Builder::new()
          .stack_size(256 << 20)
          .spawn_scoped(sc, move || {
            let mut out = Vec::new();
            let mut gt = std::time::Duration::ZERO;
            let mut seed = tid as u64;
            while seed < n {
              let cfg = GenConfig::default_for(seed);
              let t = Instant::now();
              let g = pgen::generate(seed, &cfg);
              gt += t.elapsed();
              let mut c = Case { features: g.features.clone(), allow_overflow: cfg.allow_overflow, lines_expected_min: g.lines_expected_min, ..Case::default() };
              run_case(seed, &g.project, &g.entry, &mut c);
              out.push(c);
              seed += THREADS as u64;
            }
            (out, gt)
          })
          .unwrap()
      })
      .collect();
    hs.into_iter().map(|h| h.join().unwrap()).collect()
  });
  for (v, g) in per_thread {
    cases.extend(v);
    gen_time += g;
  }
  cases.sort_by_key(|c| c.seed);
  let t1 = Instant::now();
  run_ts(&mut cases);
  let t2 = Instant::now();

  // ---------------------------------------------------------------------------------------------
  let mut bad = 0usize; // things that must be zero
  let mut rejected = 0usize;
  let mut conclusive = 0usize;
  let mut harness = 0usize;
  let mut ub_bad = 0usize;
  let mut few_lines = 0usize;
  let mut compile_bad = 0usize;
  let mut total_lines = 0usize;
  let mut min_violations = 0usize;
  let mut endings: BTreeMap<String, usize> = BTreeMap::new();
  let mut hist: BTreeMap<String, usize> = BTreeMap::new();
  let mut src_lines = 0usize;
  for c in &cases {
    src_lines += c.text.lines().count();
    if let Some(e) = &c.rejected {
      rejected += 1;
      println!("===== REJECTED seed {}\n{e}\n{}", c.seed, c.text);
      continue;
    }
    for f in &c.features {
      *hist.entry(f.clone()).or_default() += 1;
    }
    let r = c.ref_trace.as_ref().unwrap();
    *endings.entry(kind(&r.ending)).or_default() += 1;
    total_lines += r.lines.len();
    match &r.ending {
      Ending::Return | Ending::Panic(_) | Ending::VecBounds => conclusive += 1,
      Ending::Harness(m) => {
        harness += 1;
        println!("===== HARNESS ending (ref) seed {}: {m}\n{}", c.seed, c.text);
      }
      e => {
        println!("===== inconclusive / unexpected ref ending seed {}: {e:?}", c.seed);
        bad += 1;
      }
    }
    if r.ub.any() && !c.allow_overflow {
      ub_bad += 1;
      println!("===== UB flags [{}] with allow_overflow=false, seed {}", ub_string(r), c.seed);
    }
    if r.lines.len() < 5 {
      few_lines += 1;
      println!("===== only {} printed lines, seed {}", r.lines.len(), c.seed);
    }
    if matches!(r.ending, Ending::Return) && r.lines.len() < c.lines_expected_min {
      min_violations += 1;
      println!("===== lines_expected_min {} > printed {} , seed {}", c.lines_expected_min, r.lines.len(), c.seed);
    }
    if let Some(e) = &c.compile_err {
      compile_bad += 1;
      println!("===== COMPILE failure seed {}: {e}", c.seed);
    }
    if let Some(e) = &c.wasm_invalid {
      println!("===== wasm does not validate, seed {}: {e}", c.seed);
    }
    if let Some(e) = &c.erase_err {
      println!("===== TS erase failed, seed {}: {e}", c.seed);
    }
  }
  // disagreements
  let mut groups: BTreeMap<String, Vec<(u64, String)>> = BTreeMap::new();
  let mut n_rw = 0;
  let mut n_rt = 0;
  let mut n_wt = 0;
  let mut inconclusive_exec = 0;
  for c in &cases {
    let Some(r) = &c.ref_trace else { continue };
    let w = c.wasm_trace.as_ref();
    let t = c.ts_trace.as_ref();
    for (name, x) in [("wasm", w), ("ts", t)] {
      if let Some(x) = x {
        if !x.conclusive() {
          inconclusive_exec += 1;
          println!("===== {name} inconclusive, seed {}: {:?}", c.seed, x.ending);
        }
      }
    }
    let ok = |x: Option<&Trace>| x.map(|x| x.conclusive()).unwrap_or(false);
    if !r.conclusive() {
      continue;
    }
    if ok(w) && !same(r, w.unwrap()) {
      n_rw += 1;
      let k = format!("ref!=wasm: {}", classify(c, r, w.unwrap()));
      groups.entry(k).or_default().push((c.seed, diff("ref", r, "wasm", w.unwrap())));
    }
    if ok(t) && !same(r, t.unwrap()) {
      n_rt += 1;
      let k = format!("ref!=ts: {}", classify(c, r, t.unwrap()));
      groups.entry(k).or_default().push((c.seed, diff("ref", r, "ts", t.unwrap())));
    }
    if ok(w) && ok(t) && !same(w.unwrap(), t.unwrap()) {
      n_wt += 1;
      if same(r, w.unwrap()) || same(r, t.unwrap()) {
        continue; // already listed above
      }
      let k = format!("wasm!=ts (both != ref): {}", classify(c, w.unwrap(), t.unwrap()));
      groups.entry(k).or_default().push((c.seed, diff("wasm", w.unwrap(), "ts", t.unwrap())));
    }
  }
  if let Ok(path) = std::env::var("CALIB_GEN_DUMP") {
    // one line per seed: seed <TAB> status words <TAB> features (for offline grouping)
    let mut out = String::new();
    for c in &cases {
      let mut st: Vec<String> = Vec::new();
      if let Some(e) = &c.compile_err {
        st.push(format!("compile:{}", if e.contains("Option::unwrap") { "unwrap-none" } else if e.contains("$any") { "any" } else if e.contains("unknown func") { "unknown-func" } else { "other" }));
      }
      if let Some(e) = &c.wasm_invalid {
        st.push(format!("wasm-invalid:{}", if e.contains("found (ref eq)") { "ref-eq" } else { "other" }));
      }
      if c.erase_err.is_some() {
        st.push("ts-erase".into());
      }
      if let (Some(r), Some(w)) = (&c.ref_trace, &c.wasm_trace) {
        if !same(r, w) {
          st.push(format!("ref!=wasm:{}", classify(c, r, w).replace(' ', "_")));
        }
      }
      if let (Some(r), Some(t)) = (&c.ref_trace, &c.ts_trace) {
        if !same(r, t) {
          st.push(format!("ref!=ts:{}", classify(c, r, t).replace(' ', "_")));
        }
      }
      out.push_str(&format!("{}\t{}\t{}\n", c.seed, st.join(" "), c.features.iter().cloned().collect::<Vec<_>>().join(" ")));
    }
    let _ = std::fs::write(path, out);
  }
  for c in &cases {
    let norm = |e: &str| -> String {
      if e.contains("Option::unwrap") {
        "compiler panic: Option::unwrap on None".to_string()
      } else if e.contains("failed to find name `$any`") {
        "compiler panic: wat has unknown type $any".to_string()
      } else if e.contains("unknown func") {
        "compiler panic: wat calls an unknown function".to_string()
      } else if e.contains("unknown type") {
        "compiler panic: wat has an unknown type".to_string()
      } else {
        format!("compile: {}", e.chars().take(120).collect::<String>())
      }
    };
    if let Some(e) = &c.compile_err {
      groups.entry(norm(e)).or_default().push((c.seed, e.chars().take(200).collect()));
    }
    if let Some(e) = &c.wasm_invalid {
      let k = e.split(" (at offset").next().unwrap_or("").to_string();
      groups.entry(format!("wasm does not validate: {k}")).or_default().push((c.seed, e.clone()));
    }
    if let Some(e) = &c.erase_err {
      let k: String = e.split(" at line").next().unwrap_or("").to_string();
      groups.entry(format!("emitted TS is not lexable/erasable: {k}")).or_default().push((c.seed, e.clone()));
    }
  }
  let accepted = cases.len() - rejected;
  println!("\n================ calib_gen report ({} seeds) ================", cases.len());
  println!(
    "time: phase1 {:?} (generation total {:?} = {:?}/program), ts {:?}",
    t1 - t0,
    gen_time,
    gen_time / (cases.len().max(1) as u32),
    t2 - t1
  );
  println!("source size: avg {} lines per program", src_lines / cases.len().max(1));
  println!("accepted by the checker: {accepted}/{} ({:.1}%)", cases.len(), 100.0 * accepted as f64 / cases.len().max(1) as f64);
  println!("reference run conclusive (Return/Panic/VecBounds): {conclusive}/{accepted}");
  println!("reference endings: {endings:?}");
  println!("avg printed lines: {:.1}", total_lines as f64 / accepted.max(1) as f64);
  println!("must-be-zero: rejected={rejected} harness={harness} ub(with allow_overflow=false)={ub_bad} <5 lines={few_lines} compile failures={compile_bad} other={bad} lines_expected_min violations={min_violations}");
  println!("executors inconclusive (wasm/ts): {inconclusive_exec}");
  println!("\nfeature histogram (programs using the tag):");
  for (k, v) in &hist {
    println!("  {v:5}  {k}");
  }
  let required = [
    "enum:nullary-only", "enum:single-payload-struct", "enum:single-payload-enum-all-payload", "enum:single-payload-enum-with-nullary",
    "enum:single-payload-self", "enum:single-payload-mutual", "enum:single-payload-generic-param", "enum:many-payload", "enum:>2-variants",
    "generic-class", "generic-method", "type-args-explicit", "type-args-inferred", "interface-bounded-generic", "private-member",
    "closure-captures-local", "closure-captures-this", "method-reference-value", "static-function-reference", "lambda-to-hof",
    "tuple-2", "tuple-3", "tuple-4", "tuple-5", "tuple-6", "tuple-big", "pattern:tuple", "pattern:or", "pattern:nested", "pattern:struct-as",
    "pattern:wildcard", "destructuring-let", "if-let", "else-if-chain", "short-circuit-effects", "eval-order-args", "tail-recursion",
    "non-tail-recursion", "induction-variable", "vec", "vec-int", "vec-str", "vec-class", "str-toInt-hidden-input", "str-concat", "import-cycle",
    "multi-module", "struct-class", "std.option", "std.list", "std.result", "std.tuples", "ending:panic", "ending:vec-bounds",
  ];
  let missing: Vec<&str> = required.iter().copied().filter(|k| !hist.contains_key(*k)).collect();
  println!("required tags never used: {missing:?}");
  println!("\ndisagreements: ref!=wasm {n_rw}, ref!=ts {n_rt}, wasm!=ts {n_wt}");
  for (k, v) in &groups {
    println!("\n## {k}: {} seeds: {:?}", v.len(), v.iter().map(|x| x.0).collect::<Vec<_>>());
    for (seed, d) in v.iter().take(if std::env::var("CALIB_GEN_FEW_DIFFS").is_ok() { 4 } else { usize::MAX }) {
      println!("   seed {seed}: {d}");
    }
  }
  let fail = rejected > 0 || harness > 0 || ub_bad > 0 || few_lines > 0 || bad > 0;
  if fail {
    println!("\nCALIBRATION FAILED");
    std::process::exit(1);
  }
  println!("\ncalibrated");
}
