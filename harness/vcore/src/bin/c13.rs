//! C13 — type inference is stable under meaning-preserving rewrites of the source.
//! Monitor: metamorphic rewrites (alpha-renaming by an independent scope resolver, reordering of
//! classes and members, wrapping expressions in parentheses / blocks, making inferred let / lambda
//! types and inferred type arguments explicit) are applied to accepted and rejected programs; the
//! checker's verdict must not flip and the reference interpreter's trace must not change.
use samlang_ast::Location;
use samlang_ast::source::{Module, expr};
use samlang_checker::type_::ISourceType;
use samlang_checker::type_::Type;
use serde_json::{Value, json};
use std::collections::{BTreeMap, BTreeSet};
use std::panic::AssertUnwindSafe;
use std::sync::Arc;
use std::time::Duration;
use vcore::astwalk::{self, Node, Walker};
use vcore::corpus::Corpus;
use vcore::diffexec;
use vcore::evidence::{Run, env_seed, env_tier};
use vcore::front::{self, Project};
use vcore::pgen::{self, GenConfig};
use vcore::pool::{self, DriveOpts, WorkerCtx};
use vcore::rng::Rng;
use vcore::scope;

fn offset(text: &str, line: u32, col: u32) -> Option<usize> {
  let mut l = 0u32;
  let mut start = 0usize;
  for (i, b) in text.bytes().enumerate() {
    if l == line {
      break;
    }
    if b == b'\n' {
      l += 1;
      start = i + 1;
    }
  }
  if l != line { None } else { Some(start + col as usize) }
}

/// apply non-overlapping (start, end, replacement) edits given as locations
fn apply(text: &str, edits: &[(Location, String)]) -> Option<String> {
  let mut v: Vec<(usize, usize, &str)> = Vec::new();
  for (l, s) in edits {
    v.push((offset(text, l.start.0, l.start.1)?, offset(text, l.end.0, l.end.1)?, s));
  }
  v.sort();
  for w in v.windows(2) {
    if w[0].1 > w[1].0 {
      return None;
    }
  }
  let mut out = text.to_string();
  for (a, b, s) in v.iter().rev() {
    if a > b || *b > out.len() {
      return None;
    }
    out.replace_range(*a..*b, s);
  }
  Some(out)
}

fn slice(text: &str, l: &Location) -> Option<String> {
  Some(text.get(offset(text, l.start.0, l.start.1)?..offset(text, l.end.0, l.end.1)?)?.to_string())
}

fn collect_exprs(n: &Node, role: &'static str, out: &mut Vec<(Location, &'static str, &'static str)>) {
  if matches!(n.kind, "int_literal" | "string_literal" | "bool_literal" | "local" | "class_ref" | "tuple" | "member_access" | "unary" | "call" | "binary" | "if" | "match" | "block" | "lambda") {
    if let Some(l) = n.loc {
      out.push((l, n.kind, role));
    }
  }
  for (k, c) in n.children.iter().enumerate() {
    if !c.kind.starts_with("pattern") && !c.kind.starts_with("annot") && c.kind != "type_arguments" && c.kind != "accessed_name" {
      let r = match (n.kind, k) {
        ("call", 0) => "callee",
        ("member_access", 0) => "receiver",
        ("arguments", _) => "argument",
        _ => "operand",
      };
      collect_exprs(c, r, out);
    }
  }
}

fn visible_classes(tree: &Node) -> BTreeSet<String> {
  let mut v: BTreeSet<String> = ["Str", "Vec", "Process"].iter().map(|s| s.to_string()).collect();
  for c in &tree.children {
    match c.kind {
      "import" => {
        for m in c.children.iter().filter(|m| m.kind == "import_member") {
          v.insert(m.attr.clone());
        }
      }
      "class" | "interface" => {
        if let Some(n) = c.children.iter().find(|x| x.kind == "toplevel_name") {
          v.insert(n.attr.clone());
        }
        // type parameters of the class and of its members are usable inside
        fn tps(n: &Node, v: &mut BTreeSet<String>) {
          if n.kind == "type_parameter_name" {
            v.insert(n.attr.clone());
          }
          for c in &n.children {
            tps(c, v);
          }
        }
        tps(c, &mut v);
      }
      _ => {}
    }
  }
  v
}

fn printable(ty: &str, visible: &BTreeSet<String>) -> bool {
  if ty.contains("any") || ty.contains('_') || ty.contains("class ") || ty.contains("placeholder") || ty.is_empty() {
    return false;
  }
  ty.split(|c: char| !c.is_ascii_alphanumeric()).filter(|w| w.chars().next().map(|c| c.is_ascii_uppercase()).unwrap_or(false)).all(|w| visible.contains(w))
}

/// (position to insert at, text) for making inferred types explicit, from the checked tree
fn annotation_sites(heap: &samlang_heap::Heap, m: &Module<Arc<Type>>, visible: &BTreeSet<String>) -> Vec<(&'static str, Location, String)> {
  let mut out = Vec::new();
  astwalk::for_each_expr(m, &mut |e| match e {
    expr::E::Block(b) => {
      for st in &b.statements {
        if let expr::Statement::Declaration(d) = st {
          if d.annotation.is_none() {
            if let samlang_ast::source::pattern::MatchingPattern::Id(id, _) = &d.pattern {
              let t = d.assigned_expression.type_().pretty_print(heap);
              if printable(&t, visible) {
                let at = Location { module_reference: id.loc.module_reference, start: id.loc.end, end: id.loc.end };
                out.push(("let-annotation", at, format!(": {t}")));
              }
            }
          }
        }
      }
    }
    expr::E::Lambda(l) => {
      for p in &l.parameters.parameters {
        if p.annotation.is_none() {
          let t = p.type_.pretty_print(heap);
          if printable(&t, visible) {
            let at = Location { module_reference: p.name.loc.module_reference, start: p.name.loc.end, end: p.name.loc.end };
            out.push(("lambda-parameter-annotation", at, format!(": {t}")));
          }
        }
      }
    }
    expr::E::Call(c) => {
      let (explicit, inferred, name_loc) = match c.callee.as_ref() {
        expr::E::FieldAccess(f) => (f.explicit_type_arguments.is_some(), &f.inferred_type_arguments, f.field_name.loc),
        expr::E::MethodAccess(f) => (f.explicit_type_arguments.is_some(), &f.inferred_type_arguments, f.method_name.loc),
        _ => return,
      };
      if !explicit && !inferred.is_empty() {
        let ts: Vec<String> = inferred.iter().map(|t| t.pretty_print(heap)).collect();
        if ts.iter().all(|t| printable(t, visible)) {
          let at = Location { module_reference: name_loc.module_reference, start: name_loc.end, end: name_loc.end };
          out.push(("explicit-type-arguments", at, format!("<{}>", ts.join(", "))));
        }
      }
    }
    _ => {}
  });
  out
}

struct Checked {
  accepted: bool,
  nerrors: usize,
  first_error: String,
  trace: Option<vcore::trace::Trace>,
}

fn evaluate(p: &Project, entry: &str, run_it: bool) -> Result<Checked, String> {
  pool::catch(AssertUnwindSafe(|| {
    let mut heap = samlang_heap::Heap::new();
    let c = front::check_project(&mut heap, p);
    let nerrors = c.errors.errors().len();
    let first_error = c.errors.errors().first().map(|e| format!("{}: {}", e.location.pretty_print(&heap), e.to_ide_format(&heap, &c.handles).ide_error)).unwrap_or_default();
    let mut trace = None;
    if nerrors == 0 && run_it {
      let e = front::mod_ref(&mut heap, entry);
      let (t, _) = vcore::refint::run(&heap, &c.checked, e, &vcore::trace::Limits { max_steps: 20_000_000, max_depth: 4000, max_lines: 20_000 });
      trace = Some(t);
    }
    Checked { accepted: nerrors == 0, nerrors, first_error, trace }
  }))
}

fn replace_module(p: &Project, name: &str, text: String) -> Project {
  let mut q = p.clone();
  for m in q.modules.iter_mut() {
    if m.0 == name {
      m.1 = text.clone();
    }
  }
  q
}

/// every rewrite of one module: (rewrite kind, site description, new text)
fn rewrites(name: &str, text: &str, project: &Project, rng: &mut Rng, per_kind: usize) -> Vec<(&'static str, String, String)> {
  let mut out = Vec::new();
  let mut heap = samlang_heap::Heap::new();
  let checked = front::check_project(&mut heap, project);
  let Some(mref) = front::mod_ref_lookup(&heap, name) else { return out };
  let Some(parsed) = checked.parsed.get(&mref) else { return out };
  if checked.errors.errors().iter().any(|e| e.is_syntax_error() && e.location.module_reference == mref) {
    return out;
  }
  let tree = Walker::new(&heap).module(parsed);
  // R1 alpha-renaming
  let mut bindings = scope::resolve(&tree);
  rng.shuffle(&mut bindings);
  // the binder zoo is small: rename every one of its bindings in turn
  let renames = if name == "Zoo" { usize::MAX } else { per_kind };
  for (k, b) in bindings.iter().filter(|b| !b.shorthand).take(renames).enumerate() {
    let fresh = format!("alphaRenamed{k}x{}", rng.below(100));
    let edits: Vec<(Location, String)> = b.defs.iter().chain(b.uses.iter()).map(|l| (*l, fresh.clone())).collect();
    if let Some(t) = apply(text, &edits) {
      out.push(("alpha-rename", format!("`{}` ({}, {} occurrences) in {}", b.name, b.kind, edits.len(), b.member), t));
    }
  }
  // R2 reorder toplevels / members
  let tops: Vec<Location> = tree.children.iter().filter(|c| c.kind == "class" || c.kind == "interface").filter_map(|c| c.loc).collect();
  if tops.len() >= 2 {
    let mut order: Vec<usize> = (0..tops.len()).collect();
    rng.shuffle(&mut order);
    let texts: Vec<String> = tops.iter().filter_map(|l| slice(text, l)).collect();
    if texts.len() == tops.len() {
      let edits: Vec<(Location, String)> = tops.iter().enumerate().map(|(i, l)| (*l, texts[order[i]].clone())).collect();
      if let Some(t) = apply(text, &edits) {
        out.push(("reorder-toplevels", format!("{} declarations permuted {:?}", tops.len(), order), t));
      }
    }
  }
  for c in tree.children.iter().filter(|c| c.kind == "class") {
    if let Some(ms) = c.children.iter().find(|x| x.kind == "members") {
      // a member's location starts at `function` / `method`: pull a preceding `private` in
      let locs: Vec<Location> = ms
        .children
        .iter()
        .filter_map(|m| m.loc)
        .map(|mut l| {
          if let Some(o) = offset(text, l.start.0, l.start.1) {
            let before = text[..o].trim_end();
            if before.ends_with("private") && l.start.1 as usize >= o - (before.len() - 7) {
              l.start.1 -= (o - (before.len() - 7)) as u32;
            }
          }
          l
        })
        .collect();
      if locs.len() >= 2 && out.iter().filter(|o| o.0 == "reorder-members").count() < per_kind {
        let mut order: Vec<usize> = (0..locs.len()).collect();
        rng.shuffle(&mut order);
        let texts: Vec<String> = locs.iter().filter_map(|l| slice(text, l)).collect();
        if texts.len() == locs.len() {
          let edits: Vec<(Location, String)> = locs.iter().enumerate().map(|(i, l)| (*l, texts[order[i]].clone())).collect();
          if let Some(t) = apply(text, &edits) {
            out.push(("reorder-members", format!("{} members permuted", locs.len()), t));
          }
        }
      }
    }
  }
  // R3 wrap an expression
  let mut exprs = Vec::new();
  collect_exprs(&tree, "operand", &mut exprs);
  rng.shuffle(&mut exprs);
  // the zoo modules are small: wrap every one of their expressions, both ways
  let zoo = name == "Zoo";
  for (k, (l, nkind, role)) in exprs.iter().flat_map(|e| if zoo { vec![e, e] } else { vec![e] }).take(if zoo { usize::MAX } else { per_kind * 2 }).enumerate() {
    if let Some(src) = slice(text, l) {
      let (kind, wrapped) = if k % 2 == 0 { ("wrap-in-parentheses", format!("({src})")) } else { ("wrap-in-block", format!("{{ {src} }}")) };
      if let Some(t) = apply(text, &[(*l, wrapped)]) {
        out.push((kind, format!("{nkind} as {role}: `{}`", src.chars().take(40).collect::<String>()), t));
      }
    }
  }
  // R4/R5 make inferred types explicit (needs the checked tree: only for accepted modules)
  if !checked.errors.has_errors() {
    if let Some(cm) = checked.checked.get(&mref) {
      let visible = visible_classes(&tree);
      let mut sites = annotation_sites(&heap, cm, &visible);
      rng.shuffle(&mut sites);
      let mut count: BTreeMap<&'static str, usize> = BTreeMap::new();
      for (kind, at, ins) in sites {
        let c = count.entry(kind).or_insert(0);
        if *c >= renames {
          continue;
        }
        *c += 1;
        if let Some(t) = apply(text, &[(at, ins.clone())]) {
          out.push((kind, format!("insert `{ins}` at {}:{}", at.start.0 + 1, at.start.1 + 1), t));
        }
      }
    }
  }
  out
}

/// R6: move one class / interface of `name` into a new module; the original imports it back, the
/// new module gets the original's imports plus the siblings it mentions, and every other module
/// that imported the moved name from `name` imports it from the new module instead.
fn split_rewrites(name: &str, text: &str, project: &Project, rng: &mut Rng, want: usize) -> Vec<(String, Project)> {
  let mut out = Vec::new();
  let mut heap = samlang_heap::Heap::new();
  let checked = front::check_project(&mut heap, project);
  let Some(mref) = front::mod_ref_lookup(&heap, name) else { return out };
  let Some(parsed) = checked.parsed.get(&mref) else { return out };
  if checked.errors.errors().iter().any(|e| e.is_syntax_error()) {
    return out;
  }
  let tree = Walker::new(&heap).module(parsed);
  let tops: Vec<(&Node, String)> = tree
    .children
    .iter()
    .filter(|c| c.kind == "class" || c.kind == "interface")
    .filter_map(|c| c.children.iter().find(|x| x.kind == "toplevel_name").map(|n| (c, n.attr.clone())))
    .collect();
  if tops.len() < 2 {
    return out;
  }
  let import_text: String = tree.children.iter().filter(|c| c.kind == "import").filter_map(|c| c.loc.and_then(|l| slice(text, &l))).map(|t| format!("{}\n", t.trim_end())).collect();
  let mut order: Vec<usize> = (0..tops.len()).collect();
  rng.shuffle(&mut order);
  for &k in order.iter().take(want) {
    let (node, cname) = &tops[k];
    let Some(loc) = node.loc else { continue };
    let Some(o) = offset(text, loc.start.0, loc.start.1) else { continue };
    let before = text[..o].trim_end();
    if before.ends_with("private") {
      continue; // module-private: cannot be imported from elsewhere
    }
    let Some(body) = slice(text, &loc) else { continue };
    let idents: BTreeSet<String> = vcore::toks::lex(&body).into_iter().map(|t| t.text).collect();
    let siblings: Vec<&String> = tops.iter().map(|t| &t.1).filter(|n| *n != cname && idents.contains(*n)).collect();
    let new_name = format!("{name}Split{k}");
    let sib_import = if siblings.is_empty() { String::new() } else { format!("import {{ {} }} from {name};\n", siblings.iter().map(|s| s.as_str()).collect::<Vec<_>>().join(", ")) };
    let new_module = format!("{import_text}{sib_import}{body}\n");
    let Some(rest) = apply(text, &[(loc, String::new())]) else { continue };
    let rest = format!("import {{ {cname} }} from {new_name};\n{rest}");
    let mut p2 = project.clone();
    let mut ok = true;
    for m in p2.modules.iter_mut() {
      if m.0 == name {
        m.1 = rest.clone();
      } else if !m.0.starts_with("std.") {
        // importers of the moved name
        let Some(r2) = front::mod_ref_lookup(&heap, &m.0) else { continue };
        let Some(p) = checked.parsed.get(&r2) else { continue };
        let t2 = Walker::new(&heap).module(p);
        let mut edits = Vec::new();
        for imp in t2.children.iter().filter(|c| c.kind == "import" && c.attr == name) {
          let members: Vec<&str> = imp.children.iter().filter(|x| x.kind == "import_member").map(|x| x.attr.as_str()).collect();
          if members.contains(&cname.as_str()) {
            let rest_members: Vec<&str> = members.iter().copied().filter(|x| x != cname).collect();
            let mut line = format!("import {{ {cname} }} from {new_name};");
            if !rest_members.is_empty() {
              line = format!("import {{ {} }} from {name};\n{line}", rest_members.join(", "));
            }
            if let Some(l) = imp.loc {
              edits.push((l, line));
            } else {
              ok = false;
            }
          }
        }
        if !edits.is_empty() {
          match apply(&m.1, &edits) {
            Some(t) => m.1 = t,
            None => ok = false,
          }
        }
      }
    }
    if ok {
      p2.modules.push((new_name.clone(), new_module));
      out.push((format!("`{cname}` moved from {name} to {new_name} ({} sibling imports)", siblings.len()), p2));
    }
  }
  out
}

fn gen_base(seed: u64, i: u64, corpus: &Corpus) -> (String, Project, String, bool) {
  let mut rng = Rng::new(seed.wrapping_mul(0x9E3779B97F4A7C15) ^ i.wrapping_mul(0xD1B54A32D192ED03));
  if i % 5 == 0 {
    // the repository's samples as one program (verdict only; AllTests is too slow to run per rewrite)
    let mut p = Project::default();
    p.modules.extend(corpus.tests.iter().cloned());
    return ("tests.*".into(), p.with_std(), "tests.AllTests".into(), false);
  }
  if i % 10 == 2 {
    // bounded generic classes / functions in every shape, values built by inference only
    let text = vcore::exprgen::generic_zoo(&mut rng);
    return (format!("generic zoo {i}"), Project::single("Zoo", &text).with_std(), "Zoo".into(), true);
  }
  if i % 5 == 1 {
    // every binder form in every binding construct, names reused in disjoint scopes
    let text = vcore::exprgen::binder_zoo(&mut rng);
    return (format!("binder zoo {i}"), Project::single("Zoo", &text).with_std(), "Zoo".into(), true);
  }
  let pseed = seed.wrapping_mul(1_000_003).wrapping_add(i);
  let g = pgen::generate(pseed, &GenConfig::default_for(pseed));
  let mut p = g.project.with_std();
  if i % 5 == 4 {
    // a rejected program: "vice versa" — rewrites must not make it accepted
    let user: Vec<usize> = p.modules.iter().enumerate().filter(|(_, m)| m.0.starts_with("gen.")).map(|(k, _)| k).collect();
    let k = user[rng.below(user.len())];
    for (from, to) in [(" + 1", " + \"one\""), ("Str.fromInt(", "Str.fromIntt("), (" - ", " - true - ")] {
      if p.modules[k].1.contains(from) {
        p.modules[k].1 = p.modules[k].1.replacen(from, to, 1);
        break;
      }
    }
    return (format!("rejected variant of pgen seed {pseed}"), p, g.entry, true);
  }
  (format!("pgen seed {pseed}"), p, g.entry, true)
}

fn total(tier: &str) -> u64 {
  if tier == "thorough" { 3_000 } else { 160 }
}

fn main() {
  let args: Vec<String> = std::env::args().collect();
  if let Some(ctx) = WorkerCtx::from_args(&args) {
    pool::install_hook();
    let corpus = Corpus::load();
    let n = total(&ctx.tier);
    let per_kind = if ctx.tier == "thorough" { 4 } else { 2 };
    let mut i = ctx.only_case.unwrap_or(ctx.start_case);
    while i < n {
      if ctx.mine(i) {
        let (label, project, entry, runnable) = gen_base(ctx.seed, i, &corpus);
        ctx.begin(i, &label);
        let mut rng = Rng::new(ctx.seed ^ i);
        let mut v = json!({"t": "r", "case": i, "label": label});
        match evaluate(&project, &entry, runnable) {
          Err(e) => v["skip"] = json!(format!("front end panicked on the base program: {e}")),
          Ok(base) => {
            v["base_accepted"] = json!(base.accepted);
            let user: Vec<(String, String)> = project.modules.iter().filter(|(n, _)| !n.starts_with("std.")).cloned().collect();
            let (mname, mtext) = user[rng.below(user.len())].clone();
            let rws = rewrites(&mname, &mtext, &project, &mut rng, per_kind);
            let mut by_kind: BTreeMap<String, u64> = BTreeMap::new();
            let mut fails: Vec<Value> = Vec::new();
            let mut candidates: Vec<(&'static str, String, Project, String)> = Vec::new();
            for (kind, site, new_text) in rws {
              // a rewrite that does not even parse is this harness's splice problem, not the checker's
              let parsed_ok = vcore::fmtcheck::parse(&new_text).map(|p| p.syntax_errors.is_empty()).unwrap_or(false);
              if !parsed_ok {
                *by_kind.entry(format!("{kind}:unparsable-splice")).or_insert(0) += 1;
                continue;
              }
              let p2 = replace_module(&project, &mname, new_text.clone());
              candidates.push((kind, site.clone(), p2, format!("# rewrite {kind}: {site} (module {mname})\n# ---- rewritten module ----\n{new_text}\n# ---- original module ----\n{mtext}")));
            }
            if label.starts_with("generic zoo") {
              // spellings the generator knows to be equivalent (available for rejected bases too)
              for (kind, new_text) in vcore::exprgen::generic_zoo_equivalents(&mtext) {
                let p2 = replace_module(&project, &mname, new_text.clone());
                candidates.push((kind, "generator-known equivalent spelling".to_string(), p2, format!("# rewrite {kind} (module {mname})\n# ---- rewritten module ----\n{new_text}\n# ---- original module ----\n{mtext}")));
              }
            }
            for (site, p2) in split_rewrites(&mname, &mtext, &project, &mut rng, per_kind) {
              let all_parse = p2.modules.iter().filter(|m| !m.0.starts_with("std.")).all(|m| vcore::fmtcheck::parse(&m.1).map(|p| p.syntax_errors.is_empty()).unwrap_or(false));
              if !all_parse {
                *by_kind.entry("split-module:unparsable-splice".to_string()).or_insert(0) += 1;
                continue;
              }
              let user2 = Project { modules: p2.modules.iter().filter(|m| !m.0.starts_with("std.")).cloned().collect() };
              let replay = format!("# rewrite split-module: {site}\n# ---- rewritten program ----\n{}\n# ---- original module ----\n{mtext}", diffexec::render_project(&user2));
              candidates.push(("split-module", site, p2, replay));
            }
            for (kind, site, p2, replay_text) in candidates {
              ctx.begin(i, &format!("{label} {kind}"));
              *by_kind.entry(kind.to_string()).or_insert(0) += 1;
              let replay = || replay_text.clone();
              match evaluate(&p2, &entry, runnable && base.accepted) {
                Err(e) => fails.push(json!({"sig": format!("front-end-panic:{}", e.rsplit(" @ ").next().unwrap_or("").replace("/repo/", "")), "what": format!("front end panicked after {kind}: {e}"), "replay": replay()})),
                Ok(r) => {
                  if r.accepted != base.accepted {
                    let dir = if base.accepted { "accepted-becomes-rejected" } else { "rejected-becomes-accepted" };
                    let site_class = if kind.starts_with("wrap-") { format!(":{}", site.split(':').next().unwrap_or("").replace(' ', "-")) } else { String::new() };
                    fails.push(json!({"sig": format!("{dir}:{kind}{site_class}"), "what": format!("{kind} ({site}): the original has {} diagnostics, the rewritten program {}: {}{}", base.nerrors, r.nerrors, r.first_error.chars().take(200).collect::<String>(), base.first_error.chars().take(200).collect::<String>()), "replay": replay()}));
                  } else if let (Some(a), Some(b)) = (&base.trace, &r.trace) {
                    if a.conclusive() && b.conclusive() && (a.lines != b.lines || a.ending != b.ending) {
                      fails.push(json!({"sig": format!("behaviour-changes:{kind}"), "what": format!("{kind} ({site}): {}", diffexec::describe_diff("the original", a, "the rewritten program", b)), "replay": replay()}));
                    }
                  }
                }
              }
            }
            v["by_kind"] = json!(by_kind);
            if !fails.is_empty() {
              v["fails"] = Value::Array(fails);
            }
          }
        }
        pool::emit(&v);
        ctx.end(i);
      }
      if ctx.only_case.is_some() {
        break;
      }
      i += 1;
    }
    return;
  }
  let tier = args.get(1).cloned().unwrap_or_else(|| env_tier("quick"));
  let seed = env_seed();
  let mut run = Run::new("C13", &tier, seed, "exploration");
  let opts = DriveOpts {
    nshards: 16,
    tier: tier.clone(),
    seed,
    stall: Duration::from_secs(300),
    overall: Duration::from_secs(if tier == "thorough" { 3000 } else { 900 }),
    extra: vec![],
    env: vec![("RAYON_NUM_THREADS".into(), "2".into())],
    max_deaths_per_shard: 30,
  };
  let (res, timed_out) = pool::drive(&opts);
  if timed_out {
    run.inconclusive("overall wall-clock cap reached before all base programs ran");
  }
  let mut by_kind: BTreeMap<String, u64> = BTreeMap::new();
  let (mut accepted_bases, mut rejected_bases) = (0u64, 0u64);
  let mut seen = BTreeSet::new();
  for v in &res.events {
    if v["t"].as_str() != Some("r") {
      continue;
    }
    if let Some(s) = v.get("skip") {
      run.inconclusive(s.as_str().unwrap_or(""));
      continue;
    }
    if v["base_accepted"].as_bool() == Some(true) { accepted_bases += 1 } else { rejected_bases += 1 }
    if let Some(m) = v["by_kind"].as_object() {
      for (k, c) in m {
        let c = c.as_u64().unwrap_or(0);
        *by_kind.entry(k.clone()).or_insert(0) += c;
        if !k.ends_with(":unparsable-splice") {
          run.evaluations += c;
        }
      }
    }
    for f in v["fails"].as_array().cloned().unwrap_or_default() {
      let sig = f["sig"].as_str().unwrap_or("").to_string();
      let replay = if seen.insert(sig.clone()) { f["replay"].as_str().unwrap_or("").to_string() } else { f["replay"].as_str().unwrap_or("").lines().take(2).collect::<Vec<_>>().join("\n") };
      run.violation(sig, format!("{} [{}]", f["what"].as_str().unwrap_or(""), v["label"].as_str().unwrap_or("")), replay);
    }
    if v["case"].as_u64().unwrap_or(0) % 41 == 1 {
      run.sample(json!({"base": v["label"], "rewrites_applied": v["by_kind"]}));
    }
  }
  for d in &res.deaths {
    run.violation(format!("front-end-{}:{}", if d.hang { "hang" } else { "abort" }, d.how), format!("worker died ({}) on base program {:?} ({})", d.how, d.case, d.desc), format!("case {:?} seed {seed}", d.case));
  }
  run.distinct_nontrivial = run.evaluations;
  run.rule = "base programs: generator programs (accepted), rejected variants of them and the repository's samples; rewrites applied to one module per base program at random applicable sites: alpha-renaming of a parameter / let / pattern / lambda-parameter variable to a fresh name (sites from the independent scope resolver), random permutation of the module's declarations and of a class's members, wrapping a random expression in ( ) or { }, inserting the type the checker inferred as a let annotation / lambda parameter annotation, inserting the inferred type arguments of a call; non-trivial = distinct (program, rewrite kind, site) triples that parsed".into();
  run.cov("rewrites_per_kind", json!(by_kind));
  run.cov("accepted_base_programs", json!(accepted_bases));
  run.cov("rejected_base_programs", json!(rejected_bases));
  run.assumptions = vec![
    "each rewrite is meaning preserving by the language definition; a rewrite whose result has a syntax error is a splice problem of this harness and is not judged".into(),
    "inferred types are only made explicit when every class they name is visible in the module".into(),
    "moving a class into a new module (with imports) is not implemented in this round".into(),
  ];
  std::process::exit(run.finish());
}
