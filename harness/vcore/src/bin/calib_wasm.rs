//! Calibration of the WasmGC checking interpreter (vcore::wasmi) against the repository's own
//! end-to-end snapshot and a handful of hand-written programs with known endings.
//! Exit code 0 = everything as expected, 1 = a deviation (message on stderr).

use std::time::Instant;
use vcore::front::{self, Project};
use vcore::trace::{Ending, Limits, Trace};
use vcore::wasmi::{self, WasmRunStats};

struct Ctx {
  failures: Vec<String>,
}

impl Ctx {
  fn check(&mut self, what: &str, ok: bool, detail: impl FnOnce() -> String) {
    if ok {
      println!("  ok   {what}");
    } else {
      let d = detail();
      println!("  FAIL {what}: {d}");
      self.failures.push(format!("{what}: {d}"));
    }
  }
}

fn run_small(ctx: &mut Ctx, name: &str, src: &str, limits: &Limits) -> Option<(Trace, WasmRunStats)> {
  let c = match compile_small(src) {
    Ok(c) => c,
    Err(e) => {
      ctx.check(&format!("{name}: compiles"), false, || e);
      return None;
    }
  };
  if let Err(e) = wasmi::validate(&c.wasm) {
    ctx.check(&format!("{name}: validates"), false, || e);
    return None;
  }
  let (t, s) = wasmi::run(&c.wasm, &c.main_fn, limits);
  println!(
    "  [{name}] ending={:?} lines={} instrs={} depth={} allocs={}",
    t.ending,
    t.lines.len(),
    s.instrs,
    s.max_depth,
    s.gc_allocs
  );
  Some((t, s))
}

/// compile a one-module project; a panic inside the compiler is turned into Err
fn compile_small(src: &str) -> Result<front::Compiled, String> {
  let p = Project::single("Test", src).with_std();
  match std::panic::catch_unwind(|| front::compile_project(&p, "Test")) {
    Ok(r) => r,
    Err(e) => Err(format!(
      "compiler panicked: {}",
      e.downcast_ref::<String>().cloned().or_else(|| e.downcast_ref::<&str>().map(|s| s.to_string())).unwrap_or_default()
    )),
  }
}

/// one wasm section (all sizes here are < 128, so LEB128 is a single byte)
fn section(id: u8, content: &[u8]) -> Vec<u8> {
  assert!(content.len() < 128);
  let mut v = vec![id, content.len() as u8];
  v.extend_from_slice(content);
  v
}

/// module exporting function 0 as "f"; `types` / `bodies` are raw encodings, `mid` are raw sections
/// placed between the function and export sections (table) and `post` after export (elem)
fn tiny_module(types: &[&[u8]], func_types: &[u8], mid: &[Vec<u8>], post: &[Vec<u8>], bodies: &[&[u8]]) -> Vec<u8> {
  let mut m = vec![0x00, 0x61, 0x73, 0x6d, 0x01, 0x00, 0x00, 0x00];
  let mut t = vec![types.len() as u8];
  for x in types {
    t.extend_from_slice(x);
  }
  m.extend(section(1, &t));
  let mut f = vec![func_types.len() as u8];
  f.extend_from_slice(func_types);
  m.extend(section(3, &f));
  for s in mid {
    m.extend_from_slice(s);
  }
  m.extend(section(7, &[0x01, 0x01, b'f', 0x00, 0x00]));
  for s in post {
    m.extend_from_slice(s);
  }
  let mut c = vec![bodies.len() as u8];
  for b in bodies {
    assert!(b.len() < 127);
    c.push(b.len() as u8 + 1);
    c.push(0x00); // no locals
    c.extend_from_slice(b);
  }
  m.extend(section(10, &c));
  m
}

fn negative_cases(ctx: &mut Ctx, limits: &Limits) {
  const FUNC0: &[u8] = &[0x60, 0x00, 0x00]; // (func)
  const FUNC_I32: &[u8] = &[0x60, 0x01, 0x7F, 0x00]; // (func (param i32))
  const ARR_I8: &[u8] = &[0x5E, 0x78, 0x01]; // (array (mut i8))
  const STRUCT_I32: &[u8] = &[0x5F, 0x01, 0x7F, 0x01]; // (struct (field (mut i32)))
  let table = section(4, &[0x01, 0x70, 0x00, 0x01]); // (table 1 funcref)
  let elem = section(9, &[0x01, 0x00, 0x41, 0x00, 0x0B, 0x01, 0x01]); // (elem (i32.const 0) func 1)
  let cases: Vec<(&str, Vec<u8>, &str)> = vec![
    // ref.null eq; ref.as_non_null; drop
    ("ref.as_non_null null", tiny_module(&[FUNC0], &[0], &[], &[], &[&[0xD0, 0x6D, 0xD4, 0x1A, 0x0B]]), "NullReference"),
    // i32.const 5; ref.i31; ref.cast (ref struct); drop
    (
      "ref.cast i31 -> struct",
      tiny_module(&[FUNC0], &[0], &[], &[], &[&[0x41, 0x05, 0xFB, 0x1C, 0xFB, 0x16, 0x6B, 0x1A, 0x0B]]),
      "CastFailure",
    ),
    // ref.null none; ref.cast (ref $1); drop     (null into a non-null target)
    (
      "ref.cast null -> (ref $struct)",
      tiny_module(&[FUNC0, STRUCT_I32], &[0], &[], &[], &[&[0xD0, 0x71, 0xFB, 0x16, 0x01, 0x1A, 0x0B]]),
      "CastFailure",
    ),
    // ref.null $1; struct.get $1 0; drop
    (
      "struct.get null",
      tiny_module(&[FUNC0, STRUCT_I32], &[0], &[], &[], &[&[0xD0, 0x01, 0xFB, 0x02, 0x01, 0x00, 0x1A, 0x0B]]),
      "NullReference",
    ),
    // i32.const 2; array.new_default $1; i32.const 5; array.get_u $1; drop
    (
      "array.get_u out of bounds",
      tiny_module(
        &[FUNC0, ARR_I8],
        &[0],
        &[],
        &[],
        &[&[0x41, 0x02, 0xFB, 0x07, 0x01, 0x41, 0x05, 0xFB, 0x0D, 0x01, 0x1A, 0x0B]],
      ),
      "OutOfBoundsArray",
    ),
    // ref.null $1; array.len; drop
    ("array.len null", tiny_module(&[FUNC0, ARR_I8], &[0], &[], &[], &[&[0xD0, 0x01, 0xFB, 0x0F, 0x1A, 0x0B]]), "NullReference"),
    // i32.const 7; i32.const 0; call_indirect (type 1) table 0   -- slot 0 holds func 1 of type 0
    (
      "call_indirect signature mismatch",
      tiny_module(
        &[FUNC0, FUNC_I32],
        &[0, 0],
        &[table.clone()],
        &[elem.clone()],
        &[&[0x41, 0x07, 0x41, 0x00, 0x11, 0x01, 0x00, 0x0B], &[0x0B]],
      ),
      "IndirectCallTypeMismatch",
    ),
    // i32.const 5; call_indirect (type 0) table 0
    (
      "call_indirect index out of range",
      tiny_module(
        &[FUNC0, FUNC_I32],
        &[0, 0],
        &[table.clone()],
        &[elem.clone()],
        &[&[0x41, 0x05, 0x11, 0x00, 0x00, 0x0B], &[0x0B]],
      ),
      "OutOfBoundsTable",
    ),
    // i32.const 0; call_indirect (type 0) table 0 with an empty (null) slot
    (
      "call_indirect null slot",
      tiny_module(&[FUNC0], &[0], &[table.clone()], &[], &[&[0x41, 0x00, 0x11, 0x00, 0x00, 0x0B]]),
      "NullTableEntry",
    ),
    // ref.null $0 ; call_ref $0
    ("call_ref null", tiny_module(&[FUNC0], &[0], &[], &[], &[&[0xD0, 0x00, 0x14, 0x00, 0x0B]]), "NullReference"),
    // unreachable outside the Vec helpers
    ("unreachable", tiny_module(&[FUNC0], &[0], &[], &[], &[&[0x00, 0x0B]]), "Unreachable"),
    // i32.const -1 ; array.new_default $1 ; drop
    (
      "array.new_default huge",
      tiny_module(&[FUNC0, ARR_I8], &[0], &[], &[], &[&[0x41, 0x7F, 0xFB, 0x07, 0x01, 0x1A, 0x0B]]),
      "AllocationTooLarge",
    ),
  ];
  for (name, bytes, kind) in cases {
    if let Err(e) = wasmi::validate(&bytes) {
      ctx.check(&format!("{name}: hand-assembled module validates"), false, || e);
      continue;
    }
    let (t, _) = wasmi::run(&bytes, "f", limits);
    // with a name-less module the Vec helpers cannot be identified, so a bare `unreachable`
    // must be reported as inconclusive rather than guessed
    let ok = match &t.ending {
      Ending::Fault { kind: k, .. } => k == kind,
      Ending::Harness(msg) => kind == "Unreachable" && msg.contains("Vec helper"),
      _ => false,
    };
    ctx.check(&format!("{name} -> {kind}"), ok, || format!("{:?}", t.ending));
  }
  // positive control: a call_indirect whose callee type matches, and i31 round trip
  // f0: i32.const 0; call_indirect (type 0); f1: i32.const -1; ref.i31; i31.get_u; i32.const 0x7fffffff; i32.ne; if unreachable end
  let m = tiny_module(
    &[FUNC0],
    &[0, 0],
    &[table],
    &[elem],
    &[
      &[0x41, 0x00, 0x11, 0x00, 0x00, 0x0B],
      &[0x41, 0x7F, 0xFB, 0x1C, 0xFB, 0x1E, 0x41, 0xFF, 0xFF, 0xFF, 0xFF, 0x07, 0x47, 0x04, 0x40, 0x00, 0x0B, 0x0B],
    ],
  );
  match wasmi::validate(&m) {
    Err(e) => ctx.check("positive control validates", false, || e),
    Ok(()) => {
      let (t, s) = wasmi::run(&m, "f", limits);
      ctx.check("matching call_indirect + i31.get_u(-1) == 0x7fffffff", t.ending == Ending::Return && s.max_depth == 2, || {
        format!("{:?}", t.ending)
      });
    }
  }
}

fn first_diff(a: &str, b: &str) -> String {
  for (i, (la, lb)) in a.lines().zip(b.lines()).enumerate() {
    if la != lb {
      return format!("line {}: got {:?}, expected {:?}", i + 1, la, lb);
    }
  }
  format!("line counts differ: got {} expected {}", a.lines().count(), b.lines().count())
}

fn main() {
  let mut ctx = Ctx { failures: vec![] };
  let limits = Limits::default();

  // ---- 1. the repository's own e2e program ---------------------------------------------------
  println!("== tests.AllTests");
  let p = front::repo_project();
  let t0 = Instant::now();
  let c = match front::compile_project(&p, "tests.AllTests") {
    Ok(c) => c,
    Err(e) => {
      eprintln!("calib_wasm: tests.AllTests does not compile:\n{e}");
      std::process::exit(1);
    }
  };
  println!("  compiled in {:?}; {} wasm bytes; main = {}", t0.elapsed(), c.wasm.len(), c.main_fn);
  let t0 = Instant::now();
  let v = wasmi::validate(&c.wasm);
  println!("  validated in {:?}", t0.elapsed());
  ctx.check("AllTests validates", v.is_ok(), || v.clone().unwrap_err());
  let names = wasmi::function_names(&c.wasm);
  let has = |n: &str| names.iter().any(|(_, x)| x == n);
  ctx.check(
    "name section names the Vec helpers",
    has("__Vec$get") && has("__Vec$set") && has("__Vec$pop"),
    || format!("{} names, first: {:?}", names.len(), names.iter().take(25).collect::<Vec<_>>()),
  );

  let big = Limits { max_steps: 2_000_000_000, max_depth: 100_000, max_lines: 1_000_000 };
  let t0 = Instant::now();
  let (trace, stats) = wasmi::run(&c.wasm, &c.main_fn, &big);
  let dt = t0.elapsed();
  let expected = std::fs::read_to_string(format!("{}/tests/snapshot.txt", front::REPO)).unwrap();
  println!(
    "  run: {:?}; instrs={} ({:.1} M instr/s incl. validate+decode); max depth {}; gc allocs {}; {} distinct opcodes",
    dt,
    stats.instrs,
    stats.instrs as f64 / dt.as_secs_f64() / 1e6,
    stats.max_depth,
    stats.gc_allocs,
    stats.opcodes_seen.len()
  );
  println!("  opcodes: {}", stats.opcodes_seen.iter().cloned().collect::<Vec<_>>().join(" "));
  ctx.check("AllTests ending is Return", trace.ending == Ending::Return, || format!("{:?}", trace.ending));
  let out = trace.stdout();
  ctx.check("AllTests stdout == tests/snapshot.txt", out == expected, || first_diff(&out, &expected));
  ctx.check("steps recorded", trace.steps == stats.instrs && stats.instrs > 0, || "steps".into());

  // missing export
  let (t, _) = wasmi::run(&c.wasm, "no_such_export", &limits);
  ctx.check(
    "missing export is a fault",
    matches!(&t.ending, Ending::Fault { kind, .. } if kind == "MissingExport"),
    || format!("{:?}", t.ending),
  );
  // garbage bytes
  let (t, _) = wasmi::run(&c.wasm[..c.wasm.len() / 2], &c.main_fn, &limits);
  ctx.check(
    "truncated module is InvalidModule",
    matches!(&t.ending, Ending::Fault { kind, .. } if kind == "InvalidModule"),
    || format!("{:?}", t.ending),
  );
  // step limit
  let (t, _) = wasmi::run(&c.wasm, &c.main_fn, &Limits { max_steps: 10_000, ..limits });
  ctx.check("step limit", t.ending == Ending::StepLimit && t.steps == 10_000, || {
    format!("{:?} after {}", t.ending, t.steps)
  });
  let (t, _) = wasmi::run(&c.wasm, &c.main_fn, &Limits { max_lines: 3, ..big });
  ctx.check("line limit", t.ending == Ending::StepLimit && t.lines.len() == 3, || {
    format!("{:?} after {} lines", t.ending, t.lines.len())
  });

  // ---- 2. small programs with known endings ----------------------------------------------------
  println!("== small programs");
  if let Some((t, _)) = run_small(
    &mut ctx,
    "panic",
    r#"class Main { function main(): unit = { let _ = Process.println("before"); let _ = Process.panic<unit>("boom"); Process.println("after") } }"#,
    &limits,
  ) {
    ctx.check("panic: ending", t.ending == Ending::Panic("boom".into()), || format!("{:?}", t.ending));
    ctx.check("panic: lines", t.lines == vec!["before".to_string()], || format!("{:?}", t.lines));
  }

  for (name, body) in [
    ("vec-get", "let v = Vec.empty<int>(); let x = v.get(0); Process.println(Str.fromInt(x))"),
    ("vec-get-neg", "let v = Vec.of<int>(7); let x = v.get(0 - 1); Process.println(Str.fromInt(x))"),
    ("vec-set", "let v = Vec.of<int>(1); let _ = v.set(1, 5); Process.println(\"no\")"),
    ("vec-pop", "let v = Vec.empty<Str>(); let x = v.pop(); Process.println(x)"),
  ] {
    let src = format!(
      "class Main {{ function main(): unit = {{ let _ = Process.println(\"start\"); {body} }} }}"
    );
    if let Some((t, _)) = run_small(&mut ctx, name, &src, &limits) {
      ctx.check(&format!("{name}: VecBounds"), t.ending == Ending::VecBounds, || format!("{:?}", t.ending));
      ctx.check(&format!("{name}: printed start only"), t.lines == vec!["start".to_string()], || {
        format!("{:?}", t.lines)
      });
    }
  }

  if let Some((t, _)) = run_small(
    &mut ctx,
    "vec-ok",
    r#"class Main { function main(): unit = {
      let v = Vec.empty<int>(); let _ = v.push(1); let _ = v.push(0 - 2); let _ = v.push(3);
      let _ = v.set(0, 40);
      let _ = Process.println(Str.fromInt(v.get(0) + v.get(1) + v.length()));
      let _ = Process.println(Str.fromInt(v.pop()));
      Process.println(Str.fromInt(v.length()))
    } }"#,
    &limits,
  ) {
    ctx.check("vec-ok", t.ending == Ending::Return && t.lines == vec!["41", "3", "2"], || {
      format!("{:?} {:?}", t.ending, t.lines)
    });
  }

  for (name, expr, kind) in [
    ("div0", "10 / \"0\".toInt()", "IntegerDivideByZero"),
    ("mod0", "10 % \"0\".toInt()", "IntegerDivideByZero"),
    ("min-div", "(0 - 2147483647 - \"1\".toInt()) / (\"0\".toInt() - 1)", "IntegerOverflow"),
  ] {
    let src = format!(
      "class Main {{ function main(): unit = {{ let _ = Process.println(\"start\"); Process.println(Str.fromInt({expr})) }} }}"
    );
    if let Some((t, _)) = run_small(&mut ctx, name, &src, &limits) {
      ctx.check(&format!("{name}: ArithTrap"), t.ending == Ending::ArithTrap(kind.into()), || {
        format!("{:?}", t.ending)
      });
      ctx.check(&format!("{name}: ub flag + line"), t.ub.div_zero && t.lines == vec!["start"], || {
        format!("{:?} {:?}", t.ub, t.lines)
      });
    }
  }
  if let Some((t, _)) = run_small(
    &mut ctx,
    "min-rem",
    r#"class Main { function main(): unit = Process.println(Str.fromInt((0 - 2147483647 - "1".toInt()) % ("0".toInt() - 1))) }"#,
    &limits,
  ) {
    ctx.check("min-rem: INT_MIN % -1 == 0 without trap", t.ending == Ending::Return && t.lines == vec!["0"], || {
      format!("{:?} {:?}", t.ending, t.lines)
    });
  }

  if let Some((t, s)) = run_small(
    &mut ctx,
    "deep-recursion",
    r#"class Main {
      function f(n: int): int = 1 + Main.f(n + 1)
      function main(): unit = Process.println(Str.fromInt(Main.f("0".toInt())))
    }"#,
    &limits,
  ) {
    ctx.check("deep-recursion: StackExhausted", t.ending == Ending::StackExhausted, || format!("{:?}", t.ending));
    ctx.check("deep-recursion: depth == budget", s.max_depth == limits.max_depth, || format!("{}", s.max_depth));
  }
  if let Some((t, s)) = run_small(
    &mut ctx,
    "bounded-recursion",
    r#"class Main {
      function f(n: int): int = if n == 0 { 0 } else { 1 + Main.f(n - 1) }
      function main(): unit = Process.println(Str.fromInt(Main.f("3000".toInt())))
    }"#,
    &limits,
  ) {
    ctx.check("bounded-recursion", t.ending == Ending::Return && t.lines == vec!["3000"], || {
      format!("{:?} {:?} depth {}", t.ending, t.lines, s.max_depth)
    });
  }

  if let Some((t, _)) = run_small(
    &mut ctx,
    "infinite-loop",
    r#"class Main {
      function f(n: int): int = Main.f(n + 1)
      function main(): unit = Process.println(Str.fromInt(Main.f("0".toInt())))
    }"#,
    &Limits { max_steps: 200_000, ..limits },
  ) {
    ctx.check("infinite tail loop: StepLimit", t.ending == Ending::StepLimit, || format!("{:?}", t.ending));
  }

  // strings: the wasm backend keeps escapes raw (known finding F-string-escapes); what is checked
  // here is the interpreter's faithful execution of libsam (concat / fromInt / toInt / ==).
  let long = "abcdefghij".repeat(300);
  let src = format!(
    r#"class Main {{
      function rep(s: Str, n: int): Str = if n == 0 {{ "" }} else {{ s :: Main.rep(s, n - 1) }}
      function main(): unit = {{
        let _ = Process.println(Str.fromInt(0 - 2147483647 - "1".toInt()));
        let _ = Process.println(Str.fromInt("-2147483648".toInt()));
        let _ = Process.println(Str.fromInt("-123".toInt() * 2));
        let _ = Process.println(Str.fromInt("2147483647".toInt() + 1));
        let _ = Process.println(Str.fromInt("12ab".toInt()));
        let _ = Process.println(Str.fromInt(0) :: Str.fromInt(0 - 7) :: Str.fromInt(1000000));
        let _ = Process.println("{long}");
        let _ = Process.println(Main.rep("xy", 500));
        let _ = Process.println("tab[\t] quote[\"] backslash[\\] nl[\n]");
        let _ = Process.println("héllo");
        let _ = Process.println(if "ab" :: "c" == "a" :: "bc" {{ "eq" }} else {{ "ne" }});
        Process.println(if "abc" == "abd" {{ "eq" }} else {{ "ne" }})
      }}
    }}"#
  );
  if let Some((t, _)) = run_small(&mut ctx, "strings", &src, &limits) {
    ctx.check("strings: Return", t.ending == Ending::Return, || format!("{:?}", t.ending));
    let want_prefix: Vec<String> = vec![
      "-2147483648".into(),
      "-2147483648".into(),
      "-246".into(),
      "-2147483648".into(),
      "0".into(),
      "0-71000000".into(),
      long.clone(),
      "xy".repeat(500),
    ];
    ctx.check("strings: numeric / long lines", t.lines.len() == 12 && t.lines[..8] == want_prefix[..], || {
      format!("{:?}", t.lines.iter().map(|l| l.chars().take(40).collect::<String>()).collect::<Vec<_>>())
    });
    if t.lines.len() == 12 {
      println!("  escapes line as emitted by the wasm backend: {:?}", t.lines[8]);
      println!("  non-ascii line as decoded like loader.js:    {:?}", t.lines[9]);
      // loader.js: the bytes are decoded as UTF-8 (TextDecoder)
      let l = &t.lines[9];
      ctx.check(
        "strings: non-ascii bytes decode as UTF-8 (TextDecoder over the low 8 bits of __strGet)",
        l == "héllo",
        || format!("{l:?}"),
      );
      ctx.check("strings: equality", t.lines[10] == "eq" && t.lines[11] == "ne", || {
        format!("{:?}", &t.lines[10..])
      });
    }
  }

  // closures / enums / generics: exercises call_indirect, ref.cast, ref.test, i31
  if let Some((t, s)) = run_small(
    &mut ctx,
    "closures-enums",
    r#"
    class Opt<T>(None, Some(T)) {
      method <R> map(f: (T) -> R): Opt<R> = match (this) { None -> Opt.None<R>(), Some(v) -> Opt.Some(f(v)) }
      method getOr(d: T): T = match (this) { None -> d, Some(v) -> v }
    }
    class Shape(Circle(int), Rect(int, int), Unit) {
      method area(): int = match (this) { Circle(r) -> 3 * r * r, Rect(w, h) -> w * h, Unit -> 1 }
    }
    class Main {
      function apply(f: (int) -> int, x: int): int = f(x)
      function main(): unit = {
        let k = "5".toInt();
        let add = (x: int) -> x + k;
        let _ = Process.println(Str.fromInt(Main.apply(add, 10)));
        let _ = Process.println(Str.fromInt(Opt.Some(4).map((x: int) -> x * k).getOr(0)));
        let _ = Process.println(Str.fromInt(Opt.None<int>().map((x: int) -> x * k).getOr(0 - 1)));
        let _ = Process.println(Str.fromInt(Shape.Circle(2).area() + Shape.Rect(k, 3).area() + Shape.Unit().area()));
        Process.println(Str.fromInt(Shape.Rect(2, k).area()))
      }
    }"#,
    &limits,
  ) {
    ctx.check(
      "closures-enums output",
      t.ending == Ending::Return && t.lines == vec!["15", "20", "-1", "28", "10"],
      || format!("{:?} {:?}", t.ending, t.lines),
    );
    println!("  opcodes: {}", s.opcodes_seen.iter().cloned().collect::<Vec<_>>().join(" "));
  }

  // ---- 3. probes: behaviour of the pinned tree that is reported, not asserted ----------------------
  println!("== probes (informational)");
  // libsam's $__Str$toInt: the empty-string guard `(block $B0 (br_if $B0 ...))` targets the inner
  // block, so "".toInt() reads element 0 of an empty array
  match compile_small(r#"class Main { function main(): unit = Process.println(Str.fromInt("".toInt())) }"#) {
    Ok(c) => {
      let (t, _) = wasmi::run(&c.wasm, &c.main_fn, &limits);
      println!("  \"\".toInt(): {:?} {:?}", t.ending, t.lines);
      let known = matches!(&t.ending, Ending::Fault { kind, at } if kind == "OutOfBoundsArray" && at == "__Str$toInt");
      ctx.check("probe \"\".toInt(): Return 0 or the known array OOB in $__Str$toInt", known || (t.ending == Ending::Return && t.lines == vec!["0"]), || {
        format!("{:?}", t.ending)
      });
    }
    Err(e) => println!("  \"\".toInt(): does not compile: {e}"),
  }
  // Vec of an enum type: element read lowers to `ref.cast (ref $any)`, which wat rejects (compiler panic)
  std::panic::set_hook(Box::new(|_| {}));
  match compile_small(
    r#"class Shape(Circle(int), Unit) { method area(): int = match (this) { Circle(r) -> r, Unit -> 1 } }
       class Main { function main(): unit = { let v = Vec.empty<Shape>(); let _ = v.push(Shape.Circle(2)); Process.println(Str.fromInt(v.get(0).area())) } }"#,
  ) {
    Ok(c) => {
      let (t, _) = wasmi::run(&c.wasm, &c.main_fn, &limits);
      println!("  Vec<enum>.get: {:?} {:?}", t.ending, t.lines);
    }
    Err(e) => println!("  Vec<enum>.get: {}", e.lines().next().unwrap_or("").chars().take(300).collect::<String>()),
  }
  let _ = std::panic::take_hook();

  // ---- 4. negative cases: tiny hand-assembled modules, one per engine-level trap kind ------------
  println!("== hand-assembled trap modules");
  negative_cases(&mut ctx, &limits);

  // ---- verdict -------------------------------------------------------------------------------
  if ctx.failures.is_empty() {
    println!("calib_wasm: ALL OK");
  } else {
    eprintln!("calib_wasm: {} deviation(s):", ctx.failures.len());
    for f in &ctx.failures {
      eprintln!("  - {f}");
    }
    std::process::exit(1);
  }
}
